"""Allocation ghost for the linear-relations domain: every pointer value that
is the start of a heap buffer carries (capacity, live) in state.tags["alloc"].
malloc(n) / realloc(p, n) create a live allocation of n bytes (a successful
realloc retires p); `adopt` registers an incoming buffer with an assumed
capacity.  `check_access` judges an n-byte access at base + offset."""
from . import linear as L


def sym_of(v):
    syms = [k for k in v if k != L.ONE]
    ptrs = [k for k in syms if str(k).startswith(("heap", "ptr:"))]
    if len(ptrs) != 1 or v[ptrs[0]] != 1:
        return None, None
    off = {k: c for k, c in v.items() if k != ptrs[0]}
    return ptrs[0], off


def m_malloc(an, f, e, st):
    n = an.eval(f, e["args"][0], st)[0][0]
    fail = st.copy()
    p = an.fresh(st, "heap", False)
    st.tags.setdefault("alloc", {})[list(p)[0]] = (n, True)
    return [(p, st), (L.lconst(0), fail)]


def m_realloc(an, f, e, st):
    old = an.eval(f, e["args"][0], st)[0][0]
    n = an.eval(f, e["args"][1], st)[0][0]
    fail = st.copy()
    p = an.fresh(st, "heap", False)
    a = st.tags.setdefault("alloc", {})
    osym, ooff = sym_of(old)
    if osym is not None:
        cap = a.get(osym, (L.lconst(0), True))[0]
        a[osym] = (cap, False)
    a[list(p)[0]] = (n, True)
    return [(p, st), (L.lconst(0), fail)]


def m_free(an, f, e, st):
    v = an.eval(f, e["args"][0], st)[0][0]
    sym, off = sym_of(v)
    if sym is not None:
        a = st.tags.setdefault("alloc", {})
        a[sym] = (a.get(sym, (L.lconst(0), True))[0], False)
    return [(L.lconst(0), st)]


def adopt(st, sym, cap):
    st.tags.setdefault("alloc", {})[sym] = (cap, True)


def check_access(st, ptr, nbytes):
    """None if an access of nbytes at ptr is provably inside a live allocation,
    else a description of what is wrong"""
    sym, off = sym_of(ptr)
    if sym is None:
        return "the pointer %s is not derived from one buffer" % L.lshow(ptr)
    a = st.tags.get("alloc", {}).get(sym)
    if a is None:
        return "the buffer %s has no known allocation" % sym
    cap, live = a
    if not live:
        return "the buffer was released / retired by realloc (the new pointer was not stored)"
    if not st.entails_le(L.lscale(off, -1)):
        return "the offset %s may be negative" % L.lshow(off)
    if not st.entails_le(L.lsub(L.ladd(off, nbytes), cap)):
        return "%s bytes at offset %s do not fit the allocation of %s bytes" % (L.lshow(nbytes), L.lshow(off), L.lshow(cap))
    return None
