"""Driver: ./check <Cxx> [--tier quick|thorough]

Re-extracts facts from the current working tree of the repo (ACQ_REPO, default
/repo), runs the property's rules, prints KNOWN-FINDING / VIOLATION lines and
writes evidence/<Cxx>.json.  Exit 0 held, 1 violation, 2 analysis broken."""
import argparse
import importlib
import os
import sys
import time
import traceback

sys.path.insert(0, os.path.dirname(os.path.dirname(os.path.abspath(__file__))))

from acq import build, ir, report  # noqa: E402


class Context:
    def __init__(self, tier):
        self.tier = tier
        self._progs = {}
        self.info = {}

    def program(self, config="default"):
        """Program for a build configuration.  default: the cmake flags plus
        -DNO_UNIT_TESTS; plain: without -mavx2 (selects bin2.plain.c);
        unittests: in-source unit tests compiled in."""
        if config not in self._progs:
            if config == "default":
                facts, info = build.extract()
            elif config == "plain":
                facts, info = build.extract(drop_flags=("-mavx2",))
            elif config == "unittests":
                facts, info = build.extract(defs=())
            else:
                raise ValueError(config)
            self._progs[config] = ir.Program(facts, info)
            if config == "default":
                self.info = info
        return self._progs[config]


def main():
    ap = argparse.ArgumentParser()
    ap.add_argument("prop")
    ap.add_argument("--tier", default=os.environ.get("VERIF_TIER", "quick"),
                    choices=["quick", "thorough"])
    a = ap.parse_args()
    pid = a.prop.upper()
    t0 = time.time()
    res = report.Result(pid)
    ctx = Context(a.tier)
    try:
        mod = importlib.import_module("acq.props." + pid.lower())
        ctx.program()
        mod.run(ctx, res)
        rc = report.conclude(res, a.tier, t0, ctx.info)
    except build.AnalysisBroken as e:
        print("ANALYSIS-BROKEN: %s" % e)
        res.extra.setdefault("explanation", "analysis could not be carried out")
        report.write_evidence(res, a.tier, time.time() - t0, ctx.info, 0, [],
                              [str(e)])
        rc = 2
    except Exception:
        traceback.print_exc()
        print("ANALYSIS-BROKEN: internal error in the checker")
        res.extra.setdefault("explanation", "analysis could not be carried out")
        report.write_evidence(res, a.tier, time.time() - t0, ctx.info, 0, [],
                              ["internal error"])
        rc = 2
    sys.exit(rc)


if __name__ == "__main__":
    main()
