"""Driver: ./check <Cxx> [--tier quick|thorough]

Re-extracts facts from the current working tree of the repo (ACQ_REPO, default
/repo), runs the property's rules, prints KNOWN-FINDING / VIOLATION lines and
writes evidence/<Cxx>.json.  Exit 0 held, 1 violation, 2 analysis broken."""
import argparse
import importlib
import os
import sys
import time
import traceback

sys.path.insert(0, os.path.dirname(os.path.dirname(os.path.abspath(__file__))))

from acq import build, ir, report  # noqa: E402


class Context:
    def __init__(self, tier, root=None, default_config="default"):
        self.tier = tier
        self.root = root
        self.default_config = default_config
        self._progs = {}
        self.info = {}

    def program(self, config=None):
        """Program for a build configuration.  default: the cmake flags plus
        -DNO_UNIT_TESTS; plain: without -mavx2 (selects bin2.plain.c);
        unittests: in-source unit tests compiled in."""
        config = config or self.default_config
        if config not in self._progs:
            if config == "default":
                facts, info = build.extract(root=self.root)
            elif config == "plain":
                facts, info = build.extract(root=self.root, drop_flags=("-mavx2",))
            elif config == "unittests":
                facts, info = build.extract(root=self.root, defs=())
            else:
                raise ValueError(config)
            self._progs[config] = ir.Program(facts, info)
            if config == self.default_config:
                self.info = info
        return self._progs[config]


def run_controls(mod, pid, tier, res):
    """Positive controls: the property's rules must still fire on patches that
    are known to break it (applied to a scratch copy of the current tree)."""
    import json
    import shutil
    import subprocess
    ep = os.path.join(build.VERIF, "mutants", "expect.json")
    if not os.path.exists(ep) or os.environ.get("ACQ_NO_CONTROLS"):
        return
    exp = json.load(open(ep)).get(pid)
    if not exp:
        return
    names = [exp["quick"]] if tier == "quick" else sorted(exp["patches"])
    root = build.repo_root()
    for name in names:
        want = exp["patches"][name]
        w = build.scratch_dir()
        try:
            dst = os.path.join(w, "repo")
            subprocess.run(["rsync", "-a", "--exclude", "_build", "--exclude", ".git", root + "/", dst + "/"], check=True)
            r = subprocess.run([os.path.join(build.VERIF, "tools", "apply_patch.sh"), dst, os.path.join(build.VERIF, name)],
                               stdout=subprocess.PIPE, stderr=subprocess.STDOUT, text=True)
            if r.returncode != 0:
                res.controls.append({"name": name, "ok": True, "skipped": True, "expected_rules": want,
                                     "detail": "patch no longer applies to the current tree (skipped)"})
                continue
            res2 = report.Result(pid)
            fired = []
            detail = ""
            try:
                # the long simulations of the thorough tier run on a control only when the rule it is expected
                # to trigger belongs to them (API-*): everything else is decided by the quick rule set
                ctl_tier = tier if any(str(r_).startswith("API-") for r_ in want) else "quick"
                mod.run(Context(ctl_tier, root=dst), res2)
            except build.AnalysisBroken as e:
                detail = "analysis broken on the patched copy: %s" % e
            fired = sorted({f.rule for f in res2.findings})
            ok = bool(set(want) & set(fired))
            res.controls.append({"name": name, "ok": ok, "expected_rules": want, "fired_rules": fired,
                                 "detail": detail or ("rule fired on the patched copy" if ok else
                                                      "expected one of %s to fire on the patched copy, got %s" % (want, fired))})
        finally:
            shutil.rmtree(w, ignore_errors=True)


def run_configs(mod, pid, tier, res):
    """thorough: the same rules on the other build configurations."""
    confs = {}
    for conf in ("plain", "unittests"):
        res2 = report.Result(pid)
        try:
            # the extra configurations get the quick rule set (the long
            # simulations of the thorough tier do not depend on these flags)
            mod.run(Context("quick", default_config=conf), res2)
        except build.AnalysisBroken as e:
            confs[conf] = {"analysis_broken": str(e)}
            res.controls.append({"name": "configuration:" + conf, "ok": False, "detail": str(e)})
            continue
        have = {f.key for f in res.findings}
        new = 0
        for f in res2.findings:
            if f.key not in have and "unit_test" not in f.where and "unit_test" not in f.message:
                f.message = "[configuration %s] %s" % (conf, f.message)
                res.findings.append(f)
                new += 1
        confs[conf] = {"obligations": len(res2.obligations),
                       "held": sum(1 for o in res2.obligations if o["ok"]), "additional_findings": new}
    res.extra["configurations"] = confs


def run_one(pid, tier, ctx):
    t0 = time.time()
    res = report.Result(pid)
    try:
        mod = importlib.import_module("acq.props." + pid.lower())
        ctx.program()
        mod.run(ctx, res)
        if not os.environ.get("ACQ_REPO"):
            if tier == "thorough":
                run_configs(mod, pid, tier, res)
            run_controls(mod, pid, tier, res)
        rc = report.conclude(res, tier, t0, ctx.info)
    except build.AnalysisBroken as e:
        print("ANALYSIS-BROKEN: %s" % e)
        res.extra.setdefault("explanation", "analysis could not be carried out")
        report.write_evidence(res, tier, time.time() - t0, ctx.info, 0, [],
                              [str(e)])
        rc = 2
    except Exception:
        traceback.print_exc()
        print("ANALYSIS-BROKEN: internal error in the checker")
        res.extra.setdefault("explanation", "analysis could not be carried out")
        report.write_evidence(res, tier, time.time() - t0, ctx.info, 0, [],
                              ["internal error"])
        rc = 2
    return rc


def main():
    ap = argparse.ArgumentParser()
    ap.add_argument("prop", help="Cxx, or a comma separated list (one process, one extraction: used by tools/matrix.py)")
    ap.add_argument("--tier", default=os.environ.get("VERIF_TIER", "quick"),
                    choices=["quick", "thorough"])
    a = ap.parse_args()
    ids = [x.strip().upper() for x in a.prop.split(",") if x.strip()]
    ctx = Context(a.tier)
    if "," not in a.prop:
        sys.exit(run_one(ids[0], a.tier, ctx))
    worst = 0
    for pid in ids:
        print("=== %s" % pid, flush=True)
        rc = run_one(pid, a.tier, ctx)
        print("=== rc %s %d" % (pid, rc), flush=True)
        worst = max(worst, rc)
    sys.exit(worst)


if __name__ == "__main__":
    main()
