"""Abstract-driver harness for the HAL wrappers (camera.c / storage.c):
every finite sequence of wrapper calls, every enumerator a driver slot may
return.  Used by C11 (and C09 for the failure summaries)."""
import re

from . import ir
from .tsim import Interp, State, Explorer, I, TOP, NZ, ZERO, is_ptr, is_int, canon
from .build import AnalysisBroken

G_STARTED = ("G", "started")
G_CLOSED = ("G", "closed")
G_LAST = ("G", "last")
G_PREV = ("G", "prev_state")


def enum_nosentinel(prog, name):
    vals = prog.enum_values(name)
    if not vals:
        raise AnalysisBroken("enum %s vanished" % name)
    return [(n, v) for n, v in vals if not n.endswith("Count")]


class HalModel:
    def __init__(self, prog, kind, ns="", wellbehaved=False):
        self.prog = prog
        self.kind = kind  # 'Camera' | 'Storage'
        self.ns = ns
        # wellbehaved: the driver answers as the shipped devices do, except
        # that a frame call / an append may fail (used by the API-level
        # simulation, where the histories are the client's, not the driver's)
        self.wellbehaved = wellbehaved
        self.G_STARTED = ("G", "started" + ns)
        self.G_CLOSED = ("G", "closed" + ns)
        self.G_LAST = ("G", "last" + ns)
        self.G_STOP_ATT = ("G", "stop_attempted" + ns)
        self.DEV = "obj:device" + ns
        self.DRV = "obj:driver" + ns
        self.P = "@drv%s:" % ns
        rec = prog.record(kind)
        if not rec:
            raise AnalysisBroken("record %s vanished" % kind)
        self.slots = {}
        for f in rec["fields"]:
            if f.get("fnptr"):
                m = re.match(r"enum (\w+)", f["t"])
                self.slots[f["n"]] = m.group(1) if m else None
        self.states = dict(enum_nosentinel(prog, "DeviceState"))
        self.status = dict(enum_nosentinel(prog, "DeviceStatusCode"))
        self.RUNNING = self.states["DeviceState_Running"]
        self.OK = self.status["Device_Ok"]
        self.findings = {}

    # -- driver stubs ------------------------------------------------------
    def stubs(self):
        st = {}
        for slot, ety in self.slots.items():
            st[self.P + slot] = self.make_slot_stub(slot, ety)
        st[self.P + "open"] = self.drv_open
        st[self.P + "describe"] = self.drv_describe
        st[self.P + "close"] = self.drv_close
        st["device_manager_get_driver"] = self.get_driver
        st["aq_logger"] = lambda it, s, v, fr, n: [(TOP, s)]
        st["device_state_as_string"] = lambda it, s, v, fr, n: [(NZ, s)]
        st["device_kind_as_string"] = lambda it, s, v, fr, n: [(NZ, s)]
        st["@external"] = self.external
        return st

    def external(self, it, name, s, vals, fr, n):
        self.externals.add(name)
        return [(TOP, s)]

    externals = set()

    def report(self, it, rule, what, msg):
        key = "%s|%s|%s" % (rule, self.kind, what)
        it.report(rule, key, msg, witness={"call_stack": list(it.stack),
                                            "sequence": list(getattr(it, "cur_witness", []))})

    def dev_of(self, v):
        return v[1] if is_ptr(v) else None

    def make_slot_stub(self, slot, ety):
        def stub(it, s, vals, fr, n):
            caller = it.stack[-2] if len(it.stack) >= 2 else "?"
            dev = vals[0] if vals else TOP
            if is_ptr(dev) and s.get(("freed", dev[1])):
                self.report(it, "HAL-CLOSED-USE", "%s>%s" % (caller, slot),
                            "%s calls the driver's %s() on a device that was already closed" % (caller, slot))
                return
            if s.get(self.G_CLOSED):
                self.report(it, "HAL-CLOSED-USE", "%s>%s" % (caller, slot),
                            "%s calls the driver's %s() after close" % (caller, slot))
                return
            started = s.get(self.G_STARTED, 0)
            if slot in ("stop",) and not started:
                self.report(it, "HAL-PROTOCOL", "%s>stop-without-start" % caller,
                            "%s reaches the driver's stop() although no start() succeeded since the device was opened or last stopped"
                            % caller)
            if slot in ("get_frame", "append") and not started:
                self.report(it, "HAL-PROTOCOL", "%s>%s-without-start" % (caller, slot),
                            "%s reaches the driver's %s() outside the running state (no successful start)" % (caller, slot))
            if ety is None:
                yield (TOP, s.set(self.G_LAST, (slot, None)))
                return
            for name, val in self.answers(slot, ety):
                s2 = s.set(self.G_LAST, (slot, val))
                if slot == "start":
                    ok = (val == self.OK) if ety == "DeviceStatusCode" else (val == self.RUNNING)
                    if ok:
                        s2 = s2.set(self.G_STARTED, 1).set(self.G_STOP_ATT, 0)
                if slot == "append" and ety != "DeviceStatusCode" and val != self.RUNNING:
                    # the driver reports that it left the running state by
                    # itself (the shipped writers stop themselves on a failed
                    # append): there is nothing left to stop
                    s2 = s2.set(self.G_STARTED, 0)
                if slot == "stop":
                    s2 = s2.set(self.G_STOP_ATT, 1)
                    if ety == "DeviceStatusCode" or val != self.RUNNING:
                        s2 = s2.set(self.G_STARTED, 0)
                yield (I(val), s2)
        return stub

    def answers(self, slot, ety):
        allv = enum_nosentinel(self.prog, ety)
        if not self.wellbehaved:
            return allv
        if ety == "DeviceStatusCode":
            keep = {"Device_Ok"} | ({"Device_Err"} if slot == "get_frame" else set())
        else:
            keep = {"set": {"DeviceState_Armed"}, "start": {"DeviceState_Running"},
                    "stop": {"DeviceState_Armed"},
                    "append": {"DeviceState_Running", "DeviceState_Armed"}}.get(slot, {n for n, v in allv})
        return [(n, v) for n, v in allv if n in keep]

    def get_driver(self, it, s, vals, fr, n):
        return [(("ptr", self.DRV, ()), s)]

    def drv_open(self, it, s, vals, fr, n):
        # failure: no device
        if not self.wellbehaved:
            yield (I(self.status["Device_Err"]), s)
        # success, for each initial state a shipped constructor produces
        for init in (("DeviceState_AwaitingConfiguration",) if self.wellbehaved else
                     ("DeviceState_AwaitingConfiguration", "DeviceState_Closed")):
            s2, p = it.new_object(s, self.DEV[4:])
            obj = p[1]
            upd = {(obj, ("state",)): I(self.states[init])}
            for slot in self.slots:
                upd[(obj, (slot,))] = ("fn", self.P + slot)
            s2 = s2.update(upd)
            out = vals[2]
            if is_ptr(out):
                s2 = it.write(s2, (out[1], out[2]), ("ptr", obj, ("device",)))
            s2 = s2.set(self.G_STARTED, 0).set(self.G_CLOSED, 0)
            yield (I(self.OK), s2)

    def drv_describe(self, it, s, vals, fr, n):
        for name, val in self.status.items():
            if self.wellbehaved and name != "Device_Ok":
                continue
            yield (I(val), s.set(("ghost", self.kind, "described"), 1 if name == "Device_Ok" else 0))

    def drv_close(self, it, s, vals, fr, n):
        caller = it.stack[-2] if len(it.stack) >= 2 else "?"
        if s.get(self.G_CLOSED):
            self.report(it, "HAL-CLOSE-ONCE", "%s>second-close" % caller,
                        "%s closes a device that was already closed" % caller)
            return
        dev = vals[1] if len(vals) > 1 else TOP
        s2 = s.set(self.G_CLOSED, 1)
        if is_ptr(dev):
            s2 = it.free_object(s2, dev, "driver close")
        for name, val in self.status.items():
            if self.wellbehaved and name != "Device_Ok":
                continue
            yield (I(val), s2)

    # -- harness -----------------------------------------------------------
    def initial_state(self):
        s = State()
        upd = {(self.DRV, ("open",)): ("fn", self.P + "open"),
               (self.DRV, ("describe",)): ("fn", self.P + "describe"),
               (self.DRV, ("close",)): ("fn", self.P + "close"),
               ("obj:ident", ("kind",)): I(dict(self.prog.enum_values("DeviceKind"))["DeviceKind_" + self.kind]),
               ("obj:ident", ("device_id",)): I(0),
               ("obj:ident", ("<t>",)): 1,
               ("obj:arg", ("<t>",)): 1,
               ("obj:arg2", ("<t>",)): 1,
               ("obj:system", ("<t>",)): 1}
        return s.update(upd)

    def dev_state(self, it, s):
        return it.read_quiet(s, (self.DEV, ("state",)))
