"""R-INDEX: an array indexed by a value that comes from outside (a parameter,
an enumerator received from a caller) is indexed only where the linear
domain proves 0 <= index < length.  Length: the declared length of a local or
static array, or a frozen entry for arrays sized by an enumerator count."""
import re
from . import ir, linear as L
from .build import AnalysisBroken


def rule_index_guards(prog, res, fnames, extra_bounds=None, rule="R-INDEX", invariant=None, follow=True, inline=False):
    extra_bounds = extra_bounds or {}
    n = 0
    fnames = list(fnames)
    followed = set()
    for fname in fnames:
        f = prog.func(fname)
        n_before = n
        res.touched(f)
        sites = {}

        def on_index(f_, node, bk, idx, st, f=f):
            if f_ is not f:
                return
            base = ir.strip(node["b"])
            length = None
            if isinstance(base, dict) and base.get("k") in ("var", "mem"):
                m = re.search(r"\[(\d+)\]", base.get("t", ""))
                if m:
                    length = int(m.group(1))
            key = ir.render(base)
            if length is None:
                length = extra_bounds.get((fname, key))
            if length is None or L.is_const(idx):
                if length is not None and L.is_const(idx):
                    ok = 0 <= idx.get(L.ONE, 0) < length
                    sites.setdefault((key, length, ir.render(node["i"])), []).append(ok)
                return
            ok = st.entails_le(L.ladd(L.lsub(idx, L.lconst(length)), L.lconst(1))) and st.entails_le(L.lscale(idx, -1))
            sites.setdefault((key, length, ir.render(node["i"])), []).append(ok)
        an = L.Analysis(prog, invariant=invariant)
        an.inline = inline
        an.on_index = on_index
        an.run(f, L.State())
        dyn = {k: v for k, v in sites.items() if not re.fullmatch(r"-?\d+", k[2]) and "_" not in k[2][:0]}
        for (key, length, itext), oks in sorted(sites.items()):
            if re.fullmatch(r"[A-Za-z_]+_[A-Za-z0-9_]+|\d+", itext) and all(oks):
                continue   # a constant / enumerator index inside the array
            n += 1
            inst = "%s: %s[%s] is indexed within its %d elements" % (fname, key, itext, length)
            if all(oks):
                res.oblige(rule, inst, True, "%d abstract state(s)" % len(oks), f.loc())
            else:
                res.fail(rule, inst, "%s|%s|%s" % (rule, fname, key), f.loc(),
                         "%s can index %s (%d elements) with %s without having established 0 <= %s < %d: an out-of-range value reads past the table" % (fname, key, length, itext, itext, length))
        if follow and n == n_before and fname not in followed:
            # no table here: the table may have moved into a helper of the same file
            followed.add(fname)
            for gn in prog.direct_callees(f):
                g = prog.resolve(gn, f) if isinstance(gn, str) else gn
                if g is not None and g.blocks and g.file == f.file and g.name not in fnames:
                    fnames.append(g.name)
                    followed.add(g.name)
    return n
