"""R-INDUCT: an inductive invariant of the ring buffer, proved operation by
operation with the linear-relations abstract interpreter (linear.py).

The lap counters are ordinary integers of the linear domain here, so the
"which lap is a reader in" side of free space - which R-LIN/GRANT takes for
granted - is part of what is proved.

Invariant (for the channel globals and an ARBITRARY registered reader J):

  G     0 <= head <= mapped <= capacity,  0 <= high <= capacity
  H(J)  the hold cursor (CJ, PJ) of reader J is in the writer's lap and not
        ahead of it,                 CJ = cycle      and  PJ <= head
        or one lap behind with the pending write below it,
                                     CJ + 1 = cycle  and  mapped <= PJ <= high
  M(r)  a mapped reader r with slot J and target cursor (TC, TP) = (r.cycle, r.pos):
          same-lap region   TC = CJ, PJ < TP and (TC, TP) is itself a valid position
                            (TC = cycle and TP <= head, or TC + 1 = cycle and TP <= high)
          old-lap remainder TC = CJ + 1 = cycle, TP = 0, PJ < high
        an unregistered reader (id 0) is unmapped; a registered one has 1 <= id <= n.

H(J) says exactly that the bytes J has not consumed ([PJ, head), or [PJ, high)
and [0, head)) are disjoint from the pending write [head, mapped): "the writer
is never given memory a reader has not consumed" (C02) is H(J) after
channel_write_map, "a region handed to a reader is committed, unconsumed data"
(C01/C02) is M(r) after channel_read_map.

Obligations.  Every operation is analysed from every entry state that
satisfies the invariant (one abstract entry state per disjunct: trace
partitioning), with J symbolic; inside channel_write_map the state after the
condition-variable wait is any state satisfying the invariant again.
  INV    every return state entails G, H(J) - and M(r), H(slot of r) for the
         reader operations -
  FRAME  and changes only what the operation owns:
           channel_accept_writes  nothing but the accept flag
           channel_abort_write    nothing but mapped
           channel_write_unmap    nothing but head
           channel_read_map / channel_read_unmap
                                  nothing of the writer's cursors, and no hold
                                  cursor other than the calling reader's slot
                                  (a second symbolic reader K != slot)
           channel_write_map      not the capacity, the accept flag or the
                                  number of readers
reader_min is replaced by its specification (index of a lexicographically
smallest hold cursor), which R-LIN/ARGMIN proves of its body; the
wrap-everybody loop is summarised from its own back-edge state (the value
stored to element i, for all i below the reader count, counted-loop shape
checked).  Soundness: Fourier-Motzkin over the rationals, strict comparisons
tightened by one; a state the domain cannot decide is reported, never passed.
"""
from . import ir, linear as L, paths
from .build import AnalysisBroken

RULE = "R-INDUCT"
ALIAS = {"channel": "self", "channel_reader": "reader"}


from .report import memoised as _memoised


def _lt(a, b):
    return ("le", L.ladd(L.lsub(a, b), L.lconst(1)))


def _le(a, b):
    return ("le", L.lsub(a, b))


def _eq(a, b):
    return ("eq", L.lsub(a, b))


def _with(st, cons):
    s = st.copy()
    for c in cons:
        s.cons.append(c)
    return s if s.feasible() else None


def _entails(st, conj):
    return all((st.entails_le(l) if op == "le" else st.entails_eq(l)) for op, l in conj)


def _some(st, *conjs):
    return any(_entails(st, c) for c in conjs)


class Ghost:
    """symbol bookkeeping for one analysis"""

    def __init__(self, an):
        self.an = an
        self.n = 0

    def sym(self, base):
        self.n += 1
        return L.lvar("%s'%d" % (base, self.n))


G_KEYS = ("self->capacity", "self->head", "self->high", "self->mapped", "self->cycle", "self->holds.n",
          "self->is_accepting_writes")


def seed_globals(gh, st, keep=None):
    """fresh symbols for the channel globals + G"""
    keep = keep or {}
    v = {}
    for k in G_KEYS:
        v[k] = keep[k] if k in keep else gh.sym(k.split("->")[1])
        st.cells[k] = v[k]
        if k not in keep:
            st.cons.append(("le", L.lscale(v[k], -1)))   # unsigned
    cap, head, high, mapped = v["self->capacity"], v["self->head"], v["self->high"], v["self->mapped"]
    st.cons += [_le(head, mapped), _le(mapped, cap), _le(high, cap), _le(v["self->holds.n"], L.lconst(8))]
    return v


def hold_keys(idx):
    t = L.lshow(idx)
    return "self->holds.pos[%s]" % t, "self->holds.cycles[%s]" % t


def seed_hold(gh, an, st, idx, name):
    """cells of the hold cursor at symbolic index idx; returns (P, C)"""
    kp, kc = hold_keys(idx)
    P, C = gh.sym("P" + name), gh.sym("C" + name)
    st.cells[kp], st.cells[kc] = P, C
    an.note_index(st, kp, idx)
    an.note_index(st, kc, idx)
    st.cons += [("le", L.lscale(P, -1)), ("le", L.lscale(C, -1))]
    return P, C


def H_cases(v, P, C):
    """the two disjuncts of H as constraint lists"""
    head, high, mapped, cyc = v["self->head"], v["self->high"], v["self->mapped"], v["self->cycle"]
    return [[_eq(C, cyc), _le(P, head)],
            [_eq(L.ladd(C, L.lconst(1)), cyc), _le(mapped, P), _le(P, high)]]


def M_cases(v, P, C, TP, TC):
    head, high, cyc = v["self->head"], v["self->high"], v["self->cycle"]
    one = L.lconst(1)
    return [[_eq(TC, C), _lt(P, TP), _eq(TC, cyc), _le(TP, head)],
            [_eq(TC, C), _lt(P, TP), _eq(L.ladd(TC, one), cyc), _le(TP, high)],
            [_eq(TC, L.ladd(C, one)), _eq(TC, cyc), ("eq", TP), _lt(P, high)]]


def cur_globals(an, st):
    return {k: st.cells.get(k) for k in G_KEYS}


def check_G(st, v):
    if any(v[k] is None for k in ("self->head", "self->mapped", "self->capacity", "self->high")):
        return "a writer cursor is no longer tracked"
    head, mapped, cap, high = v["self->head"], v["self->mapped"], v["self->capacity"], v["self->high"]
    if not _entails(st, [("le", L.lscale(head, -1)), _le(head, mapped), _le(mapped, cap), ("le", L.lscale(high, -1)), _le(high, cap)]):
        return "0 <= head <= mapped <= capacity, 0 <= high <= capacity is not re-established (head=%s mapped=%s high=%s)" % (
            L.lshow(head), L.lshow(mapped), L.lshow(high))
    return None


def check_H(st, v, idx, who):
    kp, kc = hold_keys(idx)
    P, C = st.cells.get(kp), st.cells.get(kc)
    if P is None or C is None:
        return "the hold cursor of %s may have been overwritten (not tracked any more)" % who
    if not _some(st, *H_cases(v, P, C)):
        return ("the hold cursor of %s, (lap %s, position %s), is neither in the writer's lap at or below head "
                "nor one lap behind with the pending write [head, mapped) below it (lap %s, head %s, mapped %s, high %s)"
                % (who, L.lshow(C), L.lshow(P), L.lshow(v["self->cycle"]), L.lshow(v["self->head"]),
                   L.lshow(v["self->mapped"]), L.lshow(v["self->high"])))
    return None


def _clean(msg):
    import re
    return re.sub(r"'\d+", "", re.sub(r"#\d+", "", msg))


class Induct:
    def __init__(self, prog, res):
        self.prog = prog
        self.res = res
        ev = dict(prog.enum_values("ChannelState") or [])
        self.MAPPED = ev.get("ChannelState_Mapped", 1)
        self.UNMAPPED = ev.get("ChannelState_Unmapped", 0)
        self.with_mapped = True  # writer operations also carry a mapped reader on slot J (M is preserved)
        self.loop_summary = {}   # (fn, head) -> {array prefix: value form}
        self.problems = {}       # (op, tag) -> set of messages
        self.states = {}         # op -> (entry states, return states)

    # -- engine setup -------------------------------------------------------
    def analysis(self, gh_holder):
        an = L.Analysis(self.prog, max_states=20000)
        an.param_alias = ALIAS
        an.models["reader_min"] = lambda an_, f, e, st: self.model_reader_min(an_, f, e, st, gh_holder)
        an.on_backedge = self.on_backedge
        an.on_loop_exit = self.on_loop_exit
        an.on_loop_entry = lambda f, h, s: self.on_loop_entry(an, f, h, s, gh_holder)
        return an

    def problem(self, op, tag, msg):
        self.problems.setdefault((op, tag), set()).add(_clean(msg))

    # -- reader_min by its specification ---------------------------------------
    def model_reader_min(self, an, f, e, st, gh_holder):
        gh = gh_holder["gh"]
        J = gh_holder.get("J")
        v = cur_globals(an, st)
        n = v["self->holds.n"]
        out = []
        if J is None or n is None:
            return [(an.fresh(st, "call:reader_min", True), st)]
        kp, kc = hold_keys(J)
        PJ, CJ = st.cells.get(kp), st.cells.get(kc)
        if PJ is None or CJ is None:
            return [(an.fresh(st, "call:reader_min", True), st)]
        # (i) the ghost reader is the minimum
        out.append((J, st.copy()))
        # (ii) another reader A is: A != J, H(A), (CA, PA) <=lex (CJ, PJ)
        for side in (-1, 1):
            s0 = st.copy()
            A = gh.sym("A")
            s0.cons += [("le", L.lscale(A, -1)), _lt(A, n)]
            s0.cons.append(_lt(A, J) if side < 0 else _lt(J, A))
            if not s0.feasible():
                continue
            PA, CA = seed_hold(gh, an, s0, A, "a")
            for hc in H_cases(v, PA, CA):
                for lex in ([_lt(CA, CJ)], [_eq(CA, CJ), _le(PA, PJ)]):
                    s1 = _with(s0, hc + lex)
                    if s1 is not None:
                        out.append((A, s1))
        return out

    # -- loops ----------------------------------------------------------------
    def _is_wait_loop(self, f, head):
        body = dict(paths.natural_loops(f)).get(head, set())
        return any("wait" in (c.get("fn") or "") for b in body for s in f.blocks[b].stmts for c in ir.calls_in(s))

    def on_loop_entry(self, an, f, head, st, gh_holder):
        if f.name != "channel_write_map" or not self._is_wait_loop(f, head):
            return None
        # the lock was released: any state satisfying the invariant again (capacity is immutable)
        gh = gh_holder["gh"]
        keep = {"self->capacity": gh_holder["cap"]}
        v = seed_globals(gh, st, keep)
        J = gh_holder.get("J")
        outs = []
        if J is None:
            return [st]
        st.cons += [_lt(J, v["self->holds.n"])]
        P, C = seed_hold(gh, an, st, J, "j")
        # while the writer slept the reader may have unmapped / mapped again
        TP, TC = gh.sym("rpos"), gh.sym("rcycle")
        st.cons += [("le", L.lscale(TP, -1)), ("le", L.lscale(TC, -1))]
        for hc in H_cases(v, P, C):
            s1 = _with(st, hc)
            if s1 is not None:
                outs += self.reader_variants(s1, v, P, C, TP, TC)
        return outs

    def on_backedge(self, f, head, st):
        if f.name != "channel_write_map" or self._is_wait_loop(f, head):
            return
        # the wrap-everybody loop: what one iteration stores to element i
        summ = {}
        idx = st.tags.get("idx", {})
        for k, val in st.cells.items():
            if k.startswith("self->holds.pos[") or k.startswith("self->holds.cycles["):
                pre = k.split("[")[0]
                form = idx.get(k)
                if form is None:
                    continue
                syms = [x for x in form if x != L.ONE]
                # the element index is the loop counter's entry value (a single symbol of a local)
                if len(syms) == 1 and form[syms[0]] == 1 and form.get(L.ONE, 0) == 0 and str(syms[0]).startswith("channel_write_map:"):
                    # the stored value, expressed through cells the loop does not write: a constant,
                    # or the current value of a channel global (+ constant)
                    if L.is_const(val):
                        summ[pre] = ("const", val)
                        continue
                    for gk in G_KEYS:
                        gv = st.cells.get(gk)
                        if gv is not None and L.is_const(L.lsub(val, gv)):
                            summ[pre] = ("cell", gk, L.lsub(val, gv))
                            break
        if summ:
            self.loop_summary[(f.name, head)] = summ

    def on_loop_exit(self, f, head, st):
        if f.name != "channel_write_map" or self._is_wait_loop(f, head):
            return
        summ = self.loop_summary.get((f.name, head))
        J = self._J
        if not summ or J is None:
            return
        kp, kc = hold_keys(J)
        for pre, key in (("self->holds.pos", kp), ("self->holds.cycles", kc)):
            if pre in summ:
                # the stored value is loop-invariant: it reads cells the loop does not write
                sm = summ[pre]
                if sm[0] == "const":
                    st.cells[key] = sm[1]
                elif st.cells.get(sm[1]) is not None:
                    st.cells[key] = L.ladd(st.cells[sm[1]], sm[2])
                else:
                    continue
                self._an.note_index(st, key, J)

    # -- operations -----------------------------------------------------------
    def entry_states(self, op, with_reader, with_ghost=True):
        """list of (state, info) satisfying the invariant"""
        f = self.prog.func(op)
        out = []
        gh_holder = {}
        an = self.analysis(gh_holder)
        gh = Ghost(an)
        gh_holder["gh"] = gh
        st = L.State()
        v = seed_globals(gh, st)
        gh_holder["cap"] = v["self->capacity"]
        n = v["self->holds.n"]
        # scalar parameters are unsigned
        for p in f.params:
            if not p.get("pd") and not p.get("r"):
                s_ = gh.sym(p["n"])
                st.cells["%s:%s" % (f.name, p["n"])] = s_
                st.cons.append(("le", L.lscale(s_, -1)))
        if not with_reader:
            if not with_ghost:
                s0 = _with(st, [("eq", n)])
                return an, gh_holder, ([(s0, {"v": v, "J": None})] if s0 else [])
            J = gh.sym("J")
            st.cons += [("le", L.lscale(J, -1)), _lt(J, n)]
            gh_holder["J"] = J
            P, C = seed_hold(gh, an, st, J, "j")
            # the reader object that owns slot J: unmapped, or mapped with a target cursor (TC, TP)
            TP, TC = gh.sym("rpos"), gh.sym("rcycle")
            st.cons += [("le", L.lscale(TP, -1)), ("le", L.lscale(TC, -1))]
            for hc in H_cases(v, P, C):
                s1 = _with(st, hc)
                if s1 is None:
                    continue
                for s2 in self.reader_variants(s1, v, P, C, TP, TC):
                    out.append((s2, {"v": v, "J": J, "P": P, "C": C}))
            return an, gh_holder, out
        # reader operations: the calling reader r with id RID, state, target cursor
        RID, RST, TP, TC = gh.sym("rid"), gh.sym("rstate"), gh.sym("rpos"), gh.sym("rcycle")
        st.cells["reader->id"], st.cells["reader->state"] = RID, RST
        st.cells["reader->pos"], st.cells["reader->cycle"] = TP, TC
        st.cells["reader->status"] = L.lconst(0)
        st.cons += [("le", L.lscale(x, -1)) for x in (RID, RST, TP, TC)]
        # another registered reader K whose hold must not change
        def with_other(s0, slot):
            res_ = []
            K = gh.sym("K")
            for side in (-1, 1):
                s1 = s0.copy()
                s1.cons += [("le", L.lscale(K, -1)), _lt(K, n)]
                if slot is not None:
                    s1.cons.append(_lt(K, slot) if side < 0 else _lt(slot, K))
                elif side > 0:
                    continue
                if not s1.feasible():
                    continue
                PK, CK = seed_hold(gh, an, s1, K, "k")
                res_.append((s1, K, PK, CK))
            s2 = _with(s0, [])      # and the case without any other reader
            return res_ + ([(s2, None, None, None)] if s2 is not None else [])
        # (a) unregistered reader
        sa = _with(st, [("eq", RID), _eq(RST, L.lconst(self.UNMAPPED))])
        if sa is not None and op == "channel_read_map":
            for s1, K, PK, CK in with_other(sa, None):
                out.append((s1, {"v": v, "J": None, "K": K, "PK": PK, "CK": CK, "reg": True, "RID": RID}))
        # (b) registered reader with slot RID - 1
        sb = _with(st, [_le(L.lconst(1), RID), _le(RID, n)])
        if sb is not None:
            slot = L.lsub(RID, L.lconst(1))
            P, C = seed_hold(gh, an, sb, slot, "j")
            for hc in H_cases(v, P, C):
                s1 = _with(sb, hc)
                if s1 is None:
                    continue
                variants = [(_with(s1, [_eq(RST, L.lconst(self.UNMAPPED))]), "unmapped")]
                for mc in M_cases(v, P, C, TP, TC):
                    variants.append((_with(s1, [_eq(RST, L.lconst(self.MAPPED))] + mc), "mapped"))
                for s2, kind in variants:
                    if s2 is None:
                        continue
                    for s3, K, PK, CK in with_other(s2, slot):
                        out.append((s3, {"v": v, "J": slot, "P": P, "C": C, "K": K, "PK": PK, "CK": CK,
                                         "reg": False, "RID": RID, "kind": kind}))
        return an, gh_holder, out

    def reader_variants(self, s1, v, P, C, TP, TC):
        """M(r) for the reader object that owns slot J is not multiplied into the exploration: the
        state the operation (or the wait) starts from is remembered in ghost cells, and at every
        return  M(pre) => M(post)  is decided after the fact (adding M(pre) to the path condition
        is the same as having assumed it at the start; the writer operations never touch r)."""
        s0 = s1.copy()
        for k in G_KEYS:
            s0.cells["ghost:pre:" + k] = v[k]
        s0.cells["ghost:pre:P"], s0.cells["ghost:pre:C"] = P, C
        return [s0]

    def run_op(self, op, with_reader, with_ghost=True):
        f = self.prog.func(op)
        self.res.touched(f)
        an, gh_holder, entries = self.entry_states(op, with_reader, with_ghost)
        self._an = an
        rets_all = []
        if getattr(self, "_only_case", None) is not None:
            entries = entries[:1]
        for st0, info in entries:
            self._J = info.get("J") if not with_reader else None
            gh_holder["J"] = self._J
            for rv, st in an.run(f, st0.copy()):
                rets_all.append((rv, st, info))
        if an.truncated:
            raise AnalysisBroken("R-INDUCT: analysis of %s truncated" % op)
        self.states[op] = (len(entries), len(rets_all))
        return f, rets_all

    def unchanged(self, st, key, old):
        cur = st.cells.get(key)
        return cur is not None and st.entails_eq(L.lsub(cur, old))

    def frame(self, op, st, info, may_change):
        v0 = info["v"]
        for k in G_KEYS:
            if k in may_change:
                continue
            if not self.unchanged(st, k, v0[k]):
                self.problem(op, "frame", "%s can change %s (it owns only %s)" % (
                    op, k.replace("self->", "channel."), ", ".join(x.replace("self->", "channel.") for x in sorted(may_change)) or "nothing"))

    def writer_op(self, op, may_change):
        f, rets = self.run_op(op, False)
        if not rets:
            raise AnalysisBroken("R-INDUCT: %s has no return state" % op)
        for rv, st, info in rets:
            v = cur_globals(self._an, st)
            self.frame(op, st, info, may_change)
            m = check_G(st, v)
            if m:
                self.problem(op, "inv", "%s: %s" % (op, m))
                continue
            m = check_H(st, v, info["J"], "an arbitrary registered reader")
            if m:
                self.problem(op, "inv", "after %s %s: the writer's pending region [head, mapped) overlaps bytes that reader has not consumed, or the reader is placed ahead of the writer" % (op, m))
                continue
            if self.with_mapped and "ghost:pre:P" in st.cells:
                pre = {k: st.cells.get("ghost:pre:" + k) for k in G_KEYS}
                P0, C0 = st.cells["ghost:pre:P"], st.cells["ghost:pre:C"]
                kp, kc = hold_keys(info["J"])
                P, C = st.cells[kp], st.cells[kc]
                TP, TC = L.lvar("T'pos"), L.lvar("T'cycle")
                base = st.copy()
                base.cons += [("le", L.lscale(TP, -1)), ("le", L.lscale(TC, -1))]
                for mc in M_cases(pre, P0, C0, TP, TC):
                    s2 = _with(base, mc)
                    if s2 is None:
                        continue
                    if not _some(s2, *M_cases(v, P, C, TP, TC)):
                        self.problem(op, "inv",
                                     "%s can run while a reader holds a mapped region and leave that reader's target cursor no longer bounding committed, unconsumed bytes "
                                     "from its hold (hold lap %s, position %s; writer lap %s, head %s, high %s): the region the reader still holds is being rewritten, or its unmap will place the hold wrongly"
                                     % (op, L.lshow(C), L.lshow(P), L.lshow(v["self->cycle"]), L.lshow(v["self->head"]), L.lshow(v["self->high"])))
                        break
        return f

    def write_map(self):
        op = "channel_write_map"
        # first pass collects the summary of the wrap-everybody loop (the loop is reached from the
        # same-lap entry states), second pass uses it
        self._only_case = 0
        self.run_op(op, False)
        self._only_case = None
        # while the writer sleeps other threads may register readers and toggle the accept flag
        own = {"self->head", "self->high", "self->mapped", "self->cycle", "self->holds.n", "self->is_accepting_writes"}
        f = self.writer_op(op, own)
        # without any reader
        f2, rets = self.run_op(op, False, with_ghost=False)
        for rv, st, info in rets:
            v = cur_globals(self._an, st)
            self.frame(op, st, info, own)
            m = check_G(st, v)
            if m:
                self.problem(op, "inv", "%s (no reader registered): %s" % (op, m))
        return f

    def reader_op(self, op):
        f, rets = self.run_op(op, True)
        if not rets:
            raise AnalysisBroken("R-INDUCT: %s has no return state" % op)
        for rv, st, info in rets:
            v = cur_globals(self._an, st)
            self.frame(op, st, info, {"self->holds.n"} if info.get("reg") else set())
            n0 = info["v"]["self->holds.n"]
            ncur = st.cells.get("self->holds.n")
            if info.get("reg"):
                grown = ncur is not None and st.entails_eq(L.lsub(ncur, L.ladd(n0, L.lconst(1))))
                # refused: the table is full - count and id unchanged, and the reader is told (error status)
                rid_ = st.cells.get("reader->id")
                stat_ = st.cells.get("reader->status")
                from .channelrules import hold_slots
                refused = (ncur is None or st.entails_eq(L.lsub(ncur, n0))) and rid_ is not None and st.entails_eq(rid_) and \
                    st.entails_le(L.lsub(L.lconst(hold_slots(self.prog)), n0)) and stat_ is not None and L.is_const(stat_) and stat_.get(L.ONE, 0) != 0
                if not (grown or refused):
                    self.problem(op, "frame", "%s: registering a reader does not grow the reader count by exactly one (nor is it refused, with an error status, because the table is full)" % op)
            # other readers untouched
            if info.get("K") is not None:
                kp, kc = hold_keys(info["K"])
                if not (self.unchanged(st, kp, info["PK"]) and self.unchanged(st, kc, info["CK"])):
                    self.problem(op, "frame", "%s can change the hold cursor of a reader other than the calling one (slot index not provably the caller's)" % op)
            rid = st.cells.get("reader->id")
            if rid is None:
                self.problem(op, "inv", "%s: reader->id is not tracked at the return" % op)
                continue
            if not info.get("reg") and not st.entails_eq(L.lsub(rid, info["RID"])):
                self.problem(op, "frame", "%s changes the id of an already registered reader" % op)
            if st.entails_eq(rid):
                continue    # still unregistered (not reachable today)
            slot = L.lsub(rid, L.lconst(1))
            if not _entails(st, [_le(L.lconst(1), rid), _le(rid, ncur if ncur is not None else n0)]):
                self.problem(op, "inv", "%s: the reader's id is not within 1..number of readers at the return" % op)
            m = check_H(st, v, slot, "the calling reader")
            if m:
                self.problem(op, "inv", "after %s %s: the reader would be handed bytes the writer is writing or has not committed, or skip committed ones" % (op, m))
                continue
            rst = st.cells.get("reader->state")
            kp, kc = hold_keys(slot)
            P, C = st.cells[kp], st.cells[kc]
            TP, TC = st.cells.get("reader->pos"), st.cells.get("reader->cycle")
            if rst is None:
                self.problem(op, "inv", "%s: reader->state is not tracked at the return" % op)
                continue
            if op == "channel_read_unmap" and info.get("kind") == "mapped":
                if not st.entails_eq(L.lsub(rst, L.lconst(self.UNMAPPED))):
                    self.problem(op, "inv", "%s can return with the reader still mapped" % op)
            if st.entails_eq(L.lsub(rst, L.lconst(self.UNMAPPED))):
                continue
            stat = st.cells.get("reader->status")
            if stat is None or not st.entails_eq(stat):
                # the call reported a misuse / overrun through the reader's error status (mapping a reader
                # that is still mapped): the hold was re-synchronised (H holds), the region is void
                continue
            if not st.entails_eq(L.lsub(rst, L.lconst(self.MAPPED))):
                self.problem(op, "inv", "%s: the reader's state at the return is neither mapped nor unmapped" % op)
                continue
            if TP is None or TC is None or not _some(st, *M_cases(v, P, C, TP, TC)):
                self.problem(op, "inv",
                             "%s leaves a mapped reader whose target cursor (lap %s, position %s) does not bound a region of committed, unconsumed bytes that starts at its hold (lap %s, position %s): "
                             "the region handed out is not exactly what the writer committed, or the following unmap moves the hold to a position that is not valid"
                             % (op, L.lshow(TC or {}), L.lshow(TP or {}), L.lshow(C), L.lshow(P)))
        return f

    def report(self, ops):
        for op, what in ops:
            f = self.prog.func(op)
            for tag, title in (("inv", "preserves the cursor invariant"), ("frame", "changes only what it owns")):
                msgs = sorted(self.problems.get((op, tag), ()))
                inst = "%s %s (%s)" % (op, title, what)
                ent, rets = self.states.get(op, (0, 0))
                if msgs:
                    self.res.fail(RULE, inst, "%s|%s|%s" % (RULE, op, tag), f.loc(), "; ".join(msgs[:3]))
                else:
                    self.res.oblige(RULE, inst, True, "%d entry state(s) satisfying the invariant, %d return state(s), each entails it again" % (ent, rets), f.loc())


@_memoised
def rule_induct(prog, res, with_mapped=True):
    """with_mapped: the writer operations are also analysed with a mapped reader on slot J (M(r) is
    preserved by them) - the half of the induction step that the reader operations rely on"""
    ind = Induct(prog, res)
    ind.with_mapped = with_mapped
    ind.writer_op("channel_accept_writes", {"self->is_accepting_writes"})
    ind.writer_op("channel_abort_write", {"self->mapped"})
    ind.writer_op("channel_write_unmap", {"self->head"})
    ind.write_map()
    ind.reader_op("channel_read_map")
    ind.reader_op("channel_read_unmap")
    ind.report([("channel_accept_writes", "accept flag only"), ("channel_abort_write", "mapped only"),
                ("channel_write_unmap", "head only"), ("channel_write_map", "writer cursors; holds only by the wrap-everybody loop"),
                ("channel_read_map", "the calling reader's slot and object"), ("channel_read_unmap", "the calling reader's slot and object")])
    res.extra.setdefault("induct", {})["mapped_reader_in_writer_operations"] = bool(with_mapped)
    res.extra.setdefault("induct", {})["states"] = {k: {"entry": a, "returns": b} for k, (a, b) in ind.states.items()}
    return ind
