"""Findings, obligations, evidence files, known findings, exit codes."""
import json
import os
import tempfile
import time

VERIF = os.path.dirname(os.path.dirname(os.path.abspath(__file__)))


class Finding:
    def __init__(self, rule, key, where, message, witness=None):
        self.rule = rule          # rule name, e.g. L-CV
        self.key = key            # stable key built from symbol names only
        self.where = where        # file:line (function)
        self.message = message
        self.witness = witness or {}

    def as_dict(self):
        return {"rule": self.rule, "key": self.key, "where": self.where,
                "message": self.message, "witness": self.witness}


class Result:
    """Collects what a property check analysed and what it found."""

    def __init__(self, pid):
        self.pid = pid
        self.findings = []
        self.obligations = []   # dicts: rule, instance, ok, detail
        self.functions = set()
        self.notes = []
        self.assumptions = []
        self.samples = []
        self.extra = {}
        self.minimums = {}      # rule -> frozen minimum instance count
        self.deferred_broken = []  # rules that lost their anchors; the other rules still ran
        self.controls = []

    def oblige(self, rule, instance, ok, detail="", where=""):
        self.obligations.append({"rule": rule, "instance": instance,
                                 "ok": bool(ok), "detail": detail,
                                 "where": where})

    def find(self, rule, key, where, message, witness=None):
        self.findings.append(Finding(rule, key, where, message, witness))

    def fail(self, rule, instance, key, where, message, witness=None):
        self.oblige(rule, instance, False, message, where)
        self.find(rule, key, where, message, witness)

    def touched(self, *fns):
        for f in fns:
            if f is not None:
                self.functions.add("%s (%s)" % (f.name, f.file))

    def guard(self, fn, *a, **kw):
        """Run one rule; if it loses its anchors (AnalysisBroken) remember that
        and let the remaining rules run: a violation found by another rule is
        reported, otherwise the check ends as analysis-broken."""
        from .build import AnalysisBroken
        try:
            return fn(*a, **kw)
        except AnalysisBroken as e:
            self.deferred_broken.append(str(e))
            return None

    def require_min(self, rule, n):
        self.minimums[rule] = n

    def count(self, rule):
        return sum(1 for o in self.obligations if o["rule"] == rule)


_MEMO = {}


def memoised(fn):
    """Rule functions  fn(prog, res, ...)  whose verdict depends on the program only: when several property
    modules run in one process (tools/matrix.py) the analysis is carried out once per program and its
    obligations / findings are replayed into each Result."""
    import functools

    @functools.wraps(fn)
    def wrapper(prog, res, *a, **kw):
        from .build import AnalysisBroken
        k = (id(prog), fn.__module__, fn.__name__, repr(a), repr(sorted(kw.items())))
        if k not in _MEMO:
            tmp = Result(res.pid)
            exc = ret = None
            try:
                ret = fn(prog, tmp, *a, **kw)
            except AnalysisBroken as e:
                exc = e
            _MEMO[k] = (tmp, ret, exc, prog)    # prog kept alive: id() stays unique
        tmp, ret, exc, _ = _MEMO[k]
        res.obligations += [dict(o) for o in tmp.obligations]
        res.findings += list(tmp.findings)
        res.functions |= tmp.functions
        res.deferred_broken += list(tmp.deferred_broken)
        if exc is not None:
            raise exc
        return ret
    return wrapper


def load_known():
    p = os.path.join(VERIF, "known_findings.json")
    if not os.path.exists(p):
        return []
    return json.load(open(p)).get("findings", [])


def write_evidence(res, tier, wall, info, violations, known_hit, broken=None):
    if os.environ.get("ACQ_NO_EVIDENCE"):
        return None  # sensitivity runs against scratch copies never touch evidence/
    os.makedirs(os.path.join(VERIF, "evidence"), exist_ok=True)
    ob = res.obligations
    by_rule = {}
    for o in ob:
        r = by_rule.setdefault(o["rule"], {"instances": 0, "held": 0})
        r["instances"] += 1
        r["held"] += 1 if o["ok"] else 0
    samples = res.samples[:]
    for o in ob[:40]:
        samples.append({"rule": o["rule"], "instance": o["instance"],
                        "where": o["where"], "held": o["ok"],
                        "detail": o["detail"][:300]})
    distinct = len({(o["rule"], o["instance"]) for o in ob})
    cov = {
        "explanation": res.extra.get("explanation", ""),
        "obligations": len(ob),
        "discharged": sum(1 for o in ob if o["ok"]),
        "evaluations": max(len(ob), 1),
        "distinct_nontrivial": max(distinct, 0),
        "rule": "one obligation per (rule, instance) found in the current source; "
                "distinct = distinct (rule, instance) pairs; an instance is a call "
                "site, store, function, table row or abstract transition the rule "
                "applies to",
        "rules": by_rule,
        "samples": samples[:60],
        "functions_analysed": sorted(res.functions),
        "translation_units": info.get("tus", []),
        "repo_root": info.get("root"),
        "not_analysed": info.get("not_analysed", []),
        "frozen_minimums": res.minimums,
        "controls": res.controls,
        "findings": [f.as_dict() for f in res.findings],
        "known_findings_matched": known_hit,
        "notes": res.notes,
    }
    for k, v in res.extra.items():
        if k not in cov:
            cov[k] = v
    if broken:
        cov["analysis_broken"] = broken
    ev = {
        "property_id": res.pid,
        "tier": tier,
        "seed": int(os.environ.get("VERIF_SEED", "0") or 0),
        "level": "other",
        "coverage": cov,
        "assumptions": res.assumptions,
        "wall_s": round(wall, 3),
        "violations": violations,
    }
    p = os.path.join(VERIF, "evidence", res.pid + ".json")
    with open(p, "w") as f:
        json.dump(ev, f, indent=1, sort_keys=True)
        f.write("\n")
    return p


def conclude(res, tier, t0, info):
    """Print the report, write evidence, return the exit code."""
    known = [k for k in load_known()
             if k.get("property") == res.pid and k.get("status") == "known"]
    known_keys = {k["key"]: k for k in known}
    new = []
    known_hit = []
    for f in res.findings:
        if f.key in known_keys:
            known_hit.append(f.key)
        else:
            new.append(f)
    # frozen minimum instance counts: a rule matching fewer sites than were
    # confirmed by hand means the analysis lost its anchors
    broken = list(res.deferred_broken)
    for rule, n in res.minimums.items():
        c = res.count(rule)
        if c < n:
            broken.append("rule %s matched %d instance(s), frozen minimum is %d"
                          % (rule, c, n))
    for c in res.controls:
        if not c.get("ok"):
            broken.append("control %s did not behave: %s" % (c.get("name"), c.get("detail")))
    wall = time.time() - t0
    print("== %s (%s): %d obligation(s), %d held, %d function(s) analysed"
          % (res.pid, tier, len(res.obligations),
             sum(1 for o in res.obligations if o["ok"]), len(res.functions)))
    rules = {}
    for o in res.obligations:
        r = rules.setdefault(o["rule"], [0, 0])
        r[0] += 1
        r[1] += 1 if o["ok"] else 0
    for r, (n, h) in sorted(rules.items()):
        print("   rule %-22s instances=%-3d held=%d" % (r, n, h))
    for c in res.controls:
        print("   control %-60s %s%s" % (c.get("name", "?")[-60:], "skipped" if c.get("skipped") else ("ok" if c.get("ok") else "FAILED"),
                                         (" (fired: %s)" % ",".join(c.get("fired_rules", []))) if c.get("fired_rules") else ""))
    for n in res.notes:
        print("   note: " + n)
    os.makedirs(os.path.join(VERIF, "evidence", "replay"), exist_ok=True)
    for k in sorted(set(known_hit)):
        print("KNOWN-FINDING: property=%s %s -- %s"
              % (res.pid, k, known_keys[k].get("what", "")))
    rc = 0
    if broken:
        for b in broken:
            print("ANALYSIS-BROKEN: " + b)
        rc = 2
    if new:
        # a violation explains a dropped instance count; report the violation
        rp = os.path.join(VERIF, "evidence", "replay", res.pid + ".json")
        if os.environ.get("ACQ_NO_EVIDENCE"):
            rp = os.path.join(tempfile.gettempdir(), "acq-replay-%d-%s.json" % (os.getpid(), res.pid))
        with open(rp, "w") as f:
            json.dump({"property": res.pid,
                       "findings": [x.as_dict() for x in new]}, f, indent=1)
        for f_ in new[:12]:
            print("  finding [%s] %s: %s\n      key=%s" %
                  (f_.rule, f_.where, f_.message, f_.key))
        if len(new) > 12:
            print("  ... and %d more finding(s), all in %s" % (len(new) - 12, rp))
        print("VIOLATION property=%s replay=%s" % (res.pid, rp))
        rc = 1
    write_evidence(res, tier, wall, info, len(new), sorted(set(known_hit)),
                   broken or None)
    return rc
