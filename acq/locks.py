"""Must-held lockset dataflow, guarded-by, and condition-variable discipline
(DESIGN.md 3.2)."""
from collections import defaultdict

from . import ir

ACQ = {"lock_acquire": 0, "pthread_mutex_lock": 0}
REL = {"lock_release": 0, "pthread_mutex_unlock": 0}
WAIT = {"condition_variable_wait": (0, 1), "pthread_cond_wait": (0, 1)}
NOTIFY = {"condition_variable_notify_all": 0, "pthread_cond_broadcast": 0,
          "pthread_cond_signal": 0}
LOCK_INIT = {"lock_init"}
FREE = {"memory_free", "free"}
THREAD_CREATE = {"thread_create"}

ALL = "ALL"  # top element of the must-lockset lattice (unreached)
ANCHOR_RECORDS = {"channel", "channel_reader"}


def obj_key(n):
    """(owning record, field path) of the object an expression designates or
    points to; `&self->im.lock` -> ('SimulatedCamera', 'im.lock')."""
    n = ir.strip(n)
    if isinstance(n, dict) and n.get("k") == "addr":
        n = n["e"]
    root, chain = ir.field_chain(n)
    if not chain:
        return None
    # objects embedded by value in a larger record (struct channel inside
    # video_sink_s, the monitor's channel_reader inside the runtime) keep
    # their own identity
    start = 0
    for j, (rec, fld) in enumerate(chain):
        if rec in ANCHOR_RECORDS:
            start = j
    return (chain[start][0], ".".join(f for _, f in chain[start:]))


def points_into(n):
    """If pointer expression n points *into* a field's own storage (address of
    a field, or an array field decayed, possibly plus an offset) return the
    field key, else None."""
    n = ir.strip(n)
    while isinstance(n, dict) and n.get("k") == "bin" and n.get("op") in ("+", "-") and n.get("pd"):
        n = ir.strip(n["l"])
    if not isinstance(n, dict):
        return None
    if n.get("k") == "addr":
        inner = n["e"]
        if inner.get("k") == "idx":
            inner = inner["b"]
        return obj_key(inner) if inner.get("k") == "mem" else None
    if n.get("k") == "mem" and str(n.get("t", "")).endswith("]"):
        return obj_key(n)
    return None


class Access:
    __slots__ = ("key", "mode", "fn", "block", "idx", "stmt", "rhs", "op", "via")

    def __init__(self, key, mode, fn, block, idx, stmt, rhs=None, op=None, via=None):
        self.key, self.mode, self.fn = key, mode, fn
        self.block, self.idx, self.stmt = block, idx, stmt
        self.rhs, self.op, self.via = rhs, op, via

    def loc(self):
        return "%s:%d" % (self.fn.file, self.stmt.get("line", self.fn.line))


class LockAnalysis:
    def __init__(self, prog):
        self.prog = prog
        self._events = {}
        self._ctx = {}
        self._locksets = {}
        self._effects = {}

    # ------------------------------------------------------------------
    # aliases of local pointers into fields
    def aliases(self, fn):
        al = {}
        for b, i, s in fn.all_stmts():
            for lv, op, rhs, whole in ir.writes_of(s):
                if lv.get("k") == "var" and lv.get("pd") and rhs is not None and op == "=":
                    k = points_into(rhs)
                    if k is not None:
                        al[lv["id"]] = k
        return al

    def lvalue_key(self, fn, n, al):
        """Field key designated by lvalue n, or ('param', k) for the pointee of
        parameter k, or None."""
        n = ir.strip(n)
        if not isinstance(n, dict):
            return None
        k = n.get("k")
        if k == "mem":
            root, chain = ir.field_chain(n)
            if (isinstance(root, dict) and root.get("k") == "var" and
                    not root.get("pd") and "p" not in root and
                    not root.get("static")):
                return None  # field of a local object: not shared
            return obj_key(n)
        if k in ("deref", "idx"):
            base = ir.strip(n["e"] if k == "deref" else n["b"])
            while isinstance(base, dict) and base.get("k") == "bin" and base.get("op") in ("+", "-") and base.get("pd"):
                base = ir.strip(base["l"])
            if isinstance(base, dict) and base.get("k") == "var":
                if base["id"] in al:
                    return al[base["id"]]
                if "p" in base:
                    return ("param", base["p"])
            if isinstance(base, dict) and base.get("k") == "mem":
                if k == "idx" and str(base.get("t", "")).endswith("]"):
                    return obj_key(base)
                return None  # load of a pointer field: pointee is elsewhere
            pk = points_into(base) if isinstance(base, dict) else None
            return pk
        return None

    # ------------------------------------------------------------------
    # ordered events of a root statement
    def stmt_events(self, fn, s, al):
        """Events in (approximate) evaluation order: ('acq',L) ('rel',L)
        ('wait',cv,L) ('notify',cv) ('r',key,node) ('w',key,node,op,rhs)
        ('call',name,node)"""
        ev = []

        def visit(n, lhs=False):
            if not isinstance(n, dict):
                return
            k = n.get("k")
            if k == "asg":
                if "r" in n:
                    visit(n["r"])
                # sub-expressions of the lvalue (indices, bases) are reads
                visit_lvalue_parts(n["l"])
                key = self.lvalue_key(fn, n["l"], al)
                if n["op"] != "=":
                    if key is not None:
                        ev.append(("r", key, n))
                if key is not None:
                    ev.append(("w", key, n, n["op"], n.get("r")))
                elif n["l"].get("k") == "deref" or (n["l"].get("k") == "var" and n["l"].get("r") and not n["l"].get("pd")):
                    pass
                # whole-object assignment through a pointer: *self = ...
                if n["l"].get("k") == "deref" and n["l"].get("r") and not n["l"].get("pd"):
                    ev.append(("w", (n["l"]["r"], "*"), n, n["op"], n.get("r")))
                return
            if k == "call":
                name = n.get("fn")
                args = n.get("args", [])
                for a in args:
                    visit(a)
                if "callee" in n:
                    visit(n["callee"])
                if name in ACQ:
                    ev.append(("acq", obj_key(args[ACQ[name]]), n))
                elif name in REL:
                    ev.append(("rel", obj_key(args[REL[name]]), n))
                elif name in WAIT:
                    c, l = WAIT[name]
                    ev.append(("wait", obj_key(args[c]), obj_key(args[l]), n))
                elif name in NOTIFY:
                    ev.append(("notify", obj_key(args[NOTIFY[name]]), n))
                else:
                    ev.append(("call", name, n))
                return
            if k in ("mem", "deref", "idx"):
                visit_lvalue_parts(n)
                key = self.lvalue_key(fn, n, al)
                if key is not None:
                    ev.append(("r", key, n))
                return
            if k == "addr":
                # taking an address is not an access of the object
                visit_lvalue_parts(n["e"])
                return
            if k == "decl":
                if "init" in n:
                    visit(n["init"])
                return
            for _, c in ir.children(n):
                visit(c)

        def visit_lvalue_parts(n):
            n0 = n
            while isinstance(n, dict):
                k = n.get("k")
                if k == "mem":
                    if n.get("arrow"):
                        visit(n["b"])  # pointer value is read
                        return
                    n = n["b"]
                elif k == "idx":
                    visit(n["i"])
                    b = n["b"]
                    if isinstance(b, dict) and b.get("k") == "mem" and str(b.get("t", "")).endswith("]"):
                        n = b
                    else:
                        visit(b)
                        return
                elif k == "deref":
                    visit(n["e"])
                    return
                elif k == "cast":
                    n = n["e"]
                else:
                    if n is not n0:
                        visit(n)
                    return

        visit(s)
        return ev

    def events(self, fn):
        key = (fn.tu, fn.name)
        if key not in self._events:
            al = self.aliases(fn)
            m = {}
            for b in fn.blocks.values():
                m[b.id] = [self.stmt_events(fn, s, al) for s in b.stmts]
            self._events[key] = m
        return self._events[key]

    # ------------------------------------------------------------------
    # interprocedural effect summaries
    def effects(self, fn, depth=6, _stack=None):
        """Set of (key, mode) accessed by fn including callees; param-pointee
        keys are left as ('param',k)."""
        key = (fn.tu, fn.name)
        if key in self._effects:
            return self._effects[key]
        _stack = _stack or set()
        if key in _stack or depth < 0:
            return set()
        _stack = _stack | {key}
        out = set()
        for bid, lst in self.events(fn).items():
            for evs in lst:
                for e in evs:
                    if e[0] in ("r", "w"):
                        out.add((e[1], e[0]))
                    elif e[0] == "call" and e[1]:
                        g = self.prog.resolve(e[1], fn)
                        if g is None:
                            continue
                        sub = self.effects(g, depth - 1, _stack)
                        args = e[2].get("args", [])
                        for (k2, m2) in sub:
                            if k2[0] == "param":
                                if k2[1] < len(args):
                                    t = points_into(args[k2[1]])
                                    if t is None:
                                        a = ir.strip(args[k2[1]])
                                        if isinstance(a, dict) and a.get("k") == "var" and "p" in a:
                                            t = ("param", a["p"])
                                    if t is not None:
                                        out.add((t, m2))
                            else:
                                out.add((k2, m2))
        self._effects[key] = out
        return out

    def lock_summary(self, fn, depth=6, _stack=None):
        """(must_acquire, notifies_may, net) through callees: locks acquired on
        every path; cvs possibly notified."""
        _stack = _stack or set()
        key = (fn.tu, fn.name)
        if key in _stack or depth < 0:
            return set(), set()
        _stack = _stack | {key}
        evm = self.events(fn)
        # must-acquire: forward dataflow of "acquired at least once" sets
        IN = {b: None for b in fn.blocks}
        IN[fn.entry] = frozenset()
        notif = set()
        work = [fn.entry]
        OUT = {}
        while work:
            b = work.pop()
            cur = set(IN[b])
            for evs in evm[b]:
                for e in evs:
                    if e[0] == "acq" and e[1]:
                        cur.add(e[1])
                    elif e[0] == "wait" and e[2]:
                        cur.add(e[2])
                    elif e[0] == "notify" and e[1]:
                        notif.add(e[1])
                    elif e[0] == "call" and e[1]:
                        g = self.prog.resolve(e[1], fn)
                        if g is not None:
                            ma, nt = self.lock_summary(g, depth - 1, _stack)
                            cur |= ma
                            notif |= nt
            cur = frozenset(cur)
            OUT[b] = cur
            for s in fn.blocks[b].succ_ids():
                new = cur if IN[s] is None else (IN[s] & cur)
                if IN[s] is None or new != IN[s]:
                    IN[s] = new
                    work.append(s)
        ma = IN.get(fn.exit)
        return (set(ma) if ma is not None else set()), notif

    # ------------------------------------------------------------------
    # must-held lockset
    def lockset(self, fn, entry=frozenset()):
        """Forward must-held dataflow.  Returns (IN per block, per-stmt list of
        locksets *before each event*, problems)."""
        evm = self.events(fn)
        IN = {b: ALL for b in fn.blocks}
        IN[fn.entry] = frozenset(entry)
        work = [fn.entry]
        while work:
            b = work.pop()
            cur = IN[b]
            cur = self._flow_block(fn, evm[b], cur)[0]
            for s in fn.blocks[b].succ_ids():
                new = cur if IN[s] == ALL else (IN[s] & cur)
                if new != IN[s]:
                    IN[s] = new
                    work.append(s)
        per = {}
        problems = []
        for b in fn.blocks:
            if IN[b] == ALL:
                continue
            out, trace, probs = self._flow_block(fn, evm[b], IN[b], record=True)
            per[b] = trace
            problems += [(b,) + p for p in probs]
        return IN, per, problems

    def lockset_may(self, fn, entry=frozenset()):
        """Forward MAY-held dataflow (union at joins): locks held on at least
        one path.  Used to see a lock leaked on a single exit path."""
        evm = self.events(fn)
        IN = {b: None for b in fn.blocks}
        IN[fn.entry] = frozenset(entry)
        work = [fn.entry]
        while work:
            b = work.pop()
            cur = set(IN[b])
            for evs in evm[b]:
                for e in evs:
                    if e[0] == "acq":
                        cur.add(e[1])
                    elif e[0] == "rel":
                        cur.discard(e[1])
                    elif e[0] == "call" and e[1]:
                        g = self.prog.resolve(e[1], fn)
                        if g is not None:
                            net = self.net_effect(g)
                            cur |= net[0]
                            cur -= net[1]
            cur = frozenset(cur)
            for t in fn.blocks[b].succ_ids():
                new = cur if IN[t] is None else (IN[t] | cur)
                if new != IN[t]:
                    IN[t] = new
                    work.append(t)
        return IN

    def _flow_block(self, fn, stmts_events, cur, record=False):
        trace = []
        probs = []
        cur = set(cur)
        for si, evs in enumerate(stmts_events):
            row = []
            for e in evs:
                row.append(frozenset(cur))
                if e[0] == "acq":
                    if e[1] in cur:
                        probs.append((si, "double-acquire", e[1], e[-1]))
                    cur.add(e[1])
                elif e[0] == "rel":
                    if e[1] not in cur:
                        probs.append((si, "release-not-held", e[1], e[-1]))
                    cur.discard(e[1])
                elif e[0] == "wait":
                    if e[2] not in cur:
                        probs.append((si, "wait-without-lock", e[2], e[-1]))
                elif e[0] == "call" and e[1]:
                    g = self.prog.resolve(e[1], fn)
                    if g is not None:
                        net = self.net_effect(g)
                        cur |= net[0]
                        cur -= net[1]
            trace.append(row)
        if record:
            return frozenset(cur), trace, probs
        return frozenset(cur), None, None

    def net_effect(self, fn, _stack=None):
        """(locks held at every exit that were not at entry, locks released) of
        a callee, computed with an empty entry set; wrappers only."""
        key = ("net", fn.tu, fn.name)
        if key in self._effects:
            return self._effects[key]
        self._effects[key] = (set(), set())  # recursion guard
        has = False
        for lst in self.events(fn).values():
            for evs in lst:
                for e in evs:
                    if e[0] in ("acq", "rel", "call"):
                        has = True
        if not has:
            return self._effects[key]
        IN, per, probs = self.lockset(fn)
        ex = IN.get(fn.exit, ALL)
        gained = set(ex) if ex != ALL else set()
        released = {p[3] for p in probs if p[2] == "release-not-held"}
        self._effects[key] = (gained, released)
        return self._effects[key]

    # contexts for static helpers: lockset held at every call site
    def contexts(self):
        if self._ctx:
            return self._ctx
        prog = self.prog
        ctx = {}
        funcs = list(prog.all_funcs())
        for f in funcs:
            ctx[(f.tu, f.name)] = ALL if f.static else frozenset()
        addr_taken = {n for n, _, _ in prog.address_taken()}
        for f in funcs:
            if f.name in addr_taken or f.short in addr_taken:
                ctx[(f.tu, f.name)] = frozenset()
        changed = True
        rounds = 0
        while changed and rounds < 10:
            changed = False
            rounds += 1
            seen_calls = defaultdict(lambda: ALL)
            for f in funcs:
                c = ctx[(f.tu, f.name)]
                entry = frozenset() if c == ALL else c
                IN, per, _ = self.lockset(f, entry)
                evm = self.events(f)
                for b, rows in per.items():
                    for si, row in enumerate(rows):
                        for ei, held in enumerate(row):
                            e = evm[b][si][ei]
                            if e[0] == "call" and e[1]:
                                g = prog.resolve(e[1], f)
                                if g is not None and g.static:
                                    k = (g.tu, g.name)
                                    seen_calls[k] = held if seen_calls[k] == ALL else (seen_calls[k] & held)
            for k, v in ctx.items():
                if k in seen_calls or v == ALL:
                    nv = seen_calls.get(k, ALL)
                    if nv == ALL:
                        nv = frozenset()  # never called: analyse with nothing held
                    fobj = None
                    if v != nv and not (v != ALL and nv >= v and False):
                        # only static, non-address-taken functions get a context
                        for f in funcs:
                            if (f.tu, f.name) == k:
                                fobj = f
                                break
                        if fobj is not None and fobj.static and fobj.name not in addr_taken and fobj.short not in addr_taken:
                            if ctx[k] != nv:
                                ctx[k] = nv
                                changed = True
        for k in ctx:
            if ctx[k] == ALL:
                ctx[k] = frozenset()
        self._ctx = ctx
        return ctx

    # ------------------------------------------------------------------
    def accesses(self, fn):
        """All field accesses in fn with the lockset held at that point
        (context-sensitive entry set)."""
        ctx = self.contexts()[(fn.tu, fn.name)]
        IN, per, problems = self.lockset(fn, ctx)
        evm = self.events(fn)
        out = []
        for b, rows in per.items():
            for si, row in enumerate(rows):
                for ei, held in enumerate(row):
                    e = evm[b][si][ei]
                    if e[0] in ("r", "w"):
                        a = Access(e[1], e[0], fn, b, si, fn.blocks[b].stmts[si],
                                   rhs=e[4] if e[0] == "w" else None,
                                   op=e[3] if e[0] == "w" else None)
                        out.append((a, held))
                    elif e[0] == "call" and e[1]:
                        g = self.prog.resolve(e[1], fn)
                        if g is None:
                            continue
                        # accesses through param pointees of the callee
                        for (k2, m2) in self.effects(g):
                            if k2[0] == "param":
                                args = e[2].get("args", [])
                                if k2[1] < len(args):
                                    t = points_into(args[k2[1]])
                                    if t is not None:
                                        a = Access(t, m2, fn, b, si,
                                                   fn.blocks[b].stmts[si], via=g.name)
                                        out.append((a, held))
        return out, problems, ctx

    # ------------------------------------------------------------------
    def wait_sites(self):
        """All condition-variable wait sites with their loop and predicate."""
        sites = []
        for f in self.prog.all_funcs():
            evm = self.events(f)
            for b, rows in evm.items():
                for si, evs in enumerate(rows):
                    for e in evs:
                        if e[0] == "wait":
                            sites.append(self._wait_site(f, b, si, e))
        return sites

    def _scc_of(self, fn, bid):
        fwd = fn.reachable_from(bid)
        scc = {x for x in fwd if bid in fn.reachable_from(x)} if bid in {
            s for x in fwd for s in fn.blocks[x].succ_ids()} else {bid}
        if bid not in {s for x in scc for s in fn.blocks[x].succ_ids()}:
            return set()
        return scc

    def _wait_site(self, fn, bid, si, e):
        from . import paths
        scc = paths.innermost_loop(fn, bid) or set()
        site = {"fn": fn, "block": bid, "idx": si, "cv": e[1], "lock": e[2],
                "stmt": fn.blocks[bid].stmts[si], "loop": scc, "conds": [],
                "reads": set()}
        self._loop_pred(fn, scc, site)
        # enclosing loops (a re-check loop nested in the loop that evaluates the full predicate)
        site["outer"] = []
        for h_, body_ in sorted(paths.natural_loops(fn), key=lambda hb: len(hb[1])):
            if bid in body_ and scc and set(body_) > set(scc):
                o_ = {"loop": set(body_), "conds": [], "reads": set()}
                self._loop_pred(fn, set(body_) - set(scc), o_, within=set(body_))
                site["outer"].append(o_)
        return self._wait_site_between(fn, bid, si, site, scc)

    def _loop_pred(self, fn, scc, site, within=None):
        """exit conditions of the loop `within` (default scc) that sit in blocks of scc, and the fields they read"""
        within = within if within is not None else scc
        al = self.aliases(fn)
        for x in sorted(scc):
            if False:
                pass
            blk = fn.blocks[x]
            outs = [s for s in blk.succs if s.get("to") is not None and s["to"] not in within]
            if not outs or len(blk.succs) < 2:
                continue
            c = blk.cond_node()
            if c is None:
                continue
            stay = [s.get("label") for s in blk.succs if s.get("to") in within]
            site["conds"].append({"block": x, "node": c, "stay_on": stay})
            # sub-expressions computed in other blocks (operands of && / || / ?:) are `ref`s
            parts = [c]
            seen_refs = set()
            k_ = 0
            while k_ < len(parts):
                for y in ir.walk(parts[k_]):
                    if isinstance(y, dict) and y.get("k") == "ref" and (y.get("b"), y.get("i")) not in seen_refs:
                        seen_refs.add((y.get("b"), y.get("i")))
                        t_ = fn.resolve_ref(y)
                        if t_ is not None:
                            parts.append(t_)
                k_ += 1
            for ev in [e_ for p_ in parts for e_ in self.stmt_events(fn, p_, al)]:
                if ev[0] == "r":
                    site["reads"].add(ev[1])
                elif ev[0] == "call" and ev[1]:
                    g = self.prog.resolve(ev[1], fn)
                    if g is not None:
                        args = ev[2].get("args", [])
                        for (k2, m2) in self.effects(g):
                            if m2 != "r":
                                continue
                            if k2[0] == "param":
                                if k2[1] < len(args):
                                    t = points_into(args[k2[1]])
                                    if t is not None:
                                        site["reads"].add(t)
                            else:
                                site["reads"].add(k2)
        return site

    def _wait_site_between(self, fn, bid, si, site, scc):
        # statements between the wait and the re-evaluation of the predicate
        extra = []
        rows = self.events(fn)[bid]
        for sj in range(si + 1, len(rows)):
            for ev in rows[sj]:
                if ev[0] in ("w", "call", "acq", "rel", "notify"):
                    extra.append(fn.blocks[bid].stmts[sj])
        cond_blocks = {c["block"] for c in site["conds"]}
        cur = [s for s in fn.blocks[bid].succ_ids() if s in scc]
        seen = set()
        while cur:
            x = cur.pop()
            if x in seen or x in cond_blocks or x == bid:
                continue
            seen.add(x)
            for sj, evs in enumerate(self.events(fn)[x]):
                for ev in evs:
                    if ev[0] in ("w", "call", "acq", "rel", "notify"):
                        extra.append(fn.blocks[x].stmts[sj])
            cur.extend(s for s in fn.blocks[x].succ_ids() if s in scc)
        site["between"] = extra
        return site

    # ------------------------------------------------------------------
    def is_ctor_dtor(self, fn, lock_key):
        """fn initialises the lock (constructor) or frees a pointer field of
        the lock's owning record (destructor)."""
        rec = lock_key[0]
        for lst in self.events(fn).values():
            for evs in lst:
                for e in evs:
                    if e[0] == "call" and e[1] in LOCK_INIT:
                        k = obj_key(e[2]["args"][0])
                        if k == lock_key:
                            return "constructor (calls lock_init)"
                    if e[0] == "call" and e[1] in FREE:
                        a = ir.strip(e[2]["args"][0])
                        if isinstance(a, dict) and a.get("k") == "mem":
                            k = obj_key(a)
                            if k and k[0] == rec:
                                return "destructor (frees %s)" % k[1]
        return None

    def must_follow(self, fn, bid, si, pred, _interproc=True):
        """On every path from just after statement (bid,si) to the exit, does
        an event satisfying pred occur?  pred(event)->bool; calls are
        summarised through must-acquire / may-notify of callees by the caller's
        predicate."""
        evm = self.events(fn)

        def block_has(b, start):
            for sj in range(start, len(evm[b])):
                for ev in evm[b][sj]:
                    if pred(ev, fn):
                        return True
            return False

        if block_has(bid, si + 1):
            return True, None
        # DFS over blocks avoiding those that satisfy pred
        seen = set()
        st = list(fn.blocks[bid].succ_ids())
        while st:
            x = st.pop()
            if x in seen:
                continue
            seen.add(x)
            if block_has(x, 0):
                continue
            if x == fn.exit:
                return False, x
            st.extend(fn.blocks[x].succ_ids())
        return True, None
