"""Exhaustiveness and agreement of tables (DESIGN.md 3.5)."""
from . import ir


def enum_below_sentinel(prog, ename):
    """Enumerators strictly below the ...Count sentinel (all if none)."""
    vals = prog.enum_values(ename)
    if vals is None:
        return None
    sent = [v for n, v in vals if n.endswith("Count")]
    lim = min(sent) if sent else None
    return [(n, v) for n, v in vals if (lim is None or v < lim) and not n.endswith("Count")]


def switches(fn):
    """All switch terminators of fn: dict(block, enum, cases{value:name},
    has_default, default_target)."""
    out = []
    for b in fn.blocks.values():
        if b.term != "switch":
            continue
        cases = {}
        targets = {}
        default = None
        implicit = None
        for s in b.succs:
            if "case" in s and isinstance(s["case"], dict):
                cases[s["case"].get("v")] = s["case"].get("e")
                targets[s["case"].get("v")] = s.get("to")
            elif s.get("default") is True:
                default = s.get("to")
            elif s.get("default") == "implicit":
                implicit = s.get("to")
        c = b.cond_node()
        en = (b.sw or {}).get("en")
        out.append({"block": b.id, "enum": en, "cases": cases,
                    "has_default": (b.sw or {}).get("has_default", False),
                    "default_target": default, "cond": c, "line": b.tline,
                    "targets": targets})
    return out


def array_tables(fn):
    """Local arrays initialised with (designated) initialiser lists, and
    element-wise constant-index assignments  table[K] = v."""
    out = {}
    for b, i, s in fn.all_stmts():
        if s.get("k") == "decl" and isinstance(s.get("init"), dict) and s["init"].get("k") == "init" \
                and "[" in str(s["var"].get("t", "")) and all("i" in e for e in s["init"].get("elts", [])):
            ent = {}
            for e in s["init"].get("elts", []):
                if "i" in e:
                    v = e["v"]
                    if not (isinstance(v, dict) and (v.get("k") == "zero" or ir.is_const(v, 0) and v.get("k") != "str")):
                        ent[e["i"]] = v
            out[s["var"]["n"]] = {"size": s["init"].get("n"), "entries": ent, "line": s.get("line"), "kind": "init"}
        for lv, op, rhs, whole in ir.writes_of(s):
            if lv.get("k") == "idx" and lv["b"].get("k") == "var" and ir.is_const(lv["i"]) and op == "=":
                t = out.setdefault(lv["b"]["n"], {"size": None, "entries": {}, "line": s.get("line"), "kind": "assign"})
                t["entries"][ir.strip(lv["i"])["v"]] = rhs
    return out


def first_calls_from(prog, fn, bid, names, limit=12):
    """Names (from `names`) of the calls reached first from block bid."""
    from . import paths
    seen = set()
    st = [bid]
    out = set()
    while st and len(seen) < limit * 4:
        b = st.pop()
        if b in seen or b not in fn.blocks:
            continue
        seen.add(b)
        hit = False
        for s in fn.blocks[b].stmts:
            for n in paths.call_names(prog, fn, s):
                if n in names:
                    out.add(n)
                    hit = True
        if not hit:
            st.extend(fn.blocks[b].succ_ids())
    return out
