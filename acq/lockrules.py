"""The lock / condition-variable rules of DESIGN.md 3.2 expressed over
LockAnalysis."""
from . import ir
from .locks import LockAnalysis, ALL, THREAD_CREATE, obj_key


def key_str(k):
    return "%s.%s" % (k[0], k[1]) if k else "?"


def covers(store_key, read_key):
    """Does a store to store_key change read_key?  Whole-object and prefix
    stores cover their sub-fields."""
    if store_key[0] != read_key[0]:
        return False
    if store_key[1] == "*":
        return True
    a, b = store_key[1], read_key[1]
    return a == b or b.startswith(a + ".") or a.startswith(b + ".")


def rule_l_pair(la, res, fns, rule="L-PAIR"):
    """Lockset at every exit equals the lockset at entry; no double acquire,
    no release of a lock not held, wait only with the lock held."""
    ctxs = la.contexts()
    for f in fns:
        res.touched(f)
        ctx = ctxs[(f.tu, f.name)]
        IN, per, problems = la.lockset(f, ctx)
        ok = True
        for p in problems:
            b, si, what, lk, node = p
            st = f.blocks[b].stmts[si]
            res.fail(rule, f.name, "%s|%s|%s|%s" % (rule, f.name, what, key_str(lk)),
                     f.loc(st), "%s of %s in %s" % (what, key_str(lk), f.name))
            ok = False
        ex = IN.get(f.exit, ALL)
        if ex != ALL and set(ex) != set(ctx):
            leaked = set(ex) - set(ctx)
            dropped = set(ctx) - set(ex)
            msg = "%s returns with lockset changed: still held %s, released %s" % (
                f.name, sorted(map(key_str, leaked)), sorted(map(key_str, dropped)))
            res.fail(rule, f.name, "%s|%s|exit-lockset" % (rule, f.name), f.loc(), msg)
            ok = False
        may = la.lockset_may(f, ctx).get(f.exit)
        if may is not None and set(may) - set(ctx):
            leaked = set(may) - set(ctx)
            res.fail(rule, f.name, "%s|%s|leak-on-some-path" % (rule, f.name), f.loc(),
                     "%s has an exit path that returns with %s still held (an early return between acquire and release): the next operation on the channel deadlocks"
                     % (f.name, sorted(map(key_str, leaked))))
            ok = False
        if ok:
            n_acq = sum(1 for lst in la.events(f).values() for evs in lst
                        for e in evs if e[0] == "acq")
            res.oblige(rule, f.name, True,
                       "entry lockset %s = exit lockset; %d acquire site(s)"
                       % (sorted(map(key_str, ctx)), n_acq), f.loc())


def rule_l_guarded(la, res, lock_key, fields, exempt_fns=(), rule="L-GUARDED",
                   modes=("r", "w"), restrict_tu=None, extra_exempt=None):
    """Every access (in `modes`) of a protected field happens with lock_key
    held.  Constructors/destructors of the lock's owner are exempt."""
    prog = la.prog
    prot = set(fields)
    n = 0
    extra_exempt = extra_exempt or (lambda f, a: None)
    for f in prog.all_funcs():
        accs, problems, ctx = la.accesses(f)
        rel = [(a, held) for a, held in accs
               if a.key[0] == lock_key[0] and a.mode in modes and
               any(covers(a.key, (lock_key[0], p)) for p in prot)]
        if not rel:
            continue
        res.touched(f)
        why = la.is_ctor_dtor(f, lock_key)
        for a, held in rel:
            n += 1
            inst = "%s:%s %s" % (f.name, a.mode, key_str(a.key))
            if lock_key in held:
                res.oblige(rule, inst, True, "under %s" % key_str(lock_key), a.loc())
                continue
            if why:
                res.oblige(rule, inst, True, "exempt: " + why, a.loc())
                continue
            if f.name in exempt_fns:
                res.oblige(rule, inst, True, "exempt: " + exempt_fns[f.name], a.loc())
                continue
            ex = extra_exempt(f, a)
            if ex:
                res.oblige(rule, inst, True, "exempt: " + ex, a.loc())
                continue
            res.fail(rule, inst,
                     "%s|%s|%s|%s" % (rule, f.name, a.mode, key_str(a.key)),
                     a.loc(),
                     "%s %s %s without holding %s%s" % (
                         f.name, "writes" if a.mode == "w" else "reads",
                         key_str(a.key), key_str(lock_key),
                         (" (through %s)" % a.via) if a.via else ""))
    return n


def followed_by_thread_create(la, f, a):
    def pred(ev, fn):
        return ev[0] == "call" and ev[1] in THREAD_CREATE
    ok, _ = la.must_follow(f, a.block, a.idx, pred)
    return ok


def lock_then_notify(la, f, a, lock_key, cv_key):
    """On every path from the store to the exit: the lock is acquired (here or
    in a callee on all its paths) and afterwards the cv is notified."""
    # step 1: every path passes an acquire of lock_key
    def acq(ev, fn):
        if ev[0] == "acq" and ev[1] == lock_key:
            return True
        if ev[0] == "wait" and ev[2] == lock_key:
            return True
        if ev[0] == "call" and ev[1]:
            g = la.prog.resolve(ev[1], fn)
            if g is not None:
                ma, _ = la.lock_summary(g)
                return lock_key in ma
        return False

    ok, _ = la.must_follow(f, a.block, a.idx, acq)
    if not ok:
        return False, "no acquire of %s on some path after the store" % key_str(lock_key)

    # step 2: on every path, a notify of cv_key occurs at or after the first
    # such acquire.  Walk: state 0 = before acquire, 1 = after.
    evm = la.events(f)

    def notif(ev, fn):
        if ev[0] == "notify" and ev[1] == cv_key:
            return True
        if ev[0] == "call" and ev[1]:
            g = la.prog.resolve(ev[1], fn)
            if g is not None:
                # callee notifies on all paths?  approximated by: notifies
                # somewhere and has a single path shape (checked by must-flow
                # inside the callee from its entry)
                return callee_must_notify(la, g, cv_key)
        return False

    def callee_acq_then_notify(ev, fn):
        # a callee that acquires the lock and notifies (e.g. execute_trigger)
        return False

    start = (a.block, a.idx + 1, 0)
    seen = set()
    st = [start]
    while st:
        b, i, phase = st.pop()
        if (b, i, phase) in seen:
            continue
        seen.add((b, i, phase))
        rows = evm[b]
        done = False
        for sj in range(i, len(rows)):
            for ev in rows[sj]:
                if phase == 0 and acq(ev, f):
                    phase = 1
                    # a callee that acquires may also notify inside; then the
                    # notify happened under/after the lock
                    if ev[0] == "call" and notif(ev, f):
                        done = True
                    continue
                if phase == 1 and notif(ev, f):
                    done = True
            if done:
                break
        if done:
            continue
        if b == f.exit:
            return False, "a path reaches the exit of %s without notifying %s after acquiring %s" % (
                f.name, key_str(cv_key), key_str(lock_key))
        for s in f.blocks[b].succ_ids():
            st.append((s, 0, phase))
    return True, ""


def callee_must_notify(la, g, cv_key):
    def pred(ev, fn):
        if ev[0] == "notify" and ev[1] == cv_key:
            return True
        if ev[0] == "call" and ev[1]:
            h = la.prog.resolve(ev[1], fn)
            if h is not None and h is not g:
                return callee_must_notify(la, h, cv_key)
        return False
    evm = la.events(g)
    # from entry: treat as "after statement -1 of the entry block"
    ok, _ = la.must_follow(g, g.entry, -1, pred)
    return ok


def simple_cond(c):
    """(field key, negated) for a condition of the shape  x.f  /  !x.f ,
    else (None, False)."""
    c = ir.strip(c)
    neg = False
    while isinstance(c, dict) and c.get("k") == "un" and c.get("op") == "!":
        neg = not neg
        c = ir.strip(c["e"])
    if isinstance(c, dict) and c.get("k") == "mem":
        return obj_key(c), neg
    return None, False


def may_falsify(cond_node, stay_on, a):
    """Polarity: can the store `a` make the waiter's predicate conjunct false
    (i.e. is a wake-up needed)?  Only the simplest shapes are decided; anything
    else may falsify."""
    c = ir.strip(cond_node)
    neg = False
    while isinstance(c, dict) and c.get("k") == "un" and c.get("op") == "!":
        neg = not neg
        c = ir.strip(c["e"])
    if not (isinstance(c, dict) and c.get("k") == "mem"):
        return True
    if obj_key(c) != a.key or a.op != "=" or a.rhs is None:
        return True
    rhs = ir.strip(a.rhs)
    if not ir.is_const(rhs):
        return True
    truthy = rhs["v"] != 0
    # waiter keeps waiting while (cond is true) when the 'true' edge stays
    waits_while_true = ("true" in stay_on) != neg
    # storing a value that keeps the conjunct in its waiting polarity cannot
    # create the need for a wake-up
    return truthy != waits_while_true


def rule_l_cv(la, res, site, rule="L-CV", exempt=None):
    """Lost-wake-up freedom for one wait site.  exempt(g, access) -> reason or None."""
    f = site["fn"]
    L, cv = site["lock"], site["cv"]
    res.touched(f)
    n = 0
    for g in la.prog.all_funcs():
        accs, _, _ = la.accesses(g)
        stores = [(a, held) for a, held in accs if a.mode == "w" and
                  any(covers(a.key, r) for r in site["reads"])]
        if not stores:
            continue
        res.touched(g)
        why = la.is_ctor_dtor(g, L)
        for a, held in stores:
            n += 1
            inst = "%s@%s: store %s in %s" % (key_str(cv), f.name, key_str(a.key), g.name)
            if L in held:
                res.oblige(rule, inst, True, "store under " + key_str(L), a.loc())
                continue
            if why:
                res.oblige(rule, inst, True, "exempt: " + why, a.loc())
                continue
            why2 = exempt(g, a) if exempt else None
            if why2:
                res.oblige(rule, inst, True, "exempt: " + why2, a.loc())
                continue
            # polarity against every conjunct that reads this field
            conj = [c for c in site["conds"]]
            if conj and all(not may_falsify(c["node"], c["stay_on"], a) or
                            not _reads(la, f, c["node"], a.key) for c in conj) and \
                    any(_reads(la, f, c["node"], a.key) for c in conj):
                res.oblige(rule, inst, True,
                           "store cannot falsify the waiter's predicate (polarity)", a.loc())
                continue
            if followed_by_thread_create(la, g, a):
                res.oblige(rule, inst, True,
                           "exempt: store precedes the thread_create of the same function on every path", a.loc())
                continue
            ok, msg = lock_then_notify(la, g, a, L, cv)
            if ok:
                res.oblige(rule, inst, True,
                           "unlocked store, but every path then acquires %s and notifies %s afterwards"
                           % (key_str(L), key_str(cv)), a.loc())
                continue
            res.fail(rule, inst,
                     "%s|%s|%s|store:%s" % (rule, key_str(cv), g.name, key_str(a.key)),
                     a.loc(),
                     "%s stores %s, which the waiter in %s tests before sleeping on %s, "
                     "without holding %s and without a lock hand-off before the notify: "
                     "the wake-up can be lost (%s)" % (
                         g.name, key_str(a.key), f.name, key_str(cv), key_str(L), msg),
                     {"waiter": f.name, "predicate_reads": sorted(map(key_str, site["reads"]))})
    return n


def _reads(la, f, cond_node, key):
    al = la.aliases(f)
    for ev in la.stmt_events(f, cond_node, al):
        if ev[0] == "r" and covers(key, ev[1]):
            return True
        if ev[0] == "call":
            return True  # unknown: assume it reads
    return False


def rule_l_recheck(la, res, site, rule="L-RECHECK"):
    f = site["fn"]
    inst = "%s in %s" % (key_str(site["cv"]), f.name)
    where = f.loc(site["stmt"])
    if not site["loop"]:
        res.fail(rule, inst, "%s|%s|no-loop" % (rule, inst), where,
                 "condition_variable_wait in %s is not inside a loop: the predicate is not re-checked after a wake-up" % f.name)
        return
    own = [r for r in site["reads"] if r[0] == site["lock"][0]]
    if not site["conds"] or not own:
        res.fail(rule, inst, "%s|%s|no-predicate" % (rule, inst), where,
                 "the loop around the wait in %s does not test any field of the waited-on object" % f.name)
        return
    if site["between"]:
        res.fail(rule, inst, "%s|%s|between" % (rule, inst), where,
                 "statements with effects lie between the wait and the re-evaluation of the predicate in %s: %s"
                 % (f.name, "; ".join(ir.render(s) for s in site["between"][:3])))
        return
    res.oblige(rule, inst, True,
               "wait is in a loop whose exit conditions read %s and nothing else runs between wake-up and re-check"
               % sorted(map(key_str, own)), where)


def rule_l_notify(la, res, f, cv_key, fields, rule="L-NOTIFY"):
    """In release operation f: every store to one of `fields` (keys) is
    followed on every path to the exit by a notify of cv_key."""
    res.touched(f)
    accs, _, _ = la.accesses(f)
    n = 0

    def pred(ev, fn):
        if ev[0] == "notify" and ev[1] == cv_key:
            return True
        if ev[0] == "call" and ev[1]:
            g = la.prog.resolve(ev[1], fn)
            if g is not None and g is not f:
                return callee_must_notify(la, g, cv_key)
        return False

    for a, held in accs:
        if a.mode != "w" or not any(covers(a.key, r) for r in fields):
            continue
        n += 1
        inst = "%s: store %s -> notify %s" % (f.name, key_str(a.key), key_str(cv_key))
        ok, ex = la.must_follow(f, a.block, a.idx, pred)
        if ok:
            res.oblige(rule, inst, True, "every path to the exit notifies", a.loc())
        else:
            res.fail(rule, inst, "%s|%s|%s|%s" % (rule, f.name, key_str(a.key), key_str(cv_key)),
                     a.loc(),
                     "%s changes %s but a path reaches its exit without notifying %s"
                     % (f.name, key_str(a.key), key_str(cv_key)))
    return n


# ---------------------------------------------------------------------------
def _flag_cond(c):
    """(local variable name, value the 'true' edge implies: True = non-zero / False = zero) or None"""
    n = ir.strip(c)
    neg = False
    while isinstance(n, dict) and n.get("k") == "un" and n.get("op") == "!":
        neg = not neg
        n = ir.strip(n["e"])
    if isinstance(n, dict) and n.get("k") == "bin" and n.get("op") in ("==", "!=") and \
            (ir.is_const(n["l"], 0) or ir.is_const(n["r"], 0)):
        x = ir.strip(n["r"] if ir.is_const(n["l"], 0) else n["l"])
        if isinstance(x, dict) and x.get("k") == "var" and not x.get("pd"):
            return x["n"], (n["op"] == "!=") != neg
        return None
    if isinstance(n, dict) and n.get("k") == "var" and not n.get("pd"):
        return n["n"], not neg
    return None


def rule_hold_notify(la, res, f, cv_key, fields, mapped_enum="ChannelState_Mapped", rule="L-NOTIFY"):
    """A reader operation that moves a hold cursor (a field the writer's wait
    predicate reads) and then returns WITHOUT mapping the reader must itself
    notify the writer: no channel_read_unmap - the operation that normally
    announces released space - will follow, so a writer sleeping on the old hold
    position is never woken.  From every such store, on every path to the exit:
    a notify of the writer's condition variable, or the reader becomes Mapped
    (its unmap notifies on every path, L-NOTIFY).  Local flags assigned
    constants are followed (if (moved) notify;).  Registration (a callee that
    grows the reader count) is exempt: a new reader can only shrink the free space."""
    res.touched(f)
    accs, _, _ = la.accesses(f)
    evm = la.events(f)
    n = 0

    def registers(g):
        if g is None:
            return False
        return any(k == ("channel", "holds.n") and m == "w" for (k, m) in la.effects(g))

    def local_consts(s, env):
        env = dict(env)
        if s.get("k") == "decl" and isinstance(s.get("var"), dict) and not s["var"].get("pd"):
            if "init" in s and isinstance(ir.strip(s["init"]), dict) and ir.strip(s["init"]).get("k") == "int":
                env[s["var"]["n"]] = ir.strip(s["init"])["v"] != 0
            else:
                env.pop(s["var"]["n"], None)
        for lv, op, rhs, w in ir.writes_of(s):
            if lv.get("k") == "var" and not lv.get("pd"):
                r0 = ir.strip(rhs) if isinstance(rhs, dict) else None
                if op == "=" and isinstance(r0, dict) and r0.get("k") == "int":
                    env[lv["n"]] = r0["v"] != 0
                else:
                    env.pop(lv["n"], None)
        return env

    def discharges(b, j):
        for ev in evm[b][j]:
            if ev[0] == "notify" and ev[1] == cv_key:
                return "notify"
            if ev[0] == "call" and ev[1]:
                g = la.prog.resolve(ev[1], f)
                if g is not None and g is not f and callee_must_notify(la, g, cv_key):
                    return "notify (in %s)" % g.name
        s = f.blocks[b].stmts[j]
        for lv, op, rhs, w in ir.writes_of(s):
            r0 = ir.strip(rhs) if isinstance(rhs, dict) else None
            if lv.get("k") == "mem" and lv.get("f") == "state" and op == "=" and isinstance(r0, dict) and r0.get("e") == mapped_enum:
                return "reader becomes Mapped"
        return None

    # the flags in force at the store: walk the unique-predecessor chain is not needed; constants
    # assigned before the store on the same path are collected by a forward search from the entry
    for a, held in accs:
        if a.mode != "w" or not any(covers(a.key, r) for r in fields):
            continue
        if a.via and registers(la.prog.resolve(a.via, f)):
            res.oblige(rule, "%s: store %s (registration in %s)" % (f.name, key_str(a.key), a.via), True,
                       "exempt: registering a reader can only shrink the space the writer waits for", a.loc())
            continue
        def sets_error(st_):
            for lv, op, rhs, w in ir.writes_of(st_):
                r0 = ir.strip(rhs) if isinstance(rhs, dict) else None
                if lv.get("k") == "mem" and lv.get("f") == "status" and op == "=" and isinstance(r0, dict) and r0.get("k") == "int" and r0.get("v") != 0:
                    return True
            return False
        from . import paths as _paths
        err_only, _ = _paths.all_paths_pass(f, "entry", {(a.block, a.idx)}, sets_error)
        if err_only:
            res.oblige(rule, "%s: store %s (error path)" % (f.name, key_str(a.key)), True,
                       "exempt: reached only after the reader's error status was set (a reader that was mapped twice stays mapped, its unmap notifies; an overrun reader needs a broken cursor invariant, R-LIN OVF)", a.loc())
            continue
        n += 1
        inst = "%s: store %s -> notify %s unless the reader is mapped" % (f.name, key_str(a.key), key_str(cv_key))
        # DFS from just after the store, env = local flags with known truth value
        start_env = {}
        # flags assigned in the same block after the store are picked up by the scan below
        stack = [(a.block, a.idx + 1, tuple(sorted(start_env.items())), (a.block,))]
        seen = set()
        bad = None
        while stack and bad is None:
            b, j0, envt, path = stack.pop()
            if (b, j0, envt) in seen:
                continue
            seen.add((b, j0, envt))
            env = dict(envt)
            blk = f.blocks[b]
            done = False
            for j in range(j0, len(blk.stmts)):
                if discharges(b, j):
                    done = True
                    break
                env = local_consts(blk.stmts[j], env)
            if done:
                continue
            if b == f.exit or not [s for s in blk.succs if s.get("to") is not None]:
                bad = path
                break
            fc = _flag_cond(blk.cond_node()) if (blk.cond_node() is not None and len(blk.succs) == 2) else None
            for su in blk.succs:
                if su.get("to") is None:
                    continue
                env2 = env
                if fc and su.get("label") in ("true", "false"):
                    if fc[0] in env:
                        truth = env[fc[0]] == fc[1]
                        if (su["label"] == "true") != truth:
                            continue
                    else:
                        # the branch itself tells the value on each edge (re-tested later: if (!n) ... if (moved && !n))
                        env2 = dict(env)
                        env2[fc[0]] = fc[1] if su["label"] == "true" else (not fc[1])
                stack.append((su["to"], 0, tuple(sorted(env2.items())), path + (su["to"],)))
        if bad is None:
            res.oblige(rule, inst, True, "every path to the exit notifies or maps the reader", a.loc())
        else:
            res.fail(rule, inst, "%s|%s|%s|hold-moved-silently" % (rule, f.name, key_str(a.key)), a.loc(),
                     "%s moves %s and can return without mapping the reader and without notifying %s: no unmap will follow, "
                     "so a writer sleeping on the old hold position is never woken although its request may fit now"
                     % (f.name, key_str(a.key), key_str(cv_key)), {"path_blocks": list(bad)})
    return n


def full_reads(site):
    r = set(site["reads"])
    for o in site.get("outer", []):
        r |= o["reads"]
    return r


def rule_l_recheck_nested(la, res, site, rule="L-RECHECK"):
    """A re-check loop nested inside the loop that evaluates the full predicate
    (do wait while (counter unchanged) inside while (!has_space)): after a wake-up
    the waiter can go back to sleep without re-evaluating the outer predicate.
    That is sound only if every change that can make the outer predicate false
    also changes something the inner loop tests: every store (by another
    function, under the lock) to a field the outer predicate reads and the inner
    one does not must be accompanied, on every path through it, by a store to a
    field the inner predicate reads."""
    f = site["fn"]
    outer = site.get("outer") or []
    if not outer:
        return 0
    inner_r = set(site["reads"])
    outer_r = set()
    for o in outer:
        outer_r |= o["reads"]
    missing = {k for k in outer_r if not any(covers(k, r) or covers(r, k) for r in inner_r)}
    inst = "%s: the re-check loop nested around the wait notices every change of the outer predicate" % f.name
    where = f.loc(site["stmt"])
    if not missing:
        res.oblige(rule, inst, True, "the inner loop reads every field the outer predicate reads", where)
        return 1
    bumps = {k for k in inner_r if not any(covers(k, r) for r in outer_r)}   # e.g. a release counter
    n = 0
    bad = []
    for g in la.prog.all_funcs():
        if g is f:
            continue
        accs, _, _ = la.accesses(g)
        stores = [(a, held) for a, held in accs if a.mode == "w" and any(covers(a.key, m) for m in missing)]
        if not stores or la.is_ctor_dtor(g, site["lock"]):
            continue
        # operations of the waiter's own role (the one writer of a channel: whoever stores head / mapped) cannot
        # run while that writer sleeps in f
        role = {k for (k, m) in la.effects(f) if m == "w" and k in (("channel", "head"), ("channel", "mapped"))}
        if role and any(k in role and m == "w" for (k, m) in la.effects(g)) and \
                all(a.key in role or a.key == ("channel", "high") or a.key == ("channel", "cycle") or str(a.key[1]).startswith("holds") for a, h in stores):
            continue
        # registering a reader can only shrink the free space: it cannot end the writer's wait
        if any(k == ("channel", "holds.n") and m == "w" for (k, m) in la.effects(g)) and \
                not any(k == ("channel", "head") and m == "w" for (k, m) in la.effects(g)):
            direct = [(a, h) for a, h in stores if not a.via]
            own_reg = all(str(a.key[1]).startswith("holds") for a, h in direct)
            if own_reg and g.name != "channel_read_map":
                continue
        stores = [(a, h) for a, h in stores if not (a.via and any(k == ("channel", "holds.n") and m == "w" for (k, m) in la.effects(la.prog.resolve(a.via, g) or g)))]
        bump_pos = [(a.block, a.idx) for a, held in accs if a.mode == "w" and any(covers(a.key, b) for b in bumps)]

        def is_bump(st_, g=g, bump_pos=bump_pos):
            for b_, lst in g.blocks.items():
                pass
            return False
        for a, held in stores:
            n += 1
            from . import paths as _p
            pos_set = set(bump_pos)

            def at_bump(s_, g=g, pos_set=pos_set):
                for (bb, ii) in pos_set:
                    if g.blocks[bb].stmts[ii] is s_:
                        return True
                return False
            before, _ = _p.all_paths_pass(g, "entry", {(a.block, a.idx)}, at_bump)
            after, _ = _p.all_paths_pass(g, (a.block, a.idx), "exit", at_bump)
            if not (before or after):
                bad.append((g, a))
    if bad:
        g, a = bad[0]
        res.fail(rule, inst, "%s|%s|nested|%s" % (rule, f.name, g.name), a.loc(),
                 "the wait in %s sits in an inner re-check loop that tests only %s; %s changes %s - which the outer predicate reads - without changing anything the inner loop tests, "
                 "so the wake-up that announces this change is swallowed and the writer sleeps on although its request may fit (%d such store(s))"
                 % (f.name, sorted(map(key_str, inner_r)), g.name, key_str(a.key), len(bad)))
    else:
        res.oblige(rule, inst, True, "%d store(s) to fields only the outer predicate reads, each accompanied by a store the inner loop tests" % n, where)
    return 1


def rule_refusal_ends_wait(la, res, site, flag=("channel", "is_accepting_writes"), rule="L-REFUSE-WAKES"):
    """A flag whose clearing is announced on the waiter's condition variable ("stop waiting, you will get
    nothing") releases a sleeping waiter only if the waiter tests it after every wake-up and leaves the loop
    when it is clear: some exit condition of the wait loop reads the flag directly, its exit edge is the
    flag-clear edge, and every way from the wait back to the wait passes that test.  (A test before the
    loop serves only the caller that arrives after the refusal; a callee that folds the flag into "no room"
    keeps the waiter asleep.)"""
    f = site["fn"]
    res.touched(f)
    loop = set(site["loop"] or ())
    if not loop:
        # a wait that is not repeated ends with the first wake-up (other rules report the missing loop)
        res.oblige(rule, "%s: clearing %s ends the wait" % (f.name, ".".join(flag)), True, "the wait is not inside a loop", f.loc(site["stmt"]))
        return 1
    good = []

    def atoms(node, stay_true):
        """atoms that must all hold (with the given polarity) for the loop to continue"""
        node = ir.strip(node)
        if isinstance(node, dict) and node.get("k") == "ref":
            t = f.resolve_ref(node)
            if t is not None:
                return atoms(t, stay_true)
        if isinstance(node, dict) and node.get("k") == "paren":
            return atoms(node["e"], stay_true)
        if isinstance(node, dict) and node.get("k") == "un" and node.get("op") == "!":
            return atoms(node["e"], not stay_true)
        if isinstance(node, dict) and node.get("k") == "bin" and node.get("op") == "&&" and stay_true:
            return atoms(node["l"], True) + atoms(node["r"], True)
        if isinstance(node, dict) and node.get("k") == "bin" and node.get("op") == "||" and not stay_true:
            return atoms(node["l"], False) + atoms(node["r"], False)
        if isinstance(node, dict) and node.get("k") == "bin" and node.get("op") in ("!=", "==") and ir.is_const(node.get("r"), 0):
            return atoms(node["l"], stay_true if node["op"] == "!=" else not stay_true)
        return [(node, stay_true)]
    for c in site["conds"]:
        if len(c["stay_on"]) != 1 or c["stay_on"][0] not in ("true", "false"):
            continue
        for node, pol in atoms(c["node"], c["stay_on"][0] == "true"):
            if isinstance(node, dict) and node.get("k") == "mem" and node.get("f") == flag[1] and pol:
                good.append(c["block"])
    inst = "%s: clearing %s ends the wait (tested after every wake-up, exit on clear)" % (f.name, ".".join(flag))
    where = f.loc(site["stmt"])
    ok = False
    if good:
        # from the wait, can the wait be reached again without passing a good test?
        start = site["block"]
        seen = set()
        st = [s for s in f.blocks[start].succ_ids() if s in loop]
        ok = True
        if start in good:
            ok = True
        else:
            while st:
                x = st.pop()
                if x in seen or x in good:
                    continue
                seen.add(x)
                if x == start:
                    ok = False
                    break
                st += [s for s in f.blocks[x].succ_ids() if s in loop]
    # ... and before the first sleep: a refusal that was raised (and announced) before the waiter looked is
    # announced no second time; a waiter that goes to sleep without having tested the flag sleeps for ever
    first_ok = True
    if ok and good:
        from . import paths as _p
        gstm = {id(f.blocks[g_].stmts[f.blocks[g_].cond]) for g_ in good if f.blocks[g_].cond is not None}
        # any other test of the flag in front of the wait whose flag-clear side cannot get to the wait
        # (the outer loop of a nested re-check, an early exit before the loop)
        for bb in f.blocks.values():
            cn = bb.cond_node()
            if cn is None or len(bb.succs) != 2 or bb.cond is None:
                continue
            for su in bb.succs:
                lab = su.get("label")
                if lab not in ("true", "false") or su.get("to") is None:
                    continue
                if not any(isinstance(a_, dict) and a_.get("k") == "mem" and a_.get("f") == flag[1] and pol_ for a_, pol_ in atoms(cn, lab == "true")):
                    continue
                other = [o.get("to") for o in bb.succs if o is not su and o.get("to") is not None]
                seen_ = set()
                st_ = list(other)
                reach_wait = False
                while st_:
                    x_ = st_.pop()
                    if x_ in seen_ or x_ == bb.id:
                        continue
                    seen_.add(x_)
                    if x_ == site["block"]:
                        reach_wait = True
                        break
                    st_ += f.blocks[x_].succ_ids()
                if not reach_wait:
                    gstm.add(id(bb.stmts[bb.cond]))
        first_ok, _w = _p.all_paths_pass(f, "entry", {(site["block"], site["idx"])}, lambda q: id(q) in gstm)
    if ok and first_ok:
        res.oblige(rule, inst, True, "exit condition in block(s) %s, evaluated before the first wait too" % sorted(good), where)
    elif ok and not first_ok:
        res.fail(rule, inst, "%s|%s|first" % (rule, f.name), where,
                 "%s can go to sleep without having tested %s: a refusal raised and announced before the waiter took the lock is not announced again, "
                 "the callee folds it into 'no room', and the waiter sleeps for ever (abort landing between the source's stop test and its next write; "
                 "the filter's next write after the sink failed)" % (f.name, ".".join(flag)))
    else:
        res.fail(rule, inst, "%s|%s" % (rule, f.name), where,
                 "the wait loop of %s does not leave when %s is cleared: %s - a writer that is already asleep when writes are refused wakes up, "
                 "finds no room, and sleeps again for ever (abort, stop and a failing sink all rely on the refusal to release it)"
                 % (f.name, ".".join(flag), "no exit condition of the loop tests the flag itself" if not good else "a path from the wait back to the wait avoids the test"))
    return 1
