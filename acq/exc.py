"""Exception barriers (DESIGN.md 3.6): nothrow summaries as a greatest
fixpoint over the lexical try/throw structure extracted per C++ function."""
from . import ir

# Standard operations that can only throw on allocation failure, which is
# outside every property's fault model.  One line of reason each.
ALLOC_ONLY = {
    "operator new": "allocation",
    "std::basic_string<char>::basic_string": "string construction allocates; (ptr,len)/(ptr) forms do not validate",
    "std::basic_string<char>::assign": "allocates",
    "std::basic_string<char>::operator=": "allocates",
    "std::basic_string<char>::operator+=": "allocates",
    "std::basic_string<char>::append": "allocates",
    "std::basic_string<char>::erase": "iterator form; no range check",
    "std::find": "algorithm over chars",
    "std::filesystem::path::path": "path construction allocates",
    "std::filesystem::path::operator=": "allocates",
    "std::filesystem::operator/": "path concatenation allocates",
    "std::filesystem::path::parent_path": "allocates",
    "std::filesystem::path::generic_string": "allocates",
    "std::runtime_error::runtime_error": "allocates the message (the throw itself is a separate site)",
    "std::regex_constants::operator|": "constexpr flag arithmetic",
}
ALLOC_ONLY_PREFIX = (
    ("std::vector<", "::push_back", "allocates"),
    ("std::vector<", "::emplace_back", "allocates (element constructors are trivial copies here)"),
    ("std::reverse_iterator<", "::operator*", "iterator dereference"),
)


def alloc_only(name):
    if name in ALLOC_ONLY:
        return ALLOC_ONLY[name]
    for pre, suf, why in ALLOC_ONLY_PREFIX:
        if name.startswith(pre) and name.endswith(suf):
            return why
    return None


class ExcAnalysis:
    def __init__(self, prog):
        self.prog = prog
        self.fns = {}
        for f in prog.all_funcs():
            if f.cxx:
                self.fns.setdefault((f.tu, f.name), f)
        self.byname = {}
        for (tu, n), f in self.fns.items():
            self.byname.setdefault(n, []).append((tu, n))
        self.nothrow = {n: True for n in self.fns}   # greatest fixpoint: start optimistic
        self.reasons = {}
        self._solve()

    def site_may_throw(self, f, s):
        """(bool, reason) — can this site raise, given current summaries?"""
        k = s["kind"]
        if k == "throw":
            return True, "throw expression"
        if k == "dyncast_ref":
            return True, "dynamic_cast to a reference"
        if s.get("noexcept"):
            return False, ""
        if s.get("indirect"):
            if s.get("rec_externc"):
                return False, ""   # call through a C record's function pointer
            return True, "indirect call through a C++ function pointer"
        name = s.get("fn") or "?"
        key = (f.tu, name) if (f.tu, name) in self.fns else (self.byname.get(name) or [None])[0]
        if k == "new":
            return False, ""
        if s.get("builtin"):
            return False, ""
        if s.get("externc") and key is None:
            return False, ""        # C function: cannot throw
        if key is not None:
            if self.nothrow.get(key, False):
                return False, ""
            return True, "calls %s, which may throw" % name
        if s.get("externc"):
            return False, ""
        if k == "construct" and s.get("trivial"):
            return False, ""
        if alloc_only(name):
            return False, ""
        if s.get("std"):
            return True, "%s may throw" % name
        return True, "%s is not known to be non-throwing" % name

    def contained(self, f, s):
        """Is the site lexically inside a try with a catch-all handler that
        does not rethrow?"""
        tries = {t["id"]: t for t in f.d.get("tries", [])}
        for tid in s.get("tries", []):
            t = tries.get(tid)
            if not t:
                continue
            for h in t["handlers"]:
                if h.get("all") and not h.get("rethrows"):
                    return True
        return False

    def escapes(self, f):
        out = []
        for s in f.d.get("exc_sites", []):
            may, why = self.site_may_throw(f, s)
            if may and not self.contained(f, s):
                out.append((s, why))
        return out

    def _solve(self):
        changed = True
        while changed:
            changed = False
            for n, f in self.fns.items():
                if not self.nothrow[n]:
                    continue
                esc = self.escapes(f)
                if esc:
                    self.nothrow[n] = False
                    self.reasons[n] = esc
                    changed = True

    def boundary(self):
        """Functions an exception must not leave: C linkage in a C++ unit,
        stored in a C record's slot / passed as a callback, noexcept,
        destructors."""
        out = {}
        slots = ir.slot_table(self.prog)
        stored = {}
        for (rec, field), lst in slots.items():
            for fn, owner in lst:
                stored.setdefault(fn, "%s.%s" % (rec, field))
        for n, f in self.fns.items():
            if f.externc:
                out[n] = "C linkage"
            elif n[1] in stored:
                out[n] = "stored in %s" % stored[n[1]]
            elif f.noexcept and not f.d.get("dtor"):
                out[n] = "declared noexcept"
            elif f.d.get("dtor"):
                out[n] = "destructor (implicitly noexcept)"
        return out


def rule_x_barrier(prog, res, tus=None, rule="X-BARRIER"):
    ea = ExcAnalysis(prog)
    n = 0
    for name, why in sorted(ea.boundary().items()):
        f = ea.fns[name]
        if tus is not None and not any(f.file.endswith(t) for t in tus):
            continue
        n += 1
        res.touched(f)
        key = name
        name = key[1]
        inst = "%s (%s)" % (name, why)
        if ea.nothrow[key]:
            nsites = len(f.d.get("exc_sites", []))
            res.oblige(rule, inst, True,
                       "%d call/throw site(s); every potentially throwing one is inside try{...}catch(...)" % nsites,
                       f.loc())
        else:
            s, reason = ea.reasons[key][0]
            res.fail(rule, inst, "%s|%s|%s" % (rule, name, (s.get("fn") or s["kind"])),
                     "%s:%d" % (f.file, s["line"]),
                     "an exception can leave %s (%s): %s at line %d is not enclosed by a catch(...) barrier"
                     % (name, why, reason, s["line"]),
                     {"escaping_sites": [{"line": x["line"], "what": r} for x, r in ea.reasons[key][:5]]})
    return n, ea
