"""file_write (platform.c) by the linear-relations domain:
COMPLETE  a non-zero return entails cur >= end: success is reported only when
          every byte was handed to the OS;
VARIANT   every iteration that returns to the loop head has advanced the buffer
          cursor by at least one byte or consumed one unit of the retry budget
          (so a persistent zero-progress write cannot spin for ever)."""
from . import ir, paths, linear as L
from .build import AnalysisBroken


def rule_file_write(prog, res, rule="R-WRITEALL"):
    f = prog.func("file_write")
    res.touched(f)
    loops = paths.natural_loops(f)
    ptrs = [p for p in f.params if p.get("pd") and not p.get("r")]
    if len(loops) != 1 or len(ptrs) != 2:
        raise AnalysisBroken("file_write: expected one loop and a (cur, end) pointer pair")
    head, body = loops[0]
    class OsContract(L.Analysis):
        """a negative result of the write call comes with errno set: under a
        negative result the `errno == 0` side of an errno test is not a path"""
        def branch(self, f_, e, st):
            T, F = L.Analysis.branch(self, f_, e, st)
            if any(y.get("k") == "call" and y.get("fn") == "__errno_location" for y in ir.walk(e)):
                def neg(s):
                    return any(isinstance(k, str) and k.startswith("call:") and s.entails_le(L.ladd(L.lvar(k), L.lconst(1)))
                               for op, l in s.cons for k in l)
                c0 = ir.strip(e)
                errno_nonzero_is_true = not (isinstance(c0, dict) and c0.get("k") == "bin" and c0.get("op") == "==")
                if errno_nonzero_is_true:
                    F = [s for s in F if not neg(s)]
                else:
                    T = [s for s in T if not neg(s)]
            return T, F
    an = OsContract(prog)

    def m_pwrite(an_, f_, e, st):
        a = e["args"]
        buf = an_.eval(f_, a[1], st)[0][0]
        off = an_.eval(f_, a[3], st)[0][0]
        r = an_.fresh(st, "call:pwrite", False)
        st.tags["pw"] = {"buf": buf, "off": off, "r": r, "node": e}
        return [(r, st)]
    an.models["pwrite"] = m_pwrite
    # the cells written in the loop body: the buffer cursor is the pointer
    # parameter among them, the retry counter the int local the exit tests
    written = {}
    for b in body:
        for s in f.blocks[b].stmts:
            for lv, op, rhs, w in ir.writes_of(s):
                v = ir.strip(lv)
                if v.get("k") == "var":
                    written[an.cellkey(f, v, L.State())] = v
    cur_k = [k for k, v in written.items() if v.get("pd") and "p" in v]
    cnt_k = [k for k, v in written.items() if not v.get("pd") and "p" not in v and "int" in v.get("t", "") and "size" not in v.get("t", "")]
    c = f.blocks[head].cond_node()
    if len(cur_k) != 1:
        res.fail(rule, "file_write: every retry either writes at least one byte or uses up the retry budget",
                 "%s|file_write|variant" % rule, f.loc(),
                 "file_write's loop does not advance its buffer cursor: after a partial write the same bytes are written again, for ever")
        return
    cur_k = cur_k[0]
    end_p = [p for p in ptrs if "%s:%s" % (f.name, p["n"]) != cur_k][0]
    rec = {"back": []}

    def entry(f_, h, s):
        if f_ is f:
            for k, v in written.items():
                s.cells["__0__" + k] = an.eval(f, v, s)[0][0]
    an.on_loop_entry = entry
    an.on_backedge = lambda f_, h, s: rec["back"].append(s.copy()) if f_ is f else None
    rets = an.run(f, L.State())
    # VARIANT
    bad = False
    for s in rec["back"]:
        # a negative result of the write call comes with errno set (OS
        # contract) and takes the error exit; the fall-through of the errno
        # test under a negative result is not a real path
        c0, c1 = s.cells.get("__0__" + cur_k), s.cells.get(cur_k)
        ok = c0 is not None and c1 is not None and s.entails_le(L.ladd(L.lsub(c0, c1), L.lconst(1)))
        for k in cnt_k:
            r0, r1 = s.cells.get("__0__" + k), s.cells.get(k)
            if r0 is not None and r1 is not None and s.entails_le(L.ladd(L.lsub(r0, r1), L.lconst(1))):
                ok = True
        if not ok:
            bad = True
    inst = "file_write: every retry either writes at least one byte or uses up the retry budget"
    if not rec["back"]:
        raise AnalysisBroken("file_write: loop body not executed by the analysis")
    if bad:
        res.fail(rule, inst, "%s|file_write|variant" % rule, f.loc(),
                 "file_write can go round its loop without advancing the buffer cursor and without counting a retry: a write that keeps making no progress never returns")
    else:
        res.oblige(rule, inst, True, "%d back-edge state(s)" % len(rec["back"]), f.loc())
    # ADVANCE: what the next iteration hands to pwrite is this iteration's
    # buffer position and file offset, each advanced by the bytes written
    bad = None
    seen_pw = False
    for s in rec["back"]:
        pw = s.tags.get("pw")
        if not pw:
            continue
        seen_pw = True
        nb = an.eval(f, pw["node"]["args"][1], s.copy())[0][0]
        no = an.eval(f, pw["node"]["args"][3], s.copy())[0][0]
        if not s.entails_eq(L.lsub(nb, L.ladd(pw["buf"], pw["r"]))):
            bad = "the buffer position handed to the next pwrite is not the previous one plus the bytes written"
        if not s.entails_eq(L.lsub(no, L.ladd(pw["off"], pw["r"]))):
            bad = "the file offset handed to the next pwrite (%s) is not the previous one plus the bytes written: after a short write the rest of the packet lands at the wrong place in the file" % ir.render(pw["node"]["args"][3])
    inst = "file_write: buffer position and file offset both advance by the bytes written"
    if not seen_pw:
        res.fail(rule, inst, "%s|file_write|advance" % rule, f.loc(), "file_write's loop does not call pwrite")
    elif bad:
        res.fail(rule, inst, "%s|file_write|advance" % rule, f.loc(), "file_write: " + bad)
    else:
        res.oblige(rule, inst, True, "", f.loc())
    # COMPLETE
    bad = False
    nz = 0
    for rv, s in rets:
        if rv is None or (L.is_const(rv) and rv.get(L.ONE, 0) == 0):
            continue
        nz += 1
        cur = an.eval(f, written[cur_k], s)[0][0]
        end = an.eval(f, dict(end_p, k="var"), s)[0][0]
        if not s.entails_le(L.lsub(end, cur)):
            bad = True
    inst = "file_write: success is returned only when cur reached end"
    if nz == 0:
        res.fail(rule, inst, "%s|file_write|complete" % rule, f.loc(), "file_write never reports success")
    elif bad:
        res.fail(rule, inst, "%s|file_write|complete" % rule, f.loc(),
                 "file_write can report success although bytes remain unwritten (cur < end): the failure of a write is swallowed and the file is short")
    else:
        res.oblige(rule, inst, True, "%d success return state(s)" % nz, f.loc())
