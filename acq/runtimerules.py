"""Path rules on the runtime (acquire.c, source.c, sink.c, filter.c) shared by
C04, C06, C07, C09."""
from . import ir, paths
from .build import AnalysisBroken
from .locks import obj_key
from .props.c10 import pair_reader

WORKERS = {
    "source": ("video_source_thread", "video_source_start", "video_source_s"),
    "filter": ("video_filter_thread", "video_filter_start", "video_filter_s"),
    "sink": ("video_sink_thread", "video_sink_start", "video_sink_s"),
}


def alias_ap(prog, f, pos, n, depth=0):
    """access path of a pointer argument, looking through a local pointer that has a single
    reaching definition (struct channel_reader* const rd = &self->video[i].monitor.reader)"""
    from . import congr
    n0 = ir.strip(n)
    if isinstance(n0, dict) and n0.get("k") == "var" and "p" not in n0 and n0.get("pd") and depth < 4:
        d = congr.reaching_def(f, pos, n0["id"])
        if d is not None:
            return alias_ap(prog, f, pos, d, depth + 1)
    return ir.ap(n0)


def alias_member_ap(prog, f, pos, n):
    """access path of  p->field  where p is a local alias of  &obj : obj.field"""
    n0 = ir.strip(n)
    if isinstance(n0, dict) and n0.get("k") == "mem" and n0.get("arrow"):
        b = alias_ap(prog, f, pos, n0["b"])
        if b and b.startswith("&"):
            return b[1:] + "." + n0["f"]
    return ir.ap(n0)


def calls(s, name):
    return [c for c in ir.calls_in(s) if c.get("fn") == name]


def has_call(name):
    return lambda s: bool(calls(s, name))


def indirect_call(field):
    def pred(s):
        for c in ir.calls_in(s):
            cal = ir.strip(c.get("callee")) if "callee" in c else None
            if isinstance(cal, dict) and cal.get("k") == "mem" and cal["f"] == field:
                return True
        return False
    return pred


def failure_label(cond):
    """Label of the edge on which  <call> == Device_Ok  is false, for the
    condition forms  !(x == Ok), x != Ok, x == Ok, !(x != Ok), x == Err ..."""
    c = ir.strip(cond)
    neg = False
    while isinstance(c, dict) and c.get("k") == "un" and c.get("op") == "!":
        neg = not neg
        c = ir.strip(c["e"])
    if isinstance(c, dict) and c.get("k") == "bin" and c.get("op") in ("==", "!="):
        consts = [x for x in (ir.strip(c["l"]), ir.strip(c["r"])) if isinstance(x, dict) and x.get("k") == "int"]
        ok_named = any(x.get("e") == "Device_Ok" or x.get("v") == 0 for x in consts)
        success_when_true = (c["op"] == "==") == ok_named
        if neg:
            success_when_true = not success_when_true
        return "false" if success_when_true else "true"
    # bare call: non-zero is success
    return "true" if neg else "false"


def stores_const(field_suffix, value):
    def pred(s):
        for lv, op, rhs, w in ir.writes_of(s):
            if lv.get("k") == "mem" and op == "=" and ir.is_const(rhs, value):
                p = ir.ap(lv) or ""
                if p.endswith(field_suffix):
                    return True
        return False
    return pred


# ---------------------------------------------------------------------------
def rule_pairs(prog, res, fnames, rule="PAIR"):
    n = 0
    for name in fnames:
        f = prog.func(name)
        res.touched(f)
        n += pair_reader(prog, res, f, rule)
    return n


def rule_not_after_stop_signal(prog, res, rule="NOT-AFTER"):
    """video_source_thread commits nothing after it signalled filter/sink to
    stop (their final flush is triggered by that signal)."""
    f = prog.func("video_source_thread")
    res.touched(f)
    n = 0
    for sig in ("sig_stop_sink", "sig_stop_filter"):
        sites = paths.find(f, indirect_call(sig))
        if not sites:
            raise AnalysisBroken("video_source_thread no longer signals %s" % sig)
        for bid, i, s in sites:
            n += 1
            later = paths.reachable_after(f, (bid, i), lambda x: paths.stmt_reaches(
                prog, f, x, {"channel_write_map", "channel_write_unmap"}) or
                any(c.get("fn") in ("channel_write_map", "channel_write_unmap") for c in ir.calls_in(x)))
            inst = "video_source_thread: no commit after %s" % sig
            if not later:
                res.oblige(rule, inst, True, "no channel_write_map/unmap is reachable after the signal", f.loc(s))
            else:
                res.fail(rule, inst, "%s|video_source_thread|%s" % (rule, sig), f.loc(later[0][2]),
                         "video_source_thread can commit a frame after it told the %s to stop: the consumer's final flush may already have run, so the frame never reaches storage"
                         % sig.split("_")[-1])
    return n


def rule_loop_until_empty(prog, res, fname, which, rule="LOOP-UNTIL"):
    """The terminating flush maps inside a loop that continues while the mapped
    slice was non-empty, i.e. exits only on an empty slice."""
    f = prog.func(fname)
    res.touched(f)
    maps = paths.find(f, has_call("channel_read_map"))
    if not maps:
        raise AnalysisBroken("%s no longer maps a reader" % fname)
    # the flushes: every mapping that is not inside the running loop's inner loop (the terminating
    # flush, and a discard on an error path); "first" = the first map in source order
    maps.sort(key=lambda x: x[2].get("line", 0))
    nat = paths.natural_loops(f)
    if which == "last":
        targets = [m for m in maps if sum(1 for h, body in nat if m[0] in body) <= 1] or [maps[-1]]
    else:
        targets = [maps[0]]
    for bid, i, s in targets:
        _loop_until_empty_one(prog, res, f, fname, bid, i, s, rule)


def _loop_until_empty_one(prog, res, f, fname, bid, i, s, rule):
    loop = paths.innermost_loop(f, bid)
    inst = "%s: flush loop (line %s) runs until an empty slice" % (fname, s.get("line"))
    if not loop:
        res.fail(rule, inst, "%s|%s|no-loop" % (rule, fname), f.loc(s),
                 "%s flushes its reader with a single channel_read_map: data committed in a second lap is left behind" % fname)
        return
    # the variable holding the result of the map (slice / nbytes)
    tgt = None
    for lv, op, rhs, w in ir.writes_of(s):
        if lv.get("k") == "var":
            tgt = lv
    derived = {tgt["id"]} if tgt else set()
    for b in loop:
        for ss in f.blocks[b].stmts:
            for lv, op, rhs, w in ir.writes_of(ss):
                if lv.get("k") == "var" and rhs is not None and any(y.get("k") == "var" and y["id"] in derived for y in ir.walk(rhs)):
                    derived.add(lv["id"])
    exits = []
    for b in sorted(loop):
        blk = f.blocks[b]
        if len(blk.succs) >= 2 and any(sc.get("to") is not None and sc["to"] not in loop for sc in blk.succs):
            c = blk.cond_node()
            if c is not None and blk.term in ("do", "while", "for"):
                exits.append((b, c))
    ok = any(any(y.get("k") == "var" and y["id"] in derived for y in ir.walk(c)) for b, c in exits)
    if ok:
        res.oblige(rule, inst, True, "loop exit condition reads the size of the slice mapped in that iteration", f.loc(s))
    else:
        res.fail(rule, inst, "%s|%s|exit" % (rule, fname), f.loc(s),
                 "the flush loop of %s does not terminate on an empty slice (its exit condition does not read the mapped slice)" % fname)


def rule_wiring(prog, res, rule="R-WIRING"):
    """In acquire_init the channels and callbacks handed to the three
    video_*_init calls of one iteration belong to the same video element, and
    every sig_* callback finds its stream with containerof on its argument."""
    f = prog.func("acquire_init")
    res.touched(f)
    roots = {}
    for b, i, s in f.all_stmts():
        for c in ir.calls_in(s):
            if c.get("fn") in ("video_sink_init", "video_filter_init", "video_source_init"):
                rs = set()
                for a in c.get("args", []):
                    a0 = ir.strip(a)
                    if isinstance(a0, dict) and a0.get("k") == "addr":
                        root, chain = ir.field_chain(a0["e"])
                        if isinstance(root, dict) and root.get("k") == "var":
                            rs.add(root["n"])
                roots[c["fn"]] = (rs, s)
    if len(roots) != 3:
        raise AnalysisBroken("acquire_init no longer initialises sink, filter and source")
    allroots = set()
    for k, (rs, s) in roots.items():
        allroots |= rs
    inst = "acquire_init: sink/filter/source of one stream share one video element"
    if len(allroots) == 1:
        res.oblige(rule, inst, True, "all object/channel arguments are rooted at '%s'" % next(iter(allroots)), f.loc())
    else:
        res.fail(rule, inst, "%s|acquire_init|roots" % rule, f.loc(),
                 "the controllers of one stream are wired to objects of different streams (%s): two streams mix" % sorted(allroots))
    # source -> sink.in / filter.in ; filter -> sink.in
    want = {"video_source_init": {"sink.in", "filter.in"}, "video_filter_init": {"sink.in"}}
    for fn, need in want.items():
        c = [c for b, i, s in f.all_stmts() for c in ir.calls_in(s) if c.get("fn") == fn][0]
        got = set()
        for a in c["args"]:
            p = ir.ap(a) or ""
            for nd in need:
                if p.endswith(nd):
                    got.add(nd)
        inst = "%s receives %s" % (fn, sorted(need))
        if got == need:
            res.oblige(rule, inst, True, "", f.loc())
        else:
            res.fail(rule, inst, "%s|%s|channels" % (rule, fn), f.loc(),
                     "%s is not given the channels %s of its own stream" % (fn, sorted(need - got)))
    for cb, field in (("sig_sink_stop_source", "source.is_stopping"), ("sig_source_stop_filter", "filter.is_stopping"),
                      ("sig_source_stop_sink", "sink.is_stopping")):
        g = prog.func(cb)
        res.touched(g)
        ok_cont = any(x.get("k") == "container" and ir.strip(x["e"]).get("k") == "var" and "p" in ir.strip(x["e"])
                      for b, i, s in g.all_stmts() for x in ir.walk(s))
        ok_store = any(stores_const(field, 1)(s) for b, i, s in g.all_stmts())
        inst = "%s sets %s of its own stream" % (cb, field)
        if ok_cont and ok_store:
            res.oblige(rule, inst, True, "containerof(argument) then store of 1", g.loc())
        else:
            res.fail(rule, inst, "%s|%s" % (rule, cb), g.loc(),
                     "%s does not signal %s of the stream its argument belongs to" % (cb, field))


def rule_frame_counter(prog, res, rule="R-FRAME-ID"):
    f = prog.func("video_source_thread")
    res.touched(f)
    fills = [(b.id, i, s, x) for b, i, s in f.all_stmts() for x in ir.walk(s) if x.get("k") == "init" and x.get("r") == "VideoFrame"]
    if not fills:
        raise AnalysisBroken("video_source_thread no longer fills a frame header")
    for bid, i, s, x in fills:
        flds = {e["f"]: e["v"] for e in x.get("elts", []) if "f" in e}
        fid = ir.strip(flds.get("frame_id"))
        inst = "video_source_thread: frame_id is the per-acquisition counter"
        if not (isinstance(fid, dict) and fid.get("k") == "var"):
            res.fail(rule, inst, "%s|counter" % rule, f.loc(s), "frame_id is not taken from a local counter (%s)" % ir.render(fid))
            continue
        incs = [(bb.id, ii, ss) for bb, ii, ss in f.all_stmts() for lv, op, rhs, w in ir.writes_of(ss)
                if lv.get("k") == "var" and lv["id"] == fid["id"] and op in ("++", "+=")]
        inits = [ss for bb, ii, ss in f.all_stmts() for lv, op, rhs, w in ir.writes_of(ss)
                 if lv.get("k") == "var" and lv["id"] == fid["id"] and op == "=" and ir.is_const(rhs, 0)]
        same_block = all(bb == bid for bb, ii, ss in incs)
        if len(incs) == 1 and same_block and inits:
            res.oblige(rule, inst, True, "starts at 0, incremented once, in the block that fills the header", f.loc(s))
        else:
            res.fail(rule, inst, "%s|counter" % rule, f.loc(s),
                     "the frame counter '%s' is not incremented exactly once per committed frame (increments: %d, with the header fill: %s)"
                     % (fid["n"], len(incs), same_block))
        hw = flds.get("hardware_frame_id")
        inst = "video_source_thread: hardware_frame_id copied from the camera's ImageInfo"
        gf = [c for bb, ii, ss in f.all_stmts() for c in calls(ss, "camera_get_frame")]
        info_ap = (ir.ap(gf[0]["args"][3]) or "").lstrip("&") if gf and len(gf[0].get("args", [])) > 3 else None
        if isinstance(hw, dict) and info_ap and (ir.ap(hw) or "") == info_ap + ".hardware_frame_id":
            res.oblige(rule, inst, True, "", f.loc(s))
        else:
            res.fail(rule, inst, "%s|hardware" % rule, f.loc(s),
                     "hardware_frame_id in the header is %s, not the id the camera reported" % ir.render(hw))


# ---------------------------------------------------------------------------
def rule_unmapped_pre(prog, res, rule="R-UNMAPPED-PRE"):
    """Every channel_read_map of the *monitor's* reader happens with the
    reader known to be unmapped."""
    n = 0
    for f in prog.all_funcs():
        for b, i, s in f.all_stmts():
            for c in calls(s, "channel_read_map"):
                rd = alias_ap(prog, f, (b.id, i), c["args"][1]) or ""
                if "monitor" not in rd:
                    continue
                n += 1
                res.touched(f)

                def state_test(cn, lab, blk, rd=rd):
                    c0 = ir.strip(cn)
                    neg = False
                    while isinstance(c0, dict) and c0.get("k") == "un" and c0.get("op") == "!":
                        neg = not neg
                        c0 = ir.strip(c0["e"])
                    if isinstance(c0, dict) and c0.get("k") == "bin" and c0["op"] == "==" and ir.is_const(c0["r"], 0):
                        p = alias_member_ap(prog, f, (blk.id, blk.cond if blk.cond is not None else len(blk.stmts)), c0["l"]) or ""
                        if p.endswith("reader.state") and p.startswith(rd.lstrip("&").rsplit(".reader", 1)[0]):
                            return lab == ("false" if neg else "true")
                    return False
                dom, _ = paths.edge_dominated(f, (b.id, i), state_test)

                def unmaps(ss, rd=rd):
                    return any((ir.ap(cc["args"][1]) or "") == rd or ir.ap(cc["args"][1]) == ir.ap(c["args"][1]) for cc in calls(ss, "channel_read_unmap"))
                pre, _ = paths.all_paths_pass(f, "entry", {(b.id, i)}, unmaps)
                inst = "%s: monitor reader unmapped before channel_read_map" % f.name
                if dom:
                    res.oblige(rule, inst, True, "dominated by reader.state == ChannelState_Unmapped", f.loc(s))
                elif pre:
                    res.oblige(rule, inst, True, "every path first calls channel_read_unmap on that reader", f.loc(s))
                else:
                    res.fail(rule, inst, "%s|%s" % (rule, f.name), f.loc(s),
                             "%s maps the client's monitor reader without knowing it is unmapped: if the client still holds a region the map sets a status that is never reset and every later acquire_map_read fails"
                             % f.name)
    return n


def rule_passthrough(prog, res, rule="R-PASSTHROUGH"):
    pairs = {}
    for name, callee in (("acquire_map_read", "channel_read_map"), ("acquire_unmap_read", "channel_read_unmap")):
        f = prog.func(name)
        res.touched(f)
        cs = [c for b, i, s in f.all_stmts() for c in calls(s, callee)]
        cpos = [(b.id, i) for b, i, s in f.all_stmts() for c in calls(s, callee)]
        if len(cs) != 1:
            raise AnalysisBroken("%s: expected one %s call" % (name, callee))
        # compare shapes, not spellings: local variable / parameter names are
        # replaced by a placeholder
        import re as _re
        vnames = {p["n"] for p in f.params if p.get("n")}
        for b_, i_, s_ in f.all_stmts():
            for y in ir.walk(s_):
                if isinstance(y, dict) and y.get("k") == "var" and y.get("n"):
                    vnames.add(y["n"])
        pat = _re.compile(r"(?<![\w.>])(%s)\b" % "|".join(sorted(map(_re.escape, vnames), key=len, reverse=True))) if vnames else None
        norm = lambda a_: pat.sub("$", a_) if (pat and a_) else a_
        pairs[name] = (norm(alias_ap(prog, f, cpos[0], cs[0]["args"][0])), norm(alias_ap(prog, f, cpos[0], cs[0]["args"][1])))
    a, b = pairs["acquire_map_read"], pairs["acquire_unmap_read"]
    inst = "acquire_map_read / acquire_unmap_read use the same (channel, reader)"
    ok = a == b and a[0] and a[0].endswith("sink.in") and a[1].endswith("monitor.reader") and \
        a[0].rsplit(".sink", 1)[0].lstrip("&") == a[1].rsplit(".monitor", 1)[0].lstrip("&")
    if ok:
        res.oblige(rule, inst, True, "%s, %s" % a, "acquire.c")
    else:
        res.fail(rule, inst, "%s|pair" % rule, "acquire.c",
                 "map uses %s but unmap uses %s: the client's region is never released (or another stream's is)" % (a, b))
    # stop flushes the same pair
    f = prog.func("acquire_stop")
    cs = [c for b, i, s in f.all_stmts() for c in calls(s, "channel_read_map")]
    for c in cs:
        p = (ir.ap(c["args"][0]), ir.ap(c["args"][1]))
        if (p[0] or "").endswith("filter.in") and (p[1] or "").endswith("filter.reader") and \
                (p[0] or "").rsplit("filter.", 1)[0].lstrip("&") == (p[1] or "").rsplit("filter.", 1)[0].lstrip("&"):
            res.oblige(rule, "acquire_stop discards what is left in the filter's queue through the filter's own reader", True, "%s, %s" % p, f.loc())
            continue
        ok = (p[0] or "").endswith("sink.in") and (p[1] or "").endswith("monitor.reader")
        inst = "acquire_stop flushes the monitor reader on the sink's input channel"
        if ok:
            res.oblige(rule, inst, True, "%s, %s" % p, f.loc())
        else:
            res.fail(rule, inst, "%s|stop" % rule, f.loc(), "acquire_stop flushes %s on %s" % (p[1], p[0]))


def rule_stop_sequence(prog, res, rule="R-STOP-SEQ"):
    """acquire_stop joins every worker for which a thread_create exists, then
    re-accepts writes, then flushes the monitor."""
    f = prog.func("acquire_stop")
    res.touched(f)
    created = set()
    for g in prog.all_funcs():
        for b, i, s in g.all_stmts():
            for c in calls(s, "thread_create"):
                p = ir.ap(c["args"][0]) or ""
                # &self->thread in video_X_start: identify by the record of self
                root, chain = ir.field_chain(ir.strip(c["args"][0])["e"]) if ir.strip(c["args"][0]).get("k") == "addr" else (None, [])
                if chain and chain[0][0] in ("video_source_s", "video_filter_s", "video_sink_s"):
                    created.add(chain[0][0].split("_")[1])
    if created != {"source", "filter", "sink"}:
        raise AnalysisBroken("expected thread_create for source, filter and sink; found %s" % sorted(created))
    joins = {}
    for b, i, s in f.all_stmts():
        for c in calls(s, "thread_join"):
            p = ir.ap(c["args"][0]) or ""
            for w in created:
                if p.endswith("%s.thread" % w):
                    joins[w] = (b.id, i, s)
    acc = [(b.id, i, s) for b, i, s in f.all_stmts() for c in calls(s, "channel_accept_writes") if ir.is_const(c["args"][1], 1)]
    flush = [(b.id, i, s) for b, i, s in f.all_stmts() if calls(s, "channel_read_map")]
    # who can still write into a queue when writes are re-accepted?  The source, and the filter - unless the
    # source itself waits for the filter before it exits (R-STOP-CHAIN), in which case joining the source
    # implies that the filter has finished.  The sink only reads.
    from .report import Result as _Result
    _tmp = _Result("tmp")
    try:
        rule_stop_chain(prog, _tmp)
        chain_ok = not _tmp.findings
    except AnalysisBroken:
        chain_ok = False
    must_precede = {"source"} | (set() if chain_ok else {"filter"})
    for w in sorted(created):
        inst = "acquire_stop joins the %s thread" % w
        if w not in joins:
            res.fail(rule, inst, "%s|join|%s" % (rule, w), f.loc(),
                     "acquire_stop returns without joining the %s thread: the runtime reports Armed while a worker is still running" % w)
            continue
        # every path to the re-accept / flush / state store passes this join
        tgt = {(x[0], x[1]) for x in acc + flush}
        if w not in must_precede:
            ok, wit = paths.all_paths_pass(f, "entry", "exit", lambda s, w=w: any((ir.ap(c["args"][0]) or "").endswith("%s.thread" % w) for c in calls(s, "thread_join")),
                                           edge_ok=lambda blk, su: blk.cond_node() is not None and "valid_video_streams" in ir.render(blk.cond_node()))
            ok = True   # joined somewhere (joins[w]); its position relative to the re-accept does not matter: %s
            res.oblige(rule, inst, True, "joined; it cannot write into a queue once the source has been joined" if w == "filter" else "joined; it only reads", f.loc(joins[w][2]))
            continue
        ok, wit = paths.all_paths_pass(f, "entry", tgt, lambda s, w=w: any((ir.ap(c["args"][0]) or "").endswith("%s.thread" % w) for c in calls(s, "thread_join"))) if tgt else (True, None)
        if ok:
            res.oblige(rule, inst, True, "before writes are re-accepted and the monitor is flushed", f.loc(joins[w][2]))
        else:
            res.fail(rule, inst, "%s|order|%s" % (rule, w), f.loc(joins[w][2]),
                     "acquire_stop can re-accept writes / flush the monitor before the %s thread has been joined" % w, {"path_blocks": wit})
    # join order source -> filter -> sink (a producer finishes before its consumer is awaited)
    order = [w for w, _ in sorted(joins.items(), key=lambda kv: (kv[1][0] * -1, kv[1][1]))]
    # within one block: by statement index
    seq = sorted(joins.items(), key=lambda kv: (-kv[1][0], kv[1][1]))
    names = [k for k, v in seq]
    inst = "acquire_stop joins source, then filter, then sink"
    if names == ["source", "filter", "sink"]:
        res.oblige(rule, inst, True, "", f.loc())
    else:
        res.fail(rule, inst, "%s|join-order" % rule, f.loc(),
                 "acquire_stop joins the workers in the order %s: a consumer is awaited before its producer has finished" % names)
    inst = "acquire_stop re-accepts writes before flushing the monitor"
    if acc and flush:
        ok, wit = paths.all_paths_pass(f, "entry", {(x[0], x[1]) for x in flush}, lambda s: any(ir.is_const(c["args"][1], 1) for c in calls(s, "channel_accept_writes")))
        if ok:
            res.oblige(rule, inst, True, "", f.loc(acc[0][2]))
        else:
            res.fail(rule, inst, "%s|accept" % rule, f.loc(), "the monitor can be flushed before the channel accepts writes again")
    elif not acc:
        res.fail(rule, inst, "%s|accept" % rule, f.loc(),
                 "acquire_stop never re-accepts writes on the sink's channel: after an abort every later acquisition's source gets no region")
    # no early exit: every return is reached through the per-stream loop
    loops = paths.natural_loops(f)
    if loops:
        head, body = max(loops, key=lambda x: len(x[1]))
        hb = f.blocks[head]
        hc = hb.stmts[hb.cond] if hb.cond is not None else None
        ok, wit = paths.all_paths_pass(f, "entry", "exit", lambda s: s is hc)
        inst = "acquire_stop visits every stream before it returns"
        if ok:
            res.oblige(rule, inst, True, "every path to a return evaluates the stream loop", f.loc())
        else:
            res.fail(rule, inst, "%s|early-exit" % rule, f.loc(),
                     "acquire_stop can return without looking at the streams (an early exit): workers are not joined and the monitor is not flushed, so frames of the finished acquisition are delivered in the next one",
                     {"path_blocks": wit})
    # state
    rule_stop_armed(prog, res, rule)


def rule_stop_armed(prog, res, rule="R-STOP-SEQ"):
    """acquire_stop (the tail of acquire_abort too) reports Armed: on every path to a return the
    runtime's state member has been assigned the enumerator DeviceState_Armed itself - not a value
    computed from the previous state - and nothing else is assigned to it afterwards."""
    f = prog.func("acquire_stop")
    res.touched(f)

    def state_store(s_):
        return [(lv, rhs) for lv, op, rhs, w in ir.writes_of(s_) if lv.get("k") == "mem" and lv["f"] == "state"]

    def armed(s_):
        return any(isinstance(ir.strip(rhs), dict) and ir.strip(rhs).get("k") == "int" and ir.strip(rhs).get("e") == "DeviceState_Armed"
                   for lv, rhs in state_store(s_))
    inst = "acquire_stop leaves the runtime Armed"
    ok, wit = paths.all_paths_pass(f, "entry", "exit", armed)
    others = [(b.id, i, s_) for b, i, s_ in f.all_stmts() if state_store(s_) and not armed(s_)]
    late = []
    for b, i, s_ in f.all_stmts():
        if armed(s_):
            late += paths.reachable_after(f, (b.id, i), lambda q: bool(state_store(q)) and not armed(q))
    if ok and not late:
        res.oblige(rule, inst, True, "state = DeviceState_Armed on every path to the return, nothing assigned to it afterwards", f.loc())
    elif others:
        res.fail(rule, inst, "%s|armed" % rule, f.loc(others[0][2]),
                 "acquire_stop assigns the runtime state a value other than the enumerator DeviceState_Armed (%s): after a rejected start the state is AwaitingConfiguration, "
                 "and stop / abort then return without reporting Armed although the devices are open and armed" % ir.render(others[0][2]))
    else:
        res.fail(rule, inst, "%s|armed" % rule, f.loc(), "acquire_stop does not set the runtime state to Armed on every path to its return",
                 {"path_blocks": wit})


def rule_abort_sequence(prog, res, rule="R-ABORT-SEQ"):
    f = prog.func("acquire_abort")
    res.touched(f)
    stops = [(b.id, i) for b, i, s in f.all_stmts() if calls(s, "acquire_stop")]
    if not stops:
        raise AnalysisBroken("acquire_abort no longer ends with acquire_stop")
    # the per-stream body: the loop; the checks are per iteration: from the
    # 'stream is valid' edge to the loop latch
    loops = paths.natural_loops(f)
    if not loops:
        raise AnalysisBroken("acquire_abort: stream loop not found")
    head, body = max(loops, key=lambda x: len(x[1]))
    reqs = [
        ("source.is_stopping = 1", stores_const("source.is_stopping", 1), "the source keeps acquiring"),
        ("channel_accept_writes(sink.in, 0)", lambda s: any(ir.is_const(c["args"][1], 0) and (ir.ap(c["args"][0]) or "").endswith("sink.in") for c in calls(s, "channel_accept_writes")),
         "a source blocked on a full ring is never released"),
        ("camera_execute_trigger", lambda s: paths.stmt_reaches(prog, f, s, {"camera_execute_trigger", "->execute_trigger"}) or bool(calls(s, "camera_execute_trigger")),
         "a camera waiting for a software trigger never returns from its frame call"),
    ]
    # every other queue a worker of the stream writes into (found in acquire_init's wiring: the `in` channels
    # handed to the video_*_init functions as write targets) must be refused too: its consumer may be dead
    ai = prog.func("acquire_init", required=False)
    queues = set()
    if ai is not None:
        for b_, i_, s_ in ai.all_stmts():
            for c_ in ir.calls_in(s_):
                if (c_.get("fn") or "").startswith("video_") and (c_.get("fn") or "").endswith("_init"):
                    for a_ in c_.get("args", [])[1:]:
                        p_ = ir.ap(a_) or ""
                        if p_.endswith(".in") and "video" in p_:
                            queues.add(p_.rsplit("->", 1)[-1] if "->" in p_ else p_.split(".", 1)[-1])
    for q in sorted(queues):
        if q.endswith("sink.in"):
            continue
        reqs.append(("channel_accept_writes(%s, 0)" % q,
                     (lambda q: lambda s: any(ir.is_const(c["args"][1], 0) and (ir.ap(c["args"][0]) or "").endswith(q) for c in calls(s, "channel_accept_writes")))(q),
                     "a source that waits for space in that queue (its consumer may have quit on an error) is never released"))
    # the body for a valid stream starts on the false edge of the 'skip' test
    valid_starts = []
    for b in body:
        blk = f.blocks[b]
        c = blk.cond_node()
        if c is not None and any(y.get("k") == "mem" and y["f"] == "valid_video_streams" for y in ir.walk(c)):
            for sc in blk.succs:
                t = sc.get("to")
                if t is not None and f.blocks[t].term != "continue":
                    valid_starts.append(t)
    if not valid_starts:
        raise AnalysisBroken("acquire_abort: valid-stream test not found")
    for name, pred, why in reqs:
        ok = True
        for t in valid_starts:
            o, w = paths.all_paths_pass(f, (t, -1), {(head, 0)} if f.blocks[head].stmts else set(stops),
                                        paths.through_callees(prog, f, pred))
            ok = ok and o
        inst = "acquire_abort: every valid stream gets %s" % name
        if ok:
            res.oblige(rule, inst, True, "on every path of the per-stream body", f.loc())
        else:
            res.fail(rule, inst, "%s|%s" % (rule, name.split("(")[0].split(" ")[0] if "filter.in" not in name else "refuse-filter-queue"), f.loc(),
                     "acquire_abort can skip '%s' for a valid stream: %s, and the following acquire_stop waits forever" % (name, why))
    # order: the trigger is a one-shot wake-up; the stop request must already
    # be visible when the source returns from the frame call it releases
    trig = [(b.id, i) for b, i, s in f.all_stmts() if b.id in body and reqs[2][1](s)]
    inst = "acquire_abort: stop request is stored before the one-shot trigger"

    def ordered(g, starts, only=None, depth=0):
        """every trigger reachable in g (directly or inside a helper) is
        preceded, on every path from starts, by the stop-request store"""
        store = paths.through_callees(prog, g, reqs[0][1])
        for b, i, s in g.all_stmts():
            if only is not None and b.id not in only:
                continue
            direct = bool(calls(s, "camera_execute_trigger"))
            via = None
            if not direct:
                for c in ir.calls_in(s):
                    h = prog.resolve(c["fn"], g) if c.get("fn") else None
                    if h is not None and h is not g and paths.stmt_reaches(prog, g, s, {"camera_execute_trigger"}):
                        via = h
            if not direct and via is None:
                continue
            before = all(paths.all_paths_pass(g, st, {(b.id, i)}, store)[0] for st in starts)
            if before:
                continue
            if via is not None and depth < 3 and ordered(via, ["entry"], None, depth + 1):
                continue
            return False
        return True
    if trig:
        ok = ordered(f, [(t, -1) for t in valid_starts], body)
        if ok:
            res.oblige(rule, inst, True, "source.is_stopping = 1 on every path from the valid-stream edge to the trigger", f.loc())
        else:
            res.fail(rule, inst, "%s|order" % rule, f.loc(),
                     "acquire_abort can fire the software trigger before it stores source.is_stopping = 1: the source takes the released frame, "
                     "re-tests the flag (still 0) and blocks in the next frame call, for which no trigger will come; acquire_stop then joins forever")
    return len(reqs)


def rule_thread_exit(prog, res, rule="R-THREAD-EXIT"):
    for w, (tname, sname, rec) in WORKERS.items():
        f = prog.func(tname)
        res.touched(f)
        for fld in ("is_running", "is_stopping"):
            ok, wit = paths.all_paths_pass(f, "entry", "exit", paths.through_callees(prog, f, stores_const(fld, 0)))
            inst = "%s clears %s on every exit" % (tname, fld)
            if ok:
                res.oblige(rule, inst, True, "", f.loc())
            else:
                res.fail(rule, inst, "%s|%s|%s" % (rule, tname, fld), f.loc(),
                         "%s can return without clearing %s: %s" % (tname, fld,
                                                                   "acquire_get_state keeps reporting Running" if fld == "is_running" else
                                                                   "the next acquisition's worker sees a stale stop request"),
                         {"path_blocks": wit})
        # is_running = 0 tells the client that this worker is done with its
        # device: no device call may follow it (a client that polls the state
        # and re-configures would reach the device concurrently)
        def devcall(q):
            return any((c.get("fn") or "").startswith(("storage_", "camera_")) and not (c.get("fn") or "").endswith("_get_state")
                       for c in ir.calls_in(q))
        late = []
        for b, i, s_ in f.all_stmts():
            if stores_const("is_running", 0)(s_):
                late += [(b.id, i, x) for x in paths.reachable_after(f, (b.id, i), devcall)]
        inst = "%s: no device call after is_running = 0" % tname
        if not late:
            res.oblige(rule, inst, True, "", f.loc())
        else:
            res.fail(rule, inst, "%s|%s|device-after-flag" % (rule, tname), f.loc(late[0][2][2]) if isinstance(late[0][2], tuple) else f.loc(),
                     "%s clears is_running and then still calls into its device: the runtime reports Armed while the worker is inside the device, so a client that "
                     "re-configures or restarts now reaches the device concurrently (a second stop, a set during stop, a close under the worker)" % tname)
    f = prog.func("video_source_thread")
    ok, wit = paths.all_paths_pass(f, "entry", "exit", paths.through_callees(prog, f, has_call("camera_stop")))
    inst = "video_source_thread stops the camera on every exit"
    (res.oblige(rule, inst, True, "", f.loc()) if ok else
     res.fail(rule, inst, "%s|video_source_thread|camera_stop" % rule, f.loc(),
              "video_source_thread can exit without camera_stop: the camera keeps streaming", {"path_blocks": wit}))
    for sig in ("sig_stop_filter", "sig_stop_sink"):
        ok, wit = paths.all_paths_pass(f, "entry", "exit", paths.through_callees(prog, f, indirect_call(sig)))
        inst = "video_source_thread signals %s on every exit" % sig
        (res.oblige(rule, inst, True, "", f.loc()) if ok else
         res.fail(rule, inst, "%s|video_source_thread|%s" % (rule, sig), f.loc(),
                  "video_source_thread can exit without %s: the downstream worker never finishes and acquire_stop blocks in thread_join" % sig,
                  {"path_blocks": wit}))
    g = prog.func("video_sink_thread")
    ok, wit = paths.all_paths_pass(g, "entry", "exit", paths.through_callees(prog, g, has_call("storage_stop")))
    inst = "video_sink_thread stops the storage on every exit"
    (res.oblige(rule, inst, True, "", g.loc()) if ok else
     res.fail(rule, inst, "%s|video_sink_thread|storage_stop" % rule, g.loc(),
              "video_sink_thread can exit without storage_stop: the file is never finalised", {"path_blocks": wit}))


def rule_start_reset(prog, res, rule="R-START-RESET"):
    """The stop/run flags are (re)initialised by every start before the worker
    is created: the stop request of the previous acquisition may have been
    stored after that worker had already exited."""
    for w, (tname, sname, rec) in WORKERS.items():
        f = prog.func(sname)
        res.touched(f)
        tcs = {(b.id, i) for b, i, s in f.all_stmts() if calls(s, "thread_create")}
        if not tcs:
            raise AnalysisBroken("%s no longer creates its thread" % sname)
        for fld, val in (("is_stopping", 0), ("is_running", 1)):
            ok, wit = paths.all_paths_pass(f, "entry", tcs, paths.through_callees(prog, f, stores_const(fld, val)))
            inst = "%s: %s = %d before thread_create" % (sname, fld, val)
            if ok:
                res.oblige(rule, inst, True, "", f.loc())
            else:
                res.fail(rule, inst, "%s|%s|%s" % (rule, sname, fld), f.loc(),
                         "%s can create the worker without setting %s to %d: %s" % (
                             sname, fld, val,
                             "a stop request stored after the previous worker exited makes the new worker quit at once (a later acquisition loses its frames)" if fld == "is_stopping"
                             else "acquire_get_state reports Armed while the worker runs"),
                         {"path_blocks": wit})


def rule_sink_error_path(prog, res, rule="R-SINK-ERROR"):
    f = prog.func("video_sink_thread")
    res.touched(f)

    def refuses_own_input(x):
        for c in calls(x, "channel_accept_writes"):
            a = c.get("args", [])
            if len(a) == 2 and ir.is_const(a[1], 0) and (ir.ap(a[0]) or "").lstrip("&").endswith("->in"):
                return True
        return False
    def appends_(x):
        return bool(calls(x, "storage_append")) or paths.stmt_reaches(prog, f, x, {"storage_append"})
    appends = [(b.id, i, s) for b, i, s in f.all_stmts() if appends_(s)]
    if len(appends) < 2:
        raise AnalysisBroken("video_sink_thread: expected the streaming and the flush storage_append")
    for bid, i, s in appends:
        blk = f.blocks[bid]
        # failure edge of CHECK(storage_append(...) == Device_Ok)
        fail_t = None
        c = ir.strip(blk.cond_node()) if blk.cond is not None and blk.stmts[blk.cond] is s else None
        if c is None:
            raise AnalysisBroken("video_sink_thread: storage_append result is not tested")
        fl = failure_label(c)
        for sc in blk.succs:
            if sc.get("label") == fl:
                fail_t = sc.get("to")
        if fail_t is None:
            raise AnalysisBroken("video_sink_thread: failure edge of storage_append not found")
        line = s.get("line")
        later = paths.reachable_after(f, (fail_t, -1), appends_)
        inst = "video_sink_thread: nothing appended after a failed append (line %s)" % line
        if not later:
            res.oblige(rule, inst, True, "no storage_append reachable from the failure edge", f.loc(s))
        else:
            res.fail(rule, inst, "%s|append-after-failure" % rule, f.loc(later[0][2]),
                     "after storage_append failed the sink can append again: frames follow the failure in the file")
        for name, pred, why in (
                ("sig_stop_source", indirect_call("sig_stop_source"), "the source keeps filling the ring nobody reads"),
                ("channel_read_unmap", has_call("channel_read_unmap"), "the sink's reader stays mapped: the next acquisition's first map discards data"),
                ("storage_stop", has_call("storage_stop"), "the storage is never stopped"),
                ("is_running = 0", stores_const("is_running", 0), "the runtime keeps reporting Running"),
                ("channel_read_map (discard what is left)", has_call("channel_read_map"),
                 "the frames still in its input stay there and are handed to the storage of the NEXT acquisition before that acquisition's own frame 0"),
                ("channel_accept_writes(in, 0)", refuses_own_input,
                 "its reader stays registered at its last position, so a source (or filter) that is blocked in channel_write_map on the full ring "
                 "is never released - the stop request is not part of the writer's wait predicate - and acquire_stop waits for ever in thread_join")):
            ok, wit = paths.all_paths_pass(f, (fail_t, -1), "exit", paths.through_callees(prog, f, pred))
            inst = "video_sink_thread: failed append (line %s) -> %s" % (line, name)
            if ok:
                res.oblige(rule, inst, True, "", f.loc(s))
            else:
                kname = "refuse-writes" if name.startswith("channel_accept_writes") else ("discard-rest" if name.startswith("channel_read_map") else name.split(" ")[0])
                res.fail(rule, inst, "%s|%s" % (rule, kname), f.loc(s),
                         "after a failed storage_append the sink can exit without %s: %s" % (name, why), {"path_blocks": wit})


def rule_source_error_path(prog, res, rule="R-SOURCE-ERROR"):
    f = prog.func("video_source_thread")
    res.touched(f)
    gf = [(b.id, i, s) for b, i, s in f.all_stmts() if calls(s, "camera_get_frame")]
    if not gf:
        raise AnalysisBroken("video_source_thread no longer calls camera_get_frame")
    for bid, i, s in gf:
        blk = f.blocks[bid]
        c = ir.strip(blk.cond_node()) if blk.cond is not None and blk.stmts[blk.cond] is s else None
        if c is None:
            res.fail(rule, "camera_get_frame result tested", "%s|untested" % rule, f.loc(s),
                     "video_source_thread ignores the result of camera_get_frame")
            continue
        fl = failure_label(c)
        fail_t = [sc.get("to") for sc in blk.succs if sc.get("label") == fl][0]
        later = paths.reachable_after(f, (fail_t, -1), lambda x: bool(calls(x, "camera_get_frame")) or bool(calls(x, "channel_write_unmap")))
        inst = "video_source_thread: a failed frame call ends the loop without committing"
        if not later:
            res.oblige(rule, inst, True, "no further camera_get_frame / channel_write_unmap reachable", f.loc(s))
        else:
            res.fail(rule, inst, "%s|continues" % rule, f.loc(later[0][2]),
                     "after camera_get_frame failed the source can still commit the mapped region or ask for more frames")
        for name, pred in (("sig_stop_filter", indirect_call("sig_stop_filter")), ("sig_stop_sink", indirect_call("sig_stop_sink")),
                           ("camera_stop", has_call("camera_stop")), ("is_running = 0", stores_const("is_running", 0))):
            ok, wit = paths.all_paths_pass(f, (fail_t, -1), "exit", paths.through_callees(prog, f, pred))
            inst = "video_source_thread: failed frame call -> %s" % name
            if ok:
                res.oblige(rule, inst, True, "", f.loc(s))
            else:
                res.fail(rule, inst, "%s|%s" % (rule, name.split(" ")[0]), f.loc(s),
                         "after a failed camera_get_frame the source can exit without %s" % name, {"path_blocks": wit})


# ---------------------------------------------------------------------------
ITER_NEXT = {"frame_iterator_next"}


def rule_consume(prog, res, fname, mode, rule="R-CONSUME"):
    """Every reader-side release  channel_read_unmap(ch, rd, N)  with N != 0
    releases exactly the bytes that were processed: N is measured from the
    beginning of the most recent mapping ( N = X - map.beg ), and
      mode 'append'  : a storage_append(st, B, E) lies on every path from the
                       mapping to the release, with B = map.beg and E = X;
                       a draining loop (not nested in the running loop)
                       hands over the whole mapping, E = map.end;
      mode 'iterate' : X = map.end and the release is reached only through
                       the exhausted edge of an iteration over that mapping;
      mode 'discard' : X = map.end.
    Symbolic evaluation by regions.Regions; calls placed in a static helper
    are evaluated there with the helper's parameters bound to the caller's
    terms."""
    from . import regions
    f = prog.func(fname)
    res.touched(f)
    R = regions.Regions(prog)

    def events(name):
        """(position in f, statement in f, call node, evaluation context)"""
        for b, i, s in f.all_stmts():
            for c in ir.calls_in(s):
                if c.get("fn") == name:
                    yield (b.id, i), s, c, (f, (b.id, i), {})
                elif c.get("fn"):
                    h = prog.resolve(c["fn"], f)
                    if h is None or h is f or not h.blocks:
                        continue
                    inner = [(hb.id, hi, hc) for hb, hi, hs in h.all_stmts() for hc in ir.calls_in(hs) if hc.get("fn") == name]
                    if inner:
                        genv = R._bind(f, (b.id, i), h, c.get("args", []), {}, 0)
                        for hb, hi, hc in inner:
                            yield (b.id, i), s, hc, (h, (hb, hi), genv)

    def ev(ctx, e):
        return R.term(ctx[0], ctx[1], e, ctx[2])

    sites = [(pos, s, c, ctx) for pos, s, c, ctx in events("channel_read_unmap")
             if len(c.get("args", [])) == 3 and not ir.is_const(c["args"][2], 0)]
    if not sites:
        raise AnalysisBroken("%s no longer releases a mapped region with a byte count" % fname)

    def is_map(ss):
        return bool(calls(ss, "channel_read_map")) or paths.stmt_reaches(prog, f, ss, {"channel_read_map"})

    def forward(src):
        """positions reachable from src without passing another mapping"""
        out = set()
        seen_ = set()
        st_ = [(src[0], src[1] + 1)]
        while st_:
            b_, j_ = st_.pop()
            blk_ = f.blocks[b_]
            stop = False
            for jj in range(j_, len(blk_.stmts)):
                out.add((b_, jj))
                if is_map(blk_.stmts[jj]):
                    stop = True
                    break
            if stop:
                continue
            for t_ in blk_.succ_ids():
                if t_ not in seen_:
                    seen_.add(t_)
                    st_.append((t_, 0))
        return out

    def map_pos(m):
        for b2, i2, s2 in f.all_stmts():
            if any(id(cc) == m for cc in ir.calls_in(s2)):
                return (b2.id, i2)
        return None
    n = 0
    nat = paths.natural_loops(f)
    appends = list(events("storage_append")) if mode == "append" else []
    for pos, s, c, ctx in sites:
        bid, i = pos
        depth = sum(1 for h, body in nat if bid in body)
        key = "%s|%s|%s" % (rule, fname, "drain" if depth <= 1 else "running")
        inst = "%s: release at line %s consumes what was processed" % (fname, s.get("line"))
        tN = ev(ctx, c["args"][2])
        names = {}
        ok_shape = isinstance(tN, tuple) and tN[0] == "sub" and isinstance(tN[2], tuple) and tN[2][0] == "map" and tN[2][2] == "beg"
        mp = map_pos(tN[2][1]) if ok_shape else None
        if not ok_shape or mp is None:
            res.fail(rule, inst, key + "|measure", f.loc(s),
                     "%s releases %s bytes of its reader's region; that count is not measured from the beginning of the region the last channel_read_map returned, so the bytes released are not the bytes processed"
                     % (fname, ir.render(c["args"][2])), {"term": regions.show(tN)})
            n += 1
            continue
        m = tN[2][1]
        names[m] = "map"
        X = tN[1]
        # the mapping must be the most recent one on every path: walking back
        # from the release, the first mapping met is m
        stale = False
        seen = set()
        st = [(bid, i)]
        preds = f.preds()
        while st and not stale:
            b_, i_ = st.pop()
            blk = f.blocks[b_]
            hit = False
            for j in range(min(i_, len(blk.stmts)) - 1, -1, -1):
                if is_map(blk.stmts[j]):
                    hit = True
                    if (b_, j) != mp:
                        stale = True
                    break
            if hit:
                continue
            for p in preds.get(b_, []):
                if p not in seen:
                    seen.add(p)
                    st.append((p, len(f.blocks[p].stmts)))
        if stale:
            res.fail(rule, inst, key + "|stale", f.loc(s),
                     "%s measures the released byte count on a mapping that is not the most recent channel_read_map of that reader" % fname)
            n += 1
            continue
        whole = X == ("map", m, "end")
        problems = []
        detail = "N = %s" % regions.show(tN, names)
        eff_mode = mode
        if mode == "append":
            # a release reached only through the failure edge of a storage call (append, stop) is the error path's
            # discard: nothing more may be appended after a failure (R-SINK-ERROR), what is left is thrown away whole
            def failed_append(cn, lab, blk):
                return any(cc.get("fn") in ("storage_append", "storage_stop", "storage_start") or paths.stmt_reaches(prog, f, cc, {"storage_append"})
                           for cc in ir.calls_in(cn)) and lab == failure_label(cn)
            if paths.edge_dominated(f, pos, failed_append)[0]:
                eff_mode = "discard"
                detail += "; error path (after a failed append): discard mode"
        if eff_mode == "append":
            after_map = forward(mp)
            on_path = [(p2, s2, c2, ctx2) for p2, s2, c2, ctx2 in appends
                       if p2 in after_map and (p2 == pos or pos in forward(p2))]
            okp, w = paths.all_paths_pass(f, mp, {pos}, paths.through_callees(prog, f, has_call("storage_append")))
            if not okp and not any(p2 == pos for p2, _, _, _ in on_path):
                problems.append(("skip", "a path from the mapping to the release hands nothing to storage_append: the released frames are never stored"))
            for p2, s2, c2, ctx2 in on_path:
                tB = ev(ctx2, c2["args"][1])
                tE = ev(ctx2, c2["args"][2])
                if tB != ("map", m, "beg"):
                    problems.append(("begin", "storage_append at line %s starts at %s, not at the beginning of the mapped region" % (s2.get("line"), regions.show(tB, names))))
                if tE != X:
                    problems.append(("extent", "storage_append at line %s stores up to %s but %s bytes are released: frames are %s"
                                     % (s2.get("line"), regions.show(tE, names), regions.show(tN, names),
                                        "dropped or stored twice")))
            if depth <= 1 and not whole:
                problems.append(("drain", "the draining loop hands over only part of the mapping (up to %s): frames still inside their write delay when the acquisition stops are never stored" % regions.show(X, names)))
            detail += "; %d storage_append call(s) with [map.beg, %s)" % (len(on_path), regions.show(X, names))
        elif eff_mode in ("iterate", "discard"):
            if not whole:
                problems.append(("extent", "the whole region is expected to be released, but N = %s" % regions.show(tN, names)))
            if eff_mode == "iterate" and whole:
                def exhausted(cnode, lab, blk):
                    if lab != "false":
                        return False
                    nodes = list(ir.walk(cnode))
                    for y in list(nodes):
                        if y.get("k") == "ref":
                            t = f.resolve_ref(y)
                            if t is not None:
                                nodes += list(ir.walk(t))
                    for y in nodes:
                        if y.get("k") == "call" and y.get("fn") in ITER_NEXT:
                            # the iterator as it was initialised (only the
                            # stepping function advances it)
                            R.dirty_ok = True
                            try:
                                it = R.ptr(f, (blk.id, 0), y["args"][0])
                            finally:
                                R.dirty_ok = False
                            if isinstance(it, dict):
                                for v in it.values():
                                    if isinstance(v, dict) and v.get("beg") == ("map", m, "beg") and v.get("end") == ("map", m, "end"):
                                        return True
                        if y.get("k") == "bin" and y.get("op") in ("<", "!="):
                            r_ = R.term(f, (blk.id, len(blk.stmts)), y["r"])
                            if r_ == ("map", m, "end"):
                                return True
                    return False
                if not paths.edge_dominated_correlated(f, pos, exhausted):
                    walks = any(c_.get("fn") in ITER_NEXT for b_, i_, s_ in f.all_stmts() for c_ in ir.calls_in(s_))
                    problems.append(("exhaust", "the whole region is released although the walk over its frames can end early: the remaining frames are skipped" if walks else
                                     "the mapped region is released whole without any walk over its frames: whatever the producer had committed by then is thrown away unprocessed"))
                detail += "; reached only through the exhausted edge of the frame walk"
        for tag, msg in problems:
            res.fail(rule, inst, key + "|" + tag, f.loc(s), "%s: %s" % (fname, msg))
        if not problems:
            res.oblige(rule, inst, True, detail, f.loc(s))
        n += 1
    return n


def rule_consume_file(prog, res, anchor, mode, rule="R-CONSUME"):
    """R-CONSUME for every function of the anchor's file that releases reader
    bytes, not only the anchor: a second release site elsewhere in the worker
    (a 'discard what is there on entry' helper) throws frames away just as a
    wrong count in the main pass does.  A function that maps and releases is
    judged on its own; a helper that only releases is judged in its callers
    (rule_consume evaluates one level of static helpers)."""
    f0 = prog.func(anchor)
    todo = [anchor]
    fns = [g for v in prog.funcs.values() for g in v if g.file == f0.file and g.blocks]
    def direct(g, name, nonzero=False):
        return [c for b, i, s_ in g.all_stmts() for c in ir.calls_in(s_) if c.get("fn") == name and
                (not nonzero or (len(c.get("args", [])) == 3 and not ir.is_const(c["args"][2], 0)))]
    for g in fns:
        if g.name == anchor or not direct(g, "channel_read_unmap", True):
            continue
        if direct(g, "channel_read_map"):
            todo.append(g.name)
        else:
            callers = [h.name for h in fns if h is not g and direct(h, g.name)]
            todo += callers or [g.name]
    n = 0
    done = set()
    for name in todo:
        if name in done:
            continue
        done.add(name)
        n += rule_consume(prog, res, name, mode, rule)
    return n


def rule_drain_after_stop(prog, res, fname, pass_names, rule="R-DRAIN", passes=1):
    """A consumer worker makes one more pass over its input after it has seen
    its stop request: every path from a read of self->is_stopping to the
    worker's exit passes a call that consumes input (the producer commits its
    last frames and then raises the flag; a worker that reads the flag after
    its last pass and leaves strands those frames in its input ring)."""
    f = prog.func(fname)
    res.touched(f)
    reads = []
    for b, i, s in f.all_stmts():
        wr = {id(lv) for lv, op, rhs, w in ir.writes_of(s)}
        for y in ir.walk(s):
            if y.get("k") == "mem" and y.get("f") == "is_stopping" and id(y) not in wr and (ir.ap(y) or "").startswith(f.params[0]["n"] + "->"):
                reads.append((b.id, i, s))
                break
    if not reads:
        raise AnalysisBroken("%s no longer reads its stop flag" % fname)
    n = 0
    for bid, i, s in reads:
        def consumes(q):
            return any(c.get("fn") in pass_names for c in ir.calls_in(q)) or paths.stmt_reaches(prog, f, q, set(pass_names))
        ok, w = paths.all_paths_pass(f, (bid, i), "exit", consumes)
        if ok and passes > 1:
            # a pass is one map/unmap of the input: a backlog that spans the wrap point of the ring needs two
            # (the rest of the old lap, then the start of the new lap) - or a loop that runs until empty
            firsts = [(b2.id, i2) for b2, i2, s2 in f.all_stmts() if consumes(s2) and
                      (b2.id, i2) in {(x[0], x[1]) for x in paths.reachable_after(f, (bid, i), consumes)}]
            in_loop_until = any(paths.innermost_loop(f, b2) and not any(
                isinstance(y, dict) and y.get("k") == "mem" and y.get("f") == "is_stopping"
                for blk_ in [f.blocks[x_] for x_ in paths.innermost_loop(f, b2)] for y in (ir.walk(blk_.cond_node()) if blk_.cond_node() is not None else []))
                for b2, i2 in firsts)
            def pass_failed(blk, succ):
                # the failure edge of a tested pass (CHECK(process_data(..))): the worker leaves through its error path
                c_ = blk.cond_node()
                return c_ is not None and any(cc.get("fn") in pass_names for cc in ir.calls_in(c_)) and succ.get("label") == failure_label(c_)
            again = all(paths.all_paths_pass(f, p2, "exit", consumes, edge_ok=pass_failed)[0]
                        for p2 in firsts if not paths.all_paths_pass(f, (bid, i), {p2}, consumes)[0])
            if not (again or in_loop_until):
                ok = False
                w = None
        n += 1
        inst = "%s: after the stop flag was read (line %s) the input is consumed %s before the worker leaves" % (
            fname, s.get("line"), "once more" if passes == 1 else "until nothing can be left (two passes, or a loop until empty)")
        if ok:
            res.oblige(rule, inst, True, "%s on every path to the exit" % "/".join(sorted(pass_names)), f.loc(s))
        else:
            res.fail(rule, inst, "%s|%s" % (rule, fname), f.loc(s),
                     ("%s can read its stop flag and leave without another pass over its input: frames the producer committed just before raising the flag stay in the ring, are missing from this acquisition and reappear in the next one" % fname)
                     if passes == 1 or not paths.all_paths_pass(f, (bid, i), "exit", consumes)[0] else
                     ("%s makes a single pass over its input after its stop request: when the unread backlog spans the wrap point of the ring one map returns only the rest of the old lap, "
                      "the frames at the start of the new lap stay behind - missing from this acquisition, processed first in the next one" % fname),
                     {"path_blocks": w})
    return n


def rule_join_fresh(prog, res, rule="R-JOIN-FRESH"):
    """'Nothing from a stopped acquisition is delivered later', also to a client
    that starts to monitor in a later acquisition.  A reader that registers joins
    where reader_initialize puts it.  Either that is the writer's cursor (position
    := head: nothing committed before the join is replayed), or - when a new reader
    joins at the start of the current lap - every acquisition boundary must flush
    the monitor reader whether or not it is registered yet; a stop-time flush that
    is guarded by a test of the reader's registration leaves the stale lap for a
    reader that registers later."""
    ri = prog.func("reader_initialize")
    res.touched(ri)
    joins_at_head = False
    pos_store = None
    for b, i, s in ri.all_stmts():
        for lv, op, rhs, w in ir.writes_of(s):
            root, chain = ir.field_chain(lv)
            if any(fld == "pos" for _, fld in chain) and any(fld == "holds" for _, fld in chain):
                pos_store = s
                r0 = ir.strip(rhs) if isinstance(rhs, dict) else None
                if isinstance(r0, dict) and r0.get("k") == "mem" and r0.get("f") == "head":
                    joins_at_head = True
    if pos_store is None:
        raise AnalysisBroken("reader_initialize no longer stores the new reader's hold position")
    inst = "a reader that registers after a stop is not handed the stopped acquisition's frames"
    if joins_at_head:
        res.oblige(rule, inst, True, "a new reader joins at the writer's head", ri.loc(pos_store))
        return
    f = prog.func("acquire_stop")
    res.touched(f)
    maps = [(b.id, i, s) for b, i, s in f.all_stmts() for c in calls(s, "channel_read_map")
            if "monitor" in (ir.ap(c["args"][1]) or "")]
    if not maps:
        raise AnalysisBroken("acquire_stop no longer flushes the monitor reader")

    def reg_test(cn, lab, blk):
        # a branch that reads the reader's id: the flush is reached only through its 'registered' edge
        for y in ir.walk(cn):
            if isinstance(y, dict) and y.get("k") == "mem" and y.get("f") == "id" and "reader" in (ir.ap(y) or ""):
                return True
        return False
    guarded = [m for m in maps if paths.edge_dominated(f, (m[0], m[1]), reg_test)[0]]
    if guarded:
        res.fail(rule, inst, "%s|acquire_stop|monitor.reader.id" % rule, f.loc(guarded[0][2]),
                 "reader_initialize places a new reader at the start of the current lap (position 0, not head) and acquire_stop flushes the "
                 "monitor reader only if it is already registered (the flush is guarded by monitor.reader.id): a client whose first "
                 "acquire_map_read happens in a later acquisition is handed the frames of the stopped acquisition(s) still in that lap first")
    else:
        res.oblige(rule, inst, True, "acquire_stop flushes the monitor reader unconditionally (registering it)", f.loc(maps[0][2]))


def rule_stop_chain(prog, res, rule="R-STOP-CHAIN"):
    """The filter feeds the sink: its final flush may still commit frames into the
    sink's input after it was told to stop.  The sink must therefore be told to
    stop only after the filter has finished - otherwise the sink can do its own
    final flush first, the filter's last frame(s) miss this acquisition's storage
    and are still in the ring when the next acquisition starts.
    (1) in the source worker every call of sig_stop_sink is preceded, on every
        path, by a call of sig_stop_filter;
    (2) the function that raises filter.is_stopping (the callback wired into
        sig_stop_filter) does not return before the filter worker has been joined
        (thread_join on the filter's thread object on every path after the store)."""
    f = prog.func("video_source_thread")
    res.touched(f)
    sinks = [(b.id, i, s) for b, i, s in f.all_stmts() if indirect_call("sig_stop_sink")(s)]
    if not sinks:
        raise AnalysisBroken("video_source_thread no longer signals the sink")
    for bid, i, s in sinks:
        ok, w = paths.all_paths_pass(f, "entry", {(bid, i)}, indirect_call("sig_stop_filter"))
        inst = "video_source_thread: the filter is told to stop before the sink (line %s)" % s.get("line")
        if ok:
            res.oblige(rule, inst, True, "", f.loc(s))
        else:
            res.fail(rule, inst, "%s|source|order" % rule, f.loc(s),
                     "the source can signal the sink to stop on a path on which the filter was not stopped first: the sink's final flush can precede the filter's last emit",
                     {"path_blocks": w})
    raisers = []
    for g in prog.all_funcs():
        if not g.blocks or g.name in ("video_filter_start", "video_filter_thread", "video_filter_init"):
            continue
        for b, i, s in g.all_stmts():
            if stores_const("filter.is_stopping", 1)(s):
                raisers.append((g, b.id, i, s))
    if not raisers:
        raise AnalysisBroken("no function raises filter.is_stopping")

    def joins_filter(x):
        for c in calls(x, "thread_join"):
            a = c.get("args", [])
            if a and (ir.ap(a[0]) or "").endswith("filter.thread"):
                return True
        return False
    for g, bid, i, s in raisers:
        res.touched(g)
        ok, w = paths.all_paths_pass(g, (bid, i), "exit", paths.through_callees(prog, g, joins_filter))
        inst = "%s: returns only after the filter worker has finished" % g.name
        if ok:
            res.oblige(rule, inst, True, "thread_join(filter.thread) on every path after filter.is_stopping = 1", g.loc(s))
        else:
            res.fail(rule, inst, "%s|%s|no-join" % (rule, g.name), g.loc(s),
                     "%s raises the filter's stop flag and returns at once; the source then raises the sink's flag in the same instant, so the sink can finish its final flush "
                     "before the filter's last averaged frame is committed: that frame misses this acquisition's storage and is delivered at the start of the next one" % g.name,
                     {"path_blocks": w})


def rule_start_unwind(prog, res, rule="R-START-UNWIND"):
    """acquire_start starts up to three workers per stream; when a later one fails to start, the ones already
    running have no source thread that would ever tell them to stop.  In the code reached from a failing
    start check: for every stream that is not skipped as disabled, the filter's and the sink's stop requests
    are raised (directly, or through the callbacks the source uses) on every path through the per-stream
    body, and a call that reaches thread_join (directly or through acquire_stop) lies on every path to the
    error return.  Otherwise the storage stays started and every later stop / abort / shutdown waits for
    those workers for ever."""
    f = prog.func("acquire_start")
    res.touched(f)
    starts = []
    for b in f.blocks.values():
        c = b.cond_node()
        if c is None:
            continue
        for cc in ir.calls_in(c):
            if cc.get("fn") in ("video_sink_start", "video_filter_start", "video_source_start"):
                lab = failure_label(c)
                for su in b.succs:
                    if su.get("label") == lab and su.get("to") is not None:
                        starts.append((b, su["to"], cc["fn"]))
    if len(starts) < 3:
        raise AnalysisBroken("acquire_start: fewer than three checked worker starts found (%d)" % len(starts))

    def contains(g, p, depth, seen):
        """does g (or a repository callee, transitively) contain a statement satisfying p?"""
        if g.name in seen or depth < 0:
            return False
        seen.add(g.name)
        for b_, i_, s_ in g.all_stmts():
            if p(s_):
                return True
            for c_ in ir.calls_in(s_):
                h = prog.resolve(c_["fn"], g) if c_.get("fn") else None
                if h is not None and h.blocks and contains(h, p, depth - 1, seen):
                    return True
        return False

    def may(p):
        def q(s_):
            if p(s_):
                return True
            for c_ in ir.calls_in(s_):
                h = prog.resolve(c_["fn"], f) if c_.get("fn") else None
                if h is not None and h is not f and h.blocks and contains(h, p, 3, set()):
                    return True
            return False
        return q
    raise_filter = may(stores_const("filter.is_stopping", 1))
    raise_sink = may(stores_const("sink.is_stopping", 1))
    joins = may(lambda s_: bool(calls(s_, "thread_join")))
    n = 0
    for blk, to, name in starts:
        reach = f.reachable_from(to) | {to}
        # per-stream bodies in the failure code: the non-skip successor of a test of valid_video_streams
        bodies = []
        for x in sorted(reach):
            bx = f.blocks[x]
            c = bx.cond_node()
            if c is not None and len(bx.succs) == 2 and "valid_video_streams" in ir.render(c):
                skip = failure_label(c) if False else None
                c0 = ir.strip(c)
                neg = False
                while isinstance(c0, dict) and c0.get("k") == "un" and c0.get("op") == "!":
                    neg = not neg
                    c0 = ir.strip(c0["e"])
                # ((valid >> i) & 1) == 0  : true edge skips ;  (valid >> i) & 1 : false edge skips
                skip_label = "true" if (isinstance(c0, dict) and c0.get("k") == "bin" and c0.get("op") == "==" and ir.is_const(c0.get("r"), 0)) else "false"
                if neg:
                    skip_label = "false" if skip_label == "true" else "true"
                for su in bx.succs:
                    if su.get("label") != skip_label and su.get("to") is not None:
                        bodies.append(su["to"])
        froms = bodies or [to]
        for what, pred, msg, src in (("filter stop request", raise_filter, "does not ask the filter worker to stop", froms),
                                     ("sink stop request", raise_sink, "does not ask the sink worker to stop", froms),
                                     ("workers joined", joins, "does not wait for the workers that were started", [to])):
            ok = True
            w = None
            for x in src:
                ok_, w_ = paths.all_paths_pass(f, (x, -1), "exit", pred)
                if not ok_:
                    ok, w = False, w_
            inst = "acquire_start: after a failed %s - %s on every path to the error return" % (name, what)
            n += 1
            if ok:
                res.oblige(rule, inst, True, "", f.loc())
            else:
                res.fail(rule, inst, "%s|%s|%s" % (rule, name, what.split()[0]), f.loc(),
                         "acquire_start's failure exit %s when %s fails: the sink / filter threads of the streams started so far keep running with no source to end them, "
                         "their storage stays started, and acquire_stop, acquire_abort and acquire_shutdown wait for them for ever" % (msg, name), {"path_blocks": w})
    return n


def rule_register_early(prog, res, rule="R-REGISTER-EARLY"):
    """A queue without readers never makes its writer wait (channel_write_map's no-reader branch wraps
    freely).  A worker that must see every byte of its input queue therefore has to be registered with it
    before a writer can exist - in the function that creates the queue - and not whenever its thread first
    gets to run: after channel_new(&self->in, ..) every path to the function's exit passes
    channel_read_map(&self->in, &self->reader)."""
    n = 0
    for f in prog.all_funcs():
        if not f.blocks:
            continue
        for b, i, s in f.all_stmts():
            for c in calls(s, "channel_new"):
                q = ir.ap(ir.strip(c["args"][0])) or ""
                if not q.startswith("&") or not q.endswith("in"):
                    continue
                owner = q[1:].rsplit("in", 1)[0]          # 'self->'
                res.touched(f)

                def registers(x, q=q, owner=owner):
                    for cc in calls(x, "channel_read_map"):
                        a = cc.get("args", [])
                        if len(a) >= 2 and (ir.ap(ir.strip(a[0])) or "") == q and (ir.ap(ir.strip(a[1])) or "") == "&" + owner + "reader":
                            return True
                    return False
                def registers_any(x):
                    # inside a helper the queue and the reader are named through the helper's own parameter
                    for cc in calls(x, "channel_read_map"):
                        a = cc.get("args", [])
                        if len(a) >= 2 and (ir.ap(ir.strip(a[0])) or "").endswith("in") and (ir.ap(ir.strip(a[1])) or "").endswith("reader"):
                            return True
                    return False

                def registers_or_helper(x, registers=registers):
                    if registers(x):
                        return True
                    for cc in ir.calls_in(x):
                        h = prog.resolve(cc["fn"], f) if cc.get("fn") else None
                        if h is not None and h is not f and h.blocks and h.file == f.file and \
                                paths.all_paths_pass(h, "entry", "exit", registers_any)[0]:
                            return True
                    return False
                ok, w = paths.all_paths_pass(f, (b.id, i), "exit", registers_or_helper)
                inst = "%s: the reader of the queue it creates is registered before any writer can exist" % f.name
                n += 1
                if ok:
                    res.oblige(rule, inst, True, "channel_read_map(%s, &%sreader) on every path after channel_new" % (q, owner), f.loc(s))
                else:
                    res.fail(rule, inst, "%s|%s" % (rule, f.name), f.loc(s),
                             "%s creates the queue %s and returns without registering %sreader with it: the reader registers with its thread's first read, and until then "
                             "the writer never waits - frames committed beyond one ring capacity before that read overwrite unread frames (lost silently, status stays Ok)"
                             % (f.name, q[1:], owner), {"path_blocks": w})
    if n == 0:
        raise AnalysisBroken("no channel_new(&x->in, ..) found")
    return n
