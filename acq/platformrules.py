"""R-PLATFORM: the repository's own synchronisation wrappers (linux/platform.c).

Every lock / condition-variable / thread rule of the other modules treats
lock_acquire, lock_release, condition_variable_wait, condition_variable_notify_all,
thread_create and thread_join as primitives.  They are ordinary functions of
the repository, so what the other rules assume about them is checked here:

FORWARD  each wrapper reaches, on every path from its entry to its exit, the
         pthread primitive it stands for, applied to the pthread object embedded
         in *its own* parameter (the parameter is found by its record type, the
         embedded object by its field type): a wait on another mutex than the
         caller's lock, a `signal` where all waiters have to re-check, or a
         conditional unlock silently void L-CV / L-PAIR everywhere.
JOIN     thread_join reaches pthread_join of the stored handle unless the
         handle is marked not live; afterwards (join succeeded) the mark is
         cleared on every path, and the mark is only read/written under the
         thread object's mutex, which is released on every exit.
CREATE   thread_create passes the caller's procedure and argument to
         pthread_create, marks the handle live on the path where the creation
         succeeded and not live on the path where it failed.
EVENT    event_wait / event_notify_all: flag written under the event's mutex,
         set before the broadcast, waited for in a re-check loop, mutex
         released on every exit.
"""
from . import ir, paths
from .build import AnalysisBroken

RULE = "R-PLATFORM"

# wrapper -> (primitive, [(record type of the wrapper's parameter, pthread type of the embedded object)...])
FORWARD = {
    "lock_acquire": ("pthread_mutex_lock", [("lock", "pthread_mutex_t")]),
    "lock_release": ("pthread_mutex_unlock", [("lock", "pthread_mutex_t")]),
    "condition_variable_wait": ("pthread_cond_wait", [("condition_variable", "pthread_cond_t"), ("lock", "pthread_mutex_t")]),
    "condition_variable_notify_all": ("pthread_cond_broadcast", [("condition_variable", "pthread_cond_t")]),
}


def _param_of(f, rec):
    for p in f.params:
        t = p["t"].replace("__restrict", "").replace("const", "").strip()
        if t.rstrip("* ").strip() in ("struct " + rec, rec) and "*" in t:
            return p["n"]
    return None


def _fields_of_type(prog, rec, ty):
    r = prog.record(rec)
    if not r:
        return []
    return [fl["n"] for fl in r.get("fields", []) if fl.get("t", "").replace("union ", "").strip() == ty]


def _arg_is(a, pname, fields, addr=True):
    a = ir.strip(a)
    if addr:
        if not (isinstance(a, dict) and a.get("k") == "addr"):
            return False
        a = ir.strip(a["e"])
    if not (isinstance(a, dict) and a.get("k") == "mem" and a.get("f") in fields):
        return False
    b = ir.strip(a["b"])
    return isinstance(b, dict) and b.get("k") == "var" and b.get("n") == pname


def _calls(s, name):
    return [c for c in ir.calls_in(s) if c.get("fn") == name]


def _posix_failure_edge(fn, blk, succ, callname):
    """edge taken when `<callname>(..)` answered non-zero (CHECK_POSIX / if-form)"""
    c = blk.cond_node()
    if c is None or not any(x.get("fn") == callname for x in ir.calls_in(c)):
        return False
    n = ir.strip(c)
    neg = False
    while isinstance(n, dict) and n.get("k") == "un" and n.get("op") == "!":
        neg = not neg
        n = ir.strip(n["e"])
    # forms: (e = call()) != 0 ; call() != 0 ; call() ; 0 == call()
    fail_when_true = True
    if isinstance(n, dict) and n.get("k") == "bin" and n.get("op") in ("==", "!="):
        fail_when_true = n["op"] == "!="
    elif isinstance(n, dict) and n.get("k") == "asg":
        # (ecode_ = call() != 0): clang parses as ecode_ = (call() != 0)
        r = ir.strip(n.get("r") or n.get("rhs") or {})
        if isinstance(r, dict) and r.get("k") == "bin" and r.get("op") in ("==", "!="):
            fail_when_true = r["op"] == "!="
    if neg:
        fail_when_true = not fail_when_true
    return succ.get("label") == ("true" if fail_when_true else "false")


def rule_forward(prog, res):
    n = 0
    for wname, (prim, roles) in sorted(FORWARD.items()):
        f = prog.func(wname, required=False)
        if f is None:
            raise AnalysisBroken("platform wrapper %s not found" % wname)
        res.touched(f)
        want = []
        for rec, ty in roles:
            p = _param_of(f, rec)
            flds = _fields_of_type(prog, rec, ty)
            if p is None or not flds:
                raise AnalysisBroken("%s: no parameter of type struct %s with an embedded %s" % (wname, rec, ty))
            want.append((p, flds))

        def pred(s):
            for c in _calls(s, prim):
                if len(c["args"]) >= len(want) and all(_arg_is(c["args"][i], p, fl) for i, (p, fl) in enumerate(want)):
                    return True
            return False
        inst = "%s -> %s(%s)" % (wname, prim, ", ".join("&%s->%s" % (p, fl[0]) for p, fl in want))
        ok, path = paths.all_paths_pass(f, "entry", "exit", pred)
        n += 1
        if ok:
            res.oblige(RULE, "FORWARD " + inst, True, "every path from entry to exit performs the call", f.loc())
        else:
            others = sorted({c.get("fn") for b, i, s in f.all_stmts() for c in ir.calls_in(s)
                             if (c.get("fn") or "").startswith("pthread_")})
            res.fail(RULE, "FORWARD " + inst, "%s|FORWARD|%s" % (RULE, wname), f.loc(),
                     "%s has a path to its exit that does not call %s on the object embedded in its own parameter(s) "
                     "(pthread calls present: %s): every lock / wake-up argument made about its callers is void"
                     % (wname, prim, others or "none"), {"path_blocks": path})
    return n


def rule_thread(prog, la, res):
    from . import lockrules as LR
    tj = prog.func("thread_join", required=False)
    tc = prog.func("thread_create", required=False)
    if tj is None or tc is None:
        raise AnalysisBroken("thread_create / thread_join not found")
    res.touched(tj, tc)
    rec = prog.record("thread")
    mutexes = _fields_of_type(prog, "thread", "pthread_mutex_t")
    cp0 = _param_of(tc, "thread")
    # the handle is the member whose address pthread_create receives
    handles = []
    for b, i, s in tc.all_stmts():
        for c in _calls(s, "pthread_create"):
            a0 = ir.strip(c["args"][0]) if c["args"] else None
            if isinstance(a0, dict) and a0.get("k") == "addr":
                m = ir.strip(a0["e"])
                if isinstance(m, dict) and m.get("k") == "mem" and ir.strip(m["b"]).get("n") == cp0:
                    handles.append(m["f"])
    if not handles or not mutexes:
        raise AnalysisBroken("struct thread: cannot identify the pthread handle / mutex members")
    live = [fl["n"] for fl in rec.get("fields", []) if fl["n"] not in handles + mutexes]
    sp = _param_of(tj, "thread")

    def reads_live(n):
        return any(isinstance(x, dict) and x.get("k") == "mem" and x.get("f") in live for x in ir.walk(n))

    # JOIN: pthread_join(self->handle, ..) unless the not-live edge was taken
    def is_join(s):
        return any(_arg_is(c["args"][0], sp, handles, addr=False) for c in _calls(s, "pthread_join") if c["args"])

    def notlive_edge(blk, succ):
        c = blk.cond_node()
        if c is None or not reads_live(c):
            return False
        n = ir.strip(c)
        neg = False
        while isinstance(n, dict) and n.get("k") == "un" and n.get("op") == "!":
            neg = not neg
            n = ir.strip(n["e"])
        if isinstance(n, dict) and n.get("k") == "bin" and n.get("op") in ("==", "!=") and \
                (ir.is_const(n["l"], 0) or ir.is_const(n["r"], 0)):
            neg = neg != (n["op"] == "==")
        elif isinstance(n, dict) and n.get("k") == "bin":
            return False
        return succ.get("label") == ("true" if neg else "false")
    ok, path = paths.all_paths_pass(tj, "entry", "exit", is_join, edge_ok=notlive_edge)
    inst = "JOIN thread_join -> pthread_join(%s->%s)" % (sp, handles[0])
    if ok:
        res.oblige(RULE, inst, True, "every path on which the handle is marked live joins it", tj.loc())
    else:
        res.fail(RULE, inst, "%s|JOIN|no-join" % RULE, tj.loc(),
                 "thread_join can return without pthread_join of the stored handle although the handle is marked live: "
                 "stop / abort / shutdown return while the worker still runs", {"path_blocks": path})
    joins = paths.find(tj, is_join)
    if not joins:
        if ok:
            raise AnalysisBroken("thread_join: no pthread_join call found")
    for (b, i, s) in joins:
        def clears(st):
            return any(lv.get("k") == "mem" and lv.get("f") in live and op == "=" and ir.is_const(rhs, 0)
                       for lv, op, rhs, w in ir.writes_of(st))
        ok2, path2 = paths.all_paths_pass(tj, (b, i), "exit", clears,
                                          edge_ok=lambda blk, succ: _posix_failure_edge(tj, blk, succ, "pthread_join"))
        inst2 = "JOIN joined handle is marked not live"
        if ok2:
            res.oblige(RULE, inst2, True, "every path after a successful join clears the mark", tj.loc(s))
        else:
            res.fail(RULE, inst2, "%s|JOIN|mark-not-cleared" % RULE, tj.loc(s),
                     "after a successful pthread_join a path leaves thread_join with the handle still marked live: "
                     "the next thread_join joins a handle that was already joined (blocks for ever / undefined)",
                     {"path_blocks": path2})
    # CREATE
    cp = _param_of(tc, "thread")
    others = [p["n"] for p in tc.params if p["n"] != cp]
    creates = []
    for b, i, s in tc.all_stmts():
        for c in _calls(s, "pthread_create"):
            creates.append((b.id, i, s, c))
    if not creates:
        raise AnalysisBroken("thread_create: no pthread_create call")
    for (b, i, s, c) in creates:
        a = c["args"]
        okargs = len(a) >= 4 and _arg_is(a[0], cp, handles)

        def names_in(n):
            return {x.get("n") for x in ir.walk(n) if isinstance(x, dict) and x.get("k") == "var"}
        okargs = okargs and len(others) >= 2 and others[0] in names_in(a[2]) and others[1] in names_in(a[3]) \
            and others[1] not in names_in(a[2]) and others[0] not in names_in(a[3])
        inst3 = "CREATE pthread_create(&%s->%s, _, proc, args)" % (cp, handles[0])
        if okargs:
            res.oblige(RULE, inst3, True, "handle, procedure and argument are the caller's", tc.loc(s))
        else:
            res.fail(RULE, inst3, "%s|CREATE|args" % RULE, tc.loc(s),
                     "thread_create does not hand its own handle / the caller's procedure and argument to pthread_create: %s"
                     % ir.render(c))

        def sets_live(st):
            return any(lv.get("k") == "mem" and lv.get("f") in live and op == "=" and isinstance(ir.strip(rhs), dict)
                       and ir.strip(rhs).get("k") == "int" and ir.strip(rhs).get("v") != 0
                       for lv, op, rhs, w in ir.writes_of(st))

        def clears_live(st):
            return any(lv.get("k") == "mem" and lv.get("f") in live and op == "=" and ir.is_const(rhs, 0)
                       for lv, op, rhs, w in ir.writes_of(st))
        # success path: some store live=1 dominates or follows the create and no clear follows it
        fail_edge = lambda blk, succ: _posix_failure_edge(tc, blk, succ, "pthread_create")
        ok_edge = lambda blk, succ: (blk.cond_node() is not None and
                                     any(x.get("fn") == "pthread_create" for x in ir.calls_in(blk.cond_node())) and
                                     not _posix_failure_edge(tc, blk, succ, "pthread_create"))
        before, _ = paths.all_paths_pass(tc, "entry", {(b, i)}, sets_live)
        after, _ = paths.all_paths_pass(tc, (b, i), "exit", sets_live, edge_ok=fail_edge)
        cleared_after_ok = False
        # a clear reachable on the success side (removing failure edges)
        seen = set()
        stack = [(b, i + 1)]
        while stack:
            bb, st0 = stack.pop()
            blk = tc.blocks[bb]
            for j in range(st0, len(blk.stmts)):
                if clears_live(blk.stmts[j]):
                    cleared_after_ok = True
            for su in blk.succs:
                if su.get("to") is None or fail_edge(blk, su) or su["to"] in seen:
                    continue
                seen.add(su["to"])
                stack.append((su["to"], 0))
        inst4 = "CREATE created handle is marked live"
        if (before or after) and not cleared_after_ok:
            res.oblige(RULE, inst4, True, "the mark is set on every path on which pthread_create succeeded and not cleared there", tc.loc(s))
        else:
            res.fail(RULE, inst4, "%s|CREATE|mark-not-set" % RULE, tc.loc(s),
                     "a path on which pthread_create succeeded leaves thread_create with the handle not marked live: "
                     "thread_join then skips the join and stop returns while the worker runs")
        okf, pathf = paths.all_paths_pass(tc, (b, i), "exit", clears_live, edge_ok=ok_edge)
        inst5 = "CREATE failed creation is marked not live"
        if okf:
            res.oblige(RULE, inst5, True, "the failure edge of pthread_create clears the mark", tc.loc(s))
        else:
            res.fail(RULE, inst5, "%s|CREATE|failed-marked-live" % RULE, tc.loc(s),
                     "when pthread_create fails thread_create leaves the handle marked live: thread_join joins a handle that was never created",
                     {"path_blocks": pathf})
    _pair(prog, res, tj, sp, mutexes)
    _pair(prog, res, tc, cp, mutexes)


def _pair(prog, res, f, pname, mutexes):
    """the object's own mutex: every path from each lock call to the exit unlocks it,
    and nothing reads/writes the other members before the lock call.  The failure
    edge of a pthread primitive (EINVAL / EDEADLK: the OS contract is broken) discharges."""
    def is_lock(s):
        return any(c["args"] and _arg_is(c["args"][0], pname, mutexes) for c in _calls(s, "pthread_mutex_lock"))

    def is_unlock(s):
        return any(c["args"] and _arg_is(c["args"][0], pname, mutexes) for c in _calls(s, "pthread_mutex_unlock"))

    def prim_fail(blk, succ):
        c = blk.cond_node()
        if c is None:
            return False
        for x in ir.calls_in(c):
            if (x.get("fn") or "").startswith("pthread_") and _posix_failure_edge(f, blk, succ, x["fn"]):
                return x["fn"] in ("pthread_mutex_lock", "pthread_cond_wait", "pthread_mutex_unlock", "pthread_cond_broadcast")
        return False
    locks = paths.find(f, is_lock)
    inst = "PAIR %s: own mutex released on every exit" % f.name
    if not locks:
        res.fail(RULE, inst, "%s|PAIR|%s|no-lock" % (RULE, f.name), f.loc(),
                 "%s no longer takes the object's own mutex" % f.name)
        return
    bad = None
    for (b, i, s) in locks:
        ok, path = paths.all_paths_pass(f, (b, i), "exit", is_unlock, edge_ok=prim_fail)
        if not ok:
            bad = (s, path)
    if bad:
        res.fail(RULE, inst, "%s|PAIR|%s|leak" % (RULE, f.name), f.loc(bad[0]),
                 "%s has a path from taking the object's mutex to its exit that does not release it: the next call on that object blocks for ever" % f.name,
                 {"path_blocks": bad[1]})
    else:
        res.oblige(RULE, inst, True, "%d lock site(s); failure edges of the pthread primitives themselves are not followed" % len(locks), f.loc())
    # members touched only between lock and unlock
    first = locks[0]
    okb = True
    for b, i, s in f.all_stmts():
        touches = any(isinstance(x, dict) and x.get("k") == "mem" and x.get("f") not in mutexes and
                      isinstance(ir.strip(x["b"]), dict) and ir.strip(x["b"]).get("n") == pname for x in ir.walk(s))
        if not touches or is_lock(s) or is_unlock(s):
            continue
        dom, _ = paths.all_paths_pass(f, "entry", {(b.id, i)}, is_lock)
        if not dom:
            okb = False
            res.fail(RULE, "PAIR %s: members accessed under the mutex" % f.name, "%s|PAIR|%s|unlocked-access" % (RULE, f.name), f.loc(s),
                     "%s touches a member of the object before taking the object's mutex: %s" % (f.name, ir.render(s)))
    if okb:
        res.oblige(RULE, "PAIR %s: members accessed under the mutex" % f.name, True, "", f.loc())


def rule_event(prog, la, res):
    from . import lockrules as LR
    ew = prog.func("event_wait", required=False)
    en = prog.func("event_notify_all", required=False)
    if ew is None or en is None:
        raise AnalysisBroken("event_wait / event_notify_all not found")
    res.touched(ew, en)
    mutexes = _fields_of_type(prog, "event", "pthread_mutex_t")
    _pair(prog, res, ew, _param_of(ew, "event"), mutexes)
    _pair(prog, res, en, _param_of(en, "event"), mutexes)

    def whole_object_init(g, a):
        if a.key[1] == "*" or a.key[1] == "":
            return "whole-object initialisation (constructor)"
        return None
    sites = [s for s in la.wait_sites() if s["fn"].name == "event_wait"]
    if not sites:
        res.fail(RULE, "EVENT wait site", "%s|EVENT|no-wait" % RULE, ew.loc(),
                 "event_wait no longer waits on the event's condition variable")
        return
    for site in sites:
        if not site["reads"]:
            LR.rule_l_recheck(la, res, site, rule=RULE)
            continue
        LR.rule_l_recheck(la, res, site, rule=RULE)
        LR.rule_l_cv(la, res, site, rule=RULE, exempt=whole_object_init)
        n = LR.rule_l_notify(la, res, en, site["cv"], site["reads"], rule=RULE)
        if n == 0:
            res.fail(RULE, "EVENT notify sets the flag", "%s|EVENT|no-store" % RULE, en.loc(),
                     "event_notify_all does not store the flag event_wait waits for")


def run_all(prog, la, res, thread=True, event=True):
    res.guard(rule_forward, prog, res)
    if thread:
        res.guard(rule_thread, prog, la, res)
    if event:
        res.guard(rule_event, prog, la, res)
