"""Symbolic regions.  Pointer / size expressions of a consumer function are
evaluated to terms over the two ends of the region a channel_read_map call
returned: ("map", call, "beg"), ("map", call, "end"), differences of terms,
and opaque leaves.  Local records (struct slice, struct vfslice, the frame
iterator) are followed field by field through their unique reaching
definition; small side-effect-free helpers (make_vfslice, slice_size_bytes,
vfslice_split_at_delay_ms, frame_iterator_init) are evaluated with their
parameters bound to the caller's terms, so the rules judge which bytes are
processed and released, not how the code spells it."""
from . import ir

MAP_FNS = {"channel_read_map"}
TOP = ("?",)


def is_top(t):
    return not isinstance(t, tuple) or t[0] == "?"


def stmt_pos(f, stmt):
    for b, i, s in f.all_stmts():
        if s is stmt:
            return (b.id, i)
    return None


def reaching_def_pos(f, pos, varid):
    """(rhs, position) of the unique whole-variable definition of local
    `varid` reaching pos, else None."""
    bid, idx = pos
    found = []
    seen = set()
    st = [(bid, idx)]
    preds = f.preds()
    while st:
        b, i = st.pop()
        blk = f.blocks[b]
        hit = False
        for j in range(min(i, len(blk.stmts)) - 1, -1, -1):
            for lv, op, rhs, w in ir.writes_of(blk.stmts[j]):
                if lv.get("k") == "var" and lv["id"] == varid:
                    found.append((rhs if op == "=" else None, (b, j)))
                    hit = True
            if hit:
                break
        if hit:
            continue
        for p in preds.get(b, []):
            if p not in seen:
                seen.add(p)
                st.append((p, len(f.blocks[p].stmts)))
    if len(found) == 1 and found[0][0] is not None:
        return found[0]
    return None


def _const_pointee(p):
    t = p.get("t", "")
    star = t.rfind("*")
    return star >= 0 and "const" in t[:star]


class Regions:
    def __init__(self, prog):
        self.prog = prog
        self._wp = {}
        self.dirty_ok = False  # evaluate a local record at its initialisation, whoever advances it later

    # -- does g write through (or let escape) its pointer parameter k? ------
    def writes_through(self, g, k, depth=0):
        key = (g.name, g.file, k)
        if key in self._wp:
            return self._wp[key]
        self._wp[key] = True  # recursion: pessimistic
        p = g.params[k]
        res = False
        if not _const_pointee(p):
            for b, i, s in g.all_stmts():
                for lv, op, rhs, w in ir.writes_of(s):
                    root, ch = ir.field_chain(lv)
                    if lv.get("k") != "var" and isinstance(root, dict) and root.get("k") == "var" and root.get("id") == p["id"]:
                        res = True
                    # the pointer itself stored somewhere: escapes
                    r0 = ir.strip(rhs) if isinstance(rhs, dict) else None
                    if isinstance(r0, dict) and r0.get("k") == "var" and r0.get("id") == p["id"]:
                        res = True
                for c in ir.calls_in(s):
                    for j, a in enumerate(c.get("args", [])):
                        a0 = ir.strip(a)
                        if isinstance(a0, dict) and a0.get("k") == "var" and a0.get("id") == p["id"]:
                            h = self.prog.resolve(c["fn"], g) if c.get("fn") else None
                            if h is None or j >= len(h.params) or depth > 3 or self.writes_through(h, j, depth + 1):
                                res = True
        self._wp[key] = res
        return res

    def clean_local(self, f, varid):
        """A local record that is only ever assigned as a whole and whose
        address is only given to callees that do not write through it."""
        for b, i, s in f.all_stmts():
            for lv, op, rhs, w in ir.writes_of(s):
                root, ch = ir.field_chain(lv)
                if lv.get("k") != "var" and isinstance(root, dict) and root.get("k") == "var" and root.get("id") == varid and "p" not in root:
                    return False
            for c in ir.calls_in(s):
                for j, a in enumerate(c.get("args", [])):
                    a0 = ir.strip(a)
                    if isinstance(a0, dict) and a0.get("k") == "addr":
                        v = ir.strip(a0["e"])
                        if isinstance(v, dict) and v.get("k") == "var" and v.get("id") == varid:
                            h = self.prog.resolve(c["fn"], f) if c.get("fn") else None
                            if h is None or j >= len(h.params) or self.writes_through(h, j):
                                return False
        return True

    def pure(self, g):
        if len(g.blocks) > 14:
            return False
        for k, p in enumerate(g.params):
            if p.get("pd") and self.writes_through(g, k):
                return False
        for b, i, s in g.all_stmts():
            for lv, op, rhs, w in ir.writes_of(s):
                root, ch = ir.field_chain(lv)
                if isinstance(root, dict) and root.get("k") == "gvar":
                    return False
        return True

    def _bind(self, f, pos, g, args, env, depth):
        genv = {}
        for k, p in enumerate(g.params):
            if k >= len(args):
                break
            a = args[k]
            ent = {}
            if p.get("r") and not p.get("pd"):
                ent["r"] = self.rec(f, pos, a, env, depth + 1)
            else:
                if p.get("r") and p.get("pd"):
                    ent["p"] = self.ptr(f, pos, a, env, depth + 1)
                ent["t"] = self.term(f, pos, a, env, depth + 1)
            genv[p["id"]] = ent
        return genv

    def _returns(self, g):
        return [(s, (b.id, i)) for b, i, s in g.all_stmts() if s.get("k") == "ret" and "e" in s]

    # -- scalar / pointer terms -------------------------------------------
    def term(self, f, pos, e, env=None, depth=0):
        env = env or {}
        e = ir.strip(e)
        if not isinstance(e, dict) or depth > 24:
            return TOP
        k = e.get("k")
        if k == "int":
            return ("c", e.get("v"))
        if k == "paren":
            return self.term(f, pos, e["e"], env, depth + 1)
        if k == "var":
            if e["id"] in env:
                val = env[e["id"]].get("t")
                return val if val is not None else ("?", "param", e["id"])
            if "p" in e:
                return ("param", f.name, e["id"])
            if pos is not None:
                d = reaching_def_pos(f, pos, e["id"])
                if d is not None:
                    return self.term(f, d[1], d[0], env, depth + 1)
            return ("var", f.name, e["id"])
        if k == "ref":
            tgt = f.resolve_ref(e)
            if tgt is None or tgt.get("k") in ("decl", "ret"):
                return ("?", "ref", e.get("b"), e.get("i"))
            return self.term(f, stmt_pos(f, tgt) or pos, tgt, env, depth + 1)
        if k == "asg":
            if e["op"] == "=":
                return self.term(f, pos, e["r"], env, depth + 1)
            return ("?", "asg", id(e))
        if k == "mem":
            r = self.ptr(f, pos, e["b"], env, depth + 1) if e.get("arrow") else self.rec(f, pos, e["b"], env, depth + 1)
            if isinstance(r, dict):
                v = r.get(e["f"], ("c", 0) if r.get("__complete__") else None)
                if isinstance(v, tuple):
                    return v
            return ("?", "mem", ir.render(e))
        if k == "bin":
            a = self.term(f, pos, e["l"], env, depth + 1)
            b = self.term(f, pos, e["r"], env, depth + 1)
            if e["op"] == "-":
                return ("sub", a, b)
            if e["op"] == "+":
                return ("add", a, b)
            return ("op", e["op"], a, b)
        if k == "cond":
            return ("choice", frozenset([self.term(f, pos, e["t"], env, depth + 1),
                                         self.term(f, pos, e["f"], env, depth + 1)]))
        if k == "call" and e.get("fn") and e["fn"] not in MAP_FNS:
            g = self.prog.resolve(e["fn"], f)
            if g is not None and g is not f and self.pure(g):
                rets = self._returns(g)
                if rets:
                    genv = self._bind(f, pos, g, e.get("args", []), env, depth)
                    vals = {self.term(g, rp, rs["e"], genv, depth + 1) for rs, rp in rets}
                    if len(vals) == 1:
                        return vals.pop()
                    return ("choice", frozenset(vals))
            return ("call", e["fn"], id(e))
        return ("?", k, id(e))

    # -- records ---------------------------------------------------------------
    def rec(self, f, pos, e, env=None, depth=0):
        env = env or {}
        e = ir.strip(e)
        if not isinstance(e, dict) or depth > 24:
            return None
        k = e.get("k")
        if k == "paren":
            return self.rec(f, pos, e["e"], env, depth + 1)
        if k == "var":
            if e["id"] in env:
                return env[e["id"]].get("r")
            if "p" in e or pos is None or not (self.dirty_ok or self.clean_local(f, e["id"])):
                return None
            d = reaching_def_pos(f, pos, e["id"])
            if d is None:
                return None
            return self.rec(f, d[1], d[0], env, depth + 1)
        if k == "deref":
            return self.ptr(f, pos, e["e"], env, depth + 1)
        if k == "ref":
            tgt = f.resolve_ref(e)
            if tgt is None or tgt.get("k") in ("decl", "ret"):
                return None
            return self.rec(f, stmt_pos(f, tgt) or pos, tgt, env, depth + 1)
        if k == "asg" and e["op"] == "=":
            return self.rec(f, pos, e["r"], env, depth + 1)
        if k == "mem":
            r = self.ptr(f, pos, e["b"], env, depth + 1) if e.get("arrow") else self.rec(f, pos, e["b"], env, depth + 1)
            if isinstance(r, dict) and isinstance(r.get(e["f"]), dict):
                return r[e["f"]]
            return None
        if k == "init":
            out = {"__complete__": True}
            for el in e.get("elts", []):
                if "f" not in el:
                    return None
                v = el["v"]
                v0 = ir.strip(v)
                is_rec = isinstance(v0, dict) and v0.get("r") and not v0.get("pd") and v0.get("k") in ("var", "deref", "call", "init", "mem", "ref")
                sub = self.rec(f, pos, v, env, depth + 1) if is_rec else None
                out[el["f"]] = sub if isinstance(sub, dict) else self.term(f, pos, v, env, depth + 1)
            return out
        if k == "call" and e.get("fn"):
            if e["fn"] in MAP_FNS:
                return {"beg": ("map", id(e), "beg"), "end": ("map", id(e), "end"), "__map__": e}
            g = self.prog.resolve(e["fn"], f)
            if g is not None and g is not f and self.pure(g):
                rets = self._returns(g)
                if not rets:
                    return None
                genv = self._bind(f, pos, g, e.get("args", []), env, depth)
                recs = [self.rec(g, rp, rs["e"], genv, depth + 1) for rs, rp in rets]
                if any(not isinstance(r, dict) for r in recs):
                    return None
                inner = set()
                for b_, i_, s_ in g.all_stmts():
                    for c_ in ir.calls_in(s_):
                        if c_.get("fn") in MAP_FNS:
                            inner.add(id(c_))
                if inner:
                    # a helper that maps: the mapping is identified by this
                    # call of the helper, not by the call inside it
                    recs = [self._rename(r, inner, id(e)) for r in recs]
                if len(recs) == 1:
                    return recs[0]
                out = {}
                for fld in set().union(*[set(r) for r in recs]):
                    if fld.startswith("__"):
                        continue
                    vals = [r.get(fld, ("c", 0)) for r in recs]
                    if any(isinstance(v, dict) for v in vals):
                        out[fld] = vals[0] if all(v == vals[0] for v in vals) else TOP
                    else:
                        s = set(vals)
                        out[fld] = vals[0] if len(s) == 1 else ("choice", frozenset(s))
                return out
        return None

    def _rename(self, x, inner, outer):
        if isinstance(x, dict):
            return {k: (v if k.startswith("__") else self._rename(v, inner, outer)) for k, v in x.items()}
        if isinstance(x, frozenset):
            return frozenset(self._rename(y, inner, outer) for y in x)
        if isinstance(x, tuple):
            if len(x) == 3 and x[0] == "map" and x[1] in inner:
                return ("map", outer, x[2])
            return tuple(self._rename(y, inner, outer) for y in x)
        return x

    def ptr(self, f, pos, e, env=None, depth=0):
        """The record a pointer expression points to."""
        env = env or {}
        e = ir.strip(e)
        if not isinstance(e, dict) or depth > 24:
            return None
        k = e.get("k")
        if k == "paren":
            return self.ptr(f, pos, e["e"], env, depth + 1)
        if k == "addr":
            return self.rec(f, pos, e["e"], env, depth + 1)
        if k == "var":
            if e["id"] in env:
                return env[e["id"]].get("p")
            if "p" in e or pos is None:
                return None
            d = reaching_def_pos(f, pos, e["id"])
            if d is not None:
                return self.ptr(f, d[1], d[0], env, depth + 1)
        return None

    def map_of(self, t):
        """The map call ids a term mentions."""
        out = set()

        def go(x):
            if isinstance(x, tuple):
                if x and x[0] == "map":
                    out.add(x[1])
                for y in x:
                    go(y)
            elif isinstance(x, frozenset):
                for y in x:
                    go(y)
        go(t)
        return out


def show(t, names=None):
    names = names or {}
    if not isinstance(t, tuple):
        return str(t)
    if t[0] == "map":
        return "%s.%s" % (names.get(t[1], "map"), t[2])
    if t[0] == "sub":
        return "(%s - %s)" % (show(t[1], names), show(t[2], names))
    if t[0] == "add":
        return "(%s + %s)" % (show(t[1], names), show(t[2], names))
    if t[0] == "c":
        return str(t[1])
    if t[0] == "choice":
        return "one-of{%s}" % ", ".join(sorted(show(x, names) for x in t[1]))
    if t[0] in ("var", "param"):
        return "%s:%s" % (t[1], t[2])
    if t[0] == "call":
        return "%s()" % t[1]
    return "?"
