"""Congruence abstract domain (Granger) on the defining-expression DAG of a
value: abstract value (m, r) meaning  v = r (mod m) ; m == 0 means the exact
constant r; (1, 0) is 'any integer'."""
from math import gcd
from . import ir

TOPC = (1, 0)


def norm(m, r):
    m = abs(m)
    if m == 0:
        return (0, r)
    return (m, r % m)


def add(a, b):
    if a[0] == 0 and b[0] == 0:
        return (0, a[1] + b[1])
    m = gcd(a[0], b[0])
    return norm(m, a[1] + b[1])


def mul(a, b):
    if a[0] == 0 and b[0] == 0:
        return (0, a[1] * b[1])
    # (m1 k + r1)(m2 j + r2) = r1 r2 (mod gcd(m1 m2, m1 r2, m2 r1))
    m = gcd(gcd(a[0] * b[0], a[0] * b[1]), b[0] * a[1])
    return norm(m, a[1] * b[1])


def single_defs(fn):
    """var id -> defining expression, for locals assigned exactly once."""
    defs = {}
    count = {}
    for b, i, s in fn.all_stmts():
        for lv, op, rhs, whole in ir.writes_of(s):
            if lv.get("k") == "var":
                count[lv["id"]] = count.get(lv["id"], 0) + 1
                defs[lv["id"]] = rhs if op == "=" else None
    return {k: v for k, v in defs.items() if count[k] == 1 and v is not None}


def congruence(n, defs, depth=0):
    n = ir.strip(n)
    if not isinstance(n, dict) or depth > 12:
        return TOPC
    k = n.get("k")
    if k == "int":
        return (0, n["v"])
    if k == "var":
        d = defs.get(n["id"])
        return congruence(d, defs, depth + 1) if d is not None else TOPC
    if k == "bin":
        op = n["op"]
        a = congruence(n["l"], defs, depth + 1)
        b = congruence(n["r"], defs, depth + 1)
        if op == "+":
            return add(a, b)
        if op == "-":
            return add(a, mul((0, -1), b))
        if op == "*":
            return mul(a, b)
        if op == "<<" and b[0] == 0 and 0 <= b[1] < 63:
            return mul(a, (0, 1 << b[1]))
        if op == "&" and b[0] == 0:
            # e & ~(2^k - 1): multiple of 2^k
            mask = b[1] & 0xFFFFFFFFFFFFFFFF
            low = 0
            while low < 63 and not (mask >> low) & 1:
                low += 1
            if low:
                return (1 << low, 0)
        if op == "&" and a[0] == 0:
            return congruence({"k": "bin", "op": "&", "l": n["r"], "r": n["l"]}, defs, depth + 1)
        if op in ("/", ">>"):
            if a[0] == 0 and b[0] == 0 and b[1] != 0:
                return (0, a[1] // b[1] if op == "/" else a[1] >> b[1])
            return TOPC
    return TOPC


KEEP_CALLS = {"bytes_of_image", "bytes_of_type", "aligned_bytes_of_image"}


def inline_expr(prog, f, n, depth=0, env=None, defs=None, ptrs=False):
    """A copy of expression n in which single-definition locals are replaced
    by their defining expressions and calls to small repository functions
    (exactly one return statement) are replaced by the returned expression with
    the parameters substituted.  Used so that rules judge the value computed,
    not the shape of the code computing it."""
    if defs is None:
        defs = single_defs(f)
    env = env or {}
    if not isinstance(n, dict) or depth > 10:
        return n
    k = n.get("k")
    if k == "var":
        if n["id"] in env:
            return env[n["id"]]
        if "p" not in n and n["id"] in defs and ((not n.get("r") and not n.get("pd")) or (ptrs and n.get("pd"))):
            return inline_expr(prog, f, defs[n["id"]], depth + 1, env, defs, ptrs)
        return n
    if k == "ref":
        tgt = f.resolve_ref(n)
        if tgt is not None and tgt.get("k") not in ("decl", "ret"):
            return inline_expr(prog, f, tgt, depth + 1, env, defs, ptrs)
        return n
    if k == "call" and n.get("fn") and n["fn"] not in KEEP_CALLS:
        g = prog.resolve(n["fn"], f)
        if g is not None and g is not f:
            rets = [s for b, i, s in g.all_stmts() if s.get("k") == "ret" and "e" in s]
            writes_mem = any(lv.get("k") != "var" for b, i, s in g.all_stmts()
                             for lv, op, rhs, w in ir.writes_of(s))
            if len(rets) == 1 and not writes_mem and len(g.blocks) <= 6:
                args = [inline_expr(prog, f, a, depth + 1, env, defs, ptrs) for a in n.get("args", [])]
                genv = {p["id"]: args[i] for i, p in enumerate(g.params) if i < len(args)}
                return inline_expr(prog, g, rets[0]["e"], depth + 1, genv, single_defs(g), ptrs)
    out = dict(n)
    for key in ("l", "r", "e", "b", "i", "c", "t", "f"):
        if isinstance(n.get(key), dict):
            out[key] = inline_expr(prog, f, n[key], depth + 1, env, defs, ptrs)
    if "args" in n:
        out["args"] = [inline_expr(prog, f, a, depth + 1, env, defs, ptrs) for a in n["args"]]
    return out


def reaching_def(f, pos, varid):
    """The unique definition (rhs expression) of local `varid` that reaches
    position pos=(block, idx), or None if there are several / none."""
    bid, idx = pos
    found = []
    seen = set()
    st = [(bid, idx)]
    preds = f.preds()
    while st:
        b, i = st.pop()
        blk = f.blocks[b]
        hit = False
        for j in range(min(i, len(blk.stmts)) - 1, -1, -1):
            for lv, op, rhs, w in ir.writes_of(blk.stmts[j]):
                if lv.get("k") == "var" and lv["id"] == varid:
                    found.append(rhs if op == "=" else None)
                    hit = True
            if hit:
                break
        if hit:
            continue
        for p in preds.get(b, []):
            if p not in seen:
                seen.add(p)
                st.append((p, len(f.blocks[p].stmts)))
    if len(found) == 1 and found[0] is not None:
        return found[0]
    return None


def resolve_at(prog, f, pos, n, depth=0):
    """Replace local variables in n by their unique reaching definition at pos."""
    if not isinstance(n, dict) or depth > 6:
        return n
    if n.get("k") == "var" and "p" not in n and not n.get("r"):
        d = reaching_def(f, pos, n["id"])
        if d is not None:
            return resolve_at(prog, f, pos, d, depth + 1)
        return n
    out = dict(n)
    for key in ("l", "r", "e", "b", "i", "c", "t", "f"):
        if isinstance(n.get(key), dict):
            out[key] = resolve_at(prog, f, pos, n[key], depth + 1)
    if "args" in n:
        out["args"] = [resolve_at(prog, f, pos, a, depth + 1) for a in n["args"]]
    return out


# ---------------------------------------------------------------------------
def lower_bound(n, depth=0):
    """A linear lower bound of a non-negative integer expression, as
    ({atom: Fraction}, Fraction): the expression is >= sum(coef*atom) + const
    for every value of the atoms (atoms are rendered sub-expressions, assumed
    non-negative).  floor(x / c) >= (x - (c-1)) / c  is what makes round-up
    idioms  c*((x + c-1)/c),  ((x + 2^k-1) >> k) << k,  (x + c-1) & ~(c-1)
    come out >= x, and round-down ones  c*(x/c)  come out as x - (c-1)."""
    from fractions import Fraction as Fr
    n = ir.strip(n)
    if not isinstance(n, dict) or depth > 40:
        return ({}, Fr(0))
    k = n.get("k")
    if k == "paren":
        return lower_bound(n["e"], depth + 1)
    if k == "int":
        return ({}, Fr(n.get("v", 0)))

    def atom(x):
        return ({ir.render(x): Fr(1)}, Fr(0))

    def add(a, b, sb=1):
        out = dict(a[0])
        for kk, v in b[0].items():
            out[kk] = out.get(kk, 0) + sb * v
        return ({kk: v for kk, v in out.items() if v != 0}, a[1] + sb * b[1])

    def scale(a, c):
        return ({kk: v * c for kk, v in a[0].items()}, a[1] * c)
    if k == "bin":
        op = n["op"]
        l, r = n["l"], n["r"]
        rc = ir.strip(r)
        lc = ir.strip(l)
        if op == "+":
            return add(lower_bound(l, depth + 1), lower_bound(r, depth + 1))
        if op == "*":
            if isinstance(lc, dict) and lc.get("k") == "int" and lc.get("v", -1) >= 0:
                return scale(lower_bound(r, depth + 1), Fr(lc["v"]))
            if isinstance(rc, dict) and rc.get("k") == "int" and rc.get("v", -1) >= 0:
                return scale(lower_bound(l, depth + 1), Fr(rc["v"]))
            return atom(n)
        if op == "/" and isinstance(rc, dict) and rc.get("k") == "int" and rc.get("v", 0) > 0:
            c = rc["v"]
            a = lower_bound(l, depth + 1)
            return scale((a[0], a[1] - (c - 1)), Fr(1, c))
        if op == ">>" and isinstance(rc, dict) and rc.get("k") == "int" and 0 <= rc.get("v", -1) < 63:
            c = 1 << rc["v"]
            a = lower_bound(l, depth + 1)
            return scale((a[0], a[1] - (c - 1)), Fr(1, c))
        if op == "<<" and isinstance(rc, dict) and rc.get("k") == "int" and 0 <= rc.get("v", -1) < 63:
            return scale(lower_bound(l, depth + 1), Fr(1 << rc["v"]))
        if op == "&":
            for x, y in ((lc, l), (rc, r)):
                pass
            m = None
            other = None
            for x, o in ((lc, r), (rc, l)):
                if isinstance(x, dict) and x.get("k") == "int":
                    m, other = x.get("v"), o
                if isinstance(x, dict) and x.get("k") == "un" and x.get("op") == "~":
                    inner = ir.strip(x["e"])
                    if isinstance(inner, dict) and inner.get("k") == "int":
                        m, other = ~inner["v"], o
            if m is not None and other is not None:
                low = (~m) & 0xFFFFFFFFFFFFFFFF
                # mask clears only a block of low bits: x & m >= x - low
                if low & (low + 1) == 0 and low < (1 << 32):
                    a = lower_bound(other, depth + 1)
                    return (a[0], a[1] - low)
            return ({}, Fr(0))
        if op == "-":
            # x - c : lower bound lb(x) - c ; x - y (y unknown): no bound
            if isinstance(rc, dict) and rc.get("k") == "int":
                a = lower_bound(l, depth + 1)
                return (a[0], a[1] - rc["v"])
            return ({}, Fr(0))
        return atom(n)
    if k == "cond":
        a = lower_bound(n["t"], depth + 1)
        b = lower_bound(n["f"], depth + 1)
        keys = set(a[0]) | set(b[0])
        return ({kk: min(a[0].get(kk, 0), b[0].get(kk, 0)) for kk in keys if min(a[0].get(kk, 0), b[0].get(kk, 0)) != 0}, min(a[1], b[1]))
    return atom(n)


def covers(expr, parts):
    """expr >= sum(parts) provably?  parts: expressions (atoms / constants)."""
    from fractions import Fraction as Fr
    lb = lower_bound(expr)
    need = ({}, Fr(0))
    for p in parts:
        q = lower_bound(p)
        for kk, v in q[0].items():
            need[0][kk] = need[0].get(kk, 0) + v
        need = (need[0], need[1] + q[1])
    for kk, v in need[0].items():
        if lb[0].get(kk, 0) < v:
            return False, lb
    return lb[1] >= need[1], lb


def upper_bound(n, depth=0):
    """A linear upper bound of a non-negative integer expression, as
    ({atom: Fraction}, Fraction) or None when none is known: floor(x / c) <= x / c,
    x >> k <= x / 2^k; sums, products with non-negative constants, shifts."""
    from fractions import Fraction as Fr
    n = ir.strip(n)
    if not isinstance(n, dict) or depth > 40:
        return None
    k = n.get("k")
    if k == "paren":
        return upper_bound(n["e"], depth + 1)
    if k == "int":
        return ({}, Fr(n.get("v", 0)))
    if k in ("var", "mem", "gvar"):
        return ({ir.render(n): Fr(1)}, Fr(0))

    def add(a, b):
        out = dict(a[0])
        for kk, v in b[0].items():
            out[kk] = out.get(kk, 0) + v
        return ({kk: v for kk, v in out.items() if v != 0}, a[1] + b[1])

    def scale(a, c):
        return ({kk: v * c for kk, v in a[0].items()}, a[1] * c)
    if k == "bin":
        op = n["op"]
        lc, rc = ir.strip(n["l"]), ir.strip(n["r"])
        if op == "+":
            a, b = upper_bound(lc, depth + 1), upper_bound(rc, depth + 1)
            return add(a, b) if a is not None and b is not None else None
        if op == "-" and isinstance(rc, dict) and rc.get("k") == "int":
            a = upper_bound(lc, depth + 1)
            return (a[0], a[1] - Fr(rc.get("v", 0))) if a is not None else None
        if op == "*":
            for c_, o in ((lc, rc), (rc, lc)):
                if isinstance(c_, dict) and c_.get("k") == "int" and c_.get("v", -1) >= 0:
                    a = upper_bound(o, depth + 1)
                    return scale(a, Fr(c_["v"])) if a is not None else None
            return None
        if op == "/" and isinstance(rc, dict) and rc.get("k") == "int" and rc.get("v", 0) > 0:
            a = upper_bound(lc, depth + 1)
            return scale(a, Fr(1, rc["v"])) if a is not None else None
        if op == ">>" and isinstance(rc, dict) and rc.get("k") == "int" and 0 <= rc.get("v", -1) < 63:
            a = upper_bound(lc, depth + 1)
            return scale(a, Fr(1, 1 << rc["v"])) if a is not None else None
        if op == "<<" and isinstance(rc, dict) and rc.get("k") == "int" and 0 <= rc.get("v", -1) < 63:
            a = upper_bound(lc, depth + 1)
            return scale(a, Fr(1 << rc["v"])) if a is not None else None
        if op == "&" :
            # x & mask <= x
            for c_, o in ((lc, rc), (rc, lc)):
                if isinstance(c_, dict) and (c_.get("k") == "int" or (c_.get("k") == "un" and c_.get("op") == "~")):
                    return upper_bound(o, depth + 1)
            return None
    return None
