"""API-level typestate simulation: the real acquire.c entry points
(acquire_init / configure / start / stop / abort / get_state / shutdown) with
the real controllers and HAL wrappers, abstract camera and storage drivers and
a sequential thread model: thread_create records a pending worker,
`run worker` and thread_join run its body to completion.  Every finite
sequence of API calls and worker schedulings (at function granularity) is
explored to a fixpoint of the abstract inter-call states.  Serves C06, C07,
C08 (thorough clauses over multi-acquisition histories)."""
from . import ir
from .tsim import Interp, State, Explorer, I, TOP, NZ, ZERO, is_ptr, is_int, canon
from .hal import HalModel
from .build import AnalysisBroken

WORKERS = {"video_source_thread": "source", "video_filter_thread": "filter", "video_sink_thread": "sink"}


class ApiModel:
    def __init__(self, prog):
        self.prog = prog
        self.cam = HalModel(prog, "Camera", ns=":cam", wellbehaved=True)
        self.sto = HalModel(prog, "Storage", ns=":sto", wellbehaved=True)
        self.kinds = dict(prog.enum_values("DeviceKind"))
        self.astatus = dict(prog.enum_values("AcquireStatusCode") or [])
        self.dstate = dict(prog.enum_values("DeviceState"))
        self.externals = set()

    def report(self, it, rule, what, msg):
        key = "%s|%s" % (rule, what)
        it.report(rule, key, msg, witness={"call_stack": list(it.stack),
                                            "sequence": list(getattr(it, "cur_witness", []))})

    # ------------------------------------------------------------------
    def stubs(self):
        st = {}
        st.update(self.cam.stubs())
        st.update(self.sto.stubs())

        def const(v):
            return lambda it, s, vals, fr, n: [(v, s)]

        def either(*vs):
            return lambda it, s, vals, fr, n: [(v, s) for v in vs]

        def malloc(it, s, vals, fr, n):
            s2, p = it.new_object(s, "malloc@%s" % fr.fn.name)
            return [(p, s2)]

        def free(it, s, vals, fr, n):
            return [(TOP, it.free_object(s, vals[0], "free"))]

        def memset(it, s, vals, fr, n):
            p = vals[0]
            if is_ptr(p):
                return [(p, it.fill(s, (p[1], p[2]), zero=(vals[1] == ZERO)))]
            return [(p, s)]

        def get_driver(it, s, vals, fr, n):
            ident = vals[1]
            if is_ptr(ident):
                k = it.read_quiet(s, (ident[1], ident[2] + ("kind",)))
                if k == I(self.kinds["DeviceKind_Camera"]):
                    return [(("ptr", self.cam.DRV, ()), s)]
                if k == I(self.kinds["DeviceKind_Storage"]):
                    return [(("ptr", self.sto.DRV, ()), s)]
            return [(ZERO, s)]

        def thread_create(it, s, vals, fr, n):
            t = vals[0]
            fn = vals[1]
            if is_ptr(t) and fn[0] == "fn":
                if s.get(("T", t[1], t[2])):
                    self.report(it, "API-THREAD", "double-create|%s" % fn[1],
                                "a worker (%s) is created while the previous one on the same thread object was never joined" % fn[1])
                s = s.set(("T", t[1], t[2]), (fn[1], vals[2]))
                if WORKERS.get(fn[1]) == "sink":
                    s = s.delete_where(lambda k: k == ("sinkdone",))
            return [(I(1), s)]

        def thread_join(it, s, vals, fr, n):
            t = vals[0]
            if not is_ptr(t):
                return [(TOP, s)]
            pend = s.get(("T", t[1], t[2]))
            if not pend:
                return [(TOP, s)]
            outs = []
            s = s.delete_where(lambda k: k == ("T", t[1], t[2]))
            g = self.prog.func(pend[0])
            # a worker body only sees the heap: memoise its outcomes per heap (the source worker joins the
            # filter worker on each of its many paths)
            def is_local(k):
                return isinstance(k[0], str) and k[0].startswith("L") and k[0][1:].isdigit()
            heap = frozenset((k, v) for k, v in s.m.items() if not is_local(k))
            key = (pend[0], pend[1], heap)
            memo = self.__dict__.setdefault("_join_memo", {})
            if key not in memo:
                res_ = []
                base = State().update(dict(heap))
                for rv, s2 in it.call_function(g, [pend[1]], base, fr, n):
                    if WORKERS.get(pend[0]) == "sink":
                        s2 = s2.set(("sinkdone",), 1)
                    res_.append(frozenset((k, v) for k, v in s2.m.items() if not is_local(k)))
                memo[key] = list(dict.fromkeys(res_))
            mine = {k: v for k, v in s.m.items() if is_local(k)}
            for h2 in memo[key]:
                s2 = State().update(dict(h2)).update(mine)
                outs.append((TOP, s2))
            return outs

        def select_default(it, s, vals, fr, n):
            out = vals[2]
            kind = vals[1]
            if is_ptr(out) and is_int(kind):
                s = it.write(s, (out[1], out[2] + ("kind",)), kind)
                s = it.write(s, (out[1], out[2] + ("device_id",)), I(0))
                s = it.write(s, (out[1], out[2] + ("driver_id",)), I(0))
            return [(I(0), s)]

        def props_copy(it, s, vals, fr, n):
            return [(I(1), s), (I(0), s)]

        ring = ("ptr", "obj:ring", ())

        def write_unmap(it, s, vals, fr, n):
            ch = vals[0]
            # a commit into the sink's input ring after the sink worker of this acquisition has returned:
            # nobody will store that frame now, and it is still in the ring when the next acquisition starts
            if is_ptr(ch) and tuple(ch[2][-2:]) == ("sink", "in") and s.get(("sinkdone",)) and s.get(("mapped", ch[1], ch[2])) \
                    and not s.get(("refused", ch[1], ch[2])):
                who = fr.fn.name if fr is not None else "?"
                self.report(it, "API-LATE-COMMIT", who,
                            "%s commits a frame into the sink's input ring after the sink worker has done its final flush and returned: the frame never reaches storage in this "
                            "acquisition and is still in the ring when the next one starts (stale first frames, wrong ids)" % who)
            if is_ptr(ch):
                s = s.delete_where(lambda k: k == ("mapped", ch[1], ch[2]))
            return [(TOP, s)]

        def accept_writes(it, s, vals, fr, n):
            ch, tf = vals[0], vals[1]
            if is_ptr(ch):
                if tf == ZERO:
                    s = s.set(("refused", ch[1], ch[2]), 1)
                else:
                    s = s.delete_where(lambda k: k == ("refused", ch[1], ch[2]))
            return [(TOP, s)]

        def write_map(it, s, vals, fr, n):
            ch = vals[0]
            outs = [(ZERO, s)]
            if is_ptr(ch) and s.get(("refused", ch[1], ch[2])):
                return outs      # a channel that refuses writes hands out no region
            if is_ptr(ch):
                outs.append((ring, s.set(("mapped", ch[1], ch[2]), 1)))
            else:
                outs.append((ring, s))
            return outs

        def abort_write(it, s, vals, fr, n):
            ch = vals[0]
            if is_ptr(ch):
                s = s.delete_where(lambda k: k == ("mapped", ch[1], ch[2]))
            return [(TOP, s)]
        st.update({
            "malloc": malloc, "free": free, "memset": memset,
            "logger_set_reporter": const(TOP), "aq_logger": const(TOP),
            "device_manager_init": const(I(0)), "device_manager_destroy": const(I(0)),
            "device_manager_get_driver": get_driver,
            "device_manager_select_default": select_default,
            "thread_init": const(TOP), "thread_create": thread_create, "thread_join": thread_join,
            "event_init": const(TOP), "event_destroy": const(TOP), "event_wait": const(TOP),
            "event_notify_all": const(TOP),
            "channel_new": const(TOP), "channel_release": const(TOP), "channel_accept_writes": accept_writes,
            "channel_write_map": write_map, "channel_write_unmap": write_unmap,
            "channel_abort_write": abort_write, "channel_read_map": const(TOP), "channel_read_unmap": const(TOP),
            "make_vfslice": const(TOP), "make_vfslice_mut": const(TOP), "vfslice_split_at_delay_ms": const(TOP),
            "frame_iterator_init": const(TOP), "frame_iterator_next": either(ZERO, ring),
            "throttler_init": const(TOP), "throttler_wait": const(TOP),
            "clock_tic": const(TOP), "bytes_of_image": const(TOP), "check_frame_id": const(TOP),
            "accumulate": either(I(1), I(0)), "normalize": const(TOP), "assert_consistent_shape": either(I(1), I(0)),
            "slice_size_bytes": const(TOP),
            "device_state_as_string": const(NZ), "device_kind_as_string": const(NZ),
            "storage_properties_copy": props_copy,
            "@external": self.external,
        })
        return st

    def external(self, it, name, s, vals, fr, n):
        self.externals.add(name)
        return [(TOP, s)]

    # ------------------------------------------------------------------
    def make_interp(self):
        it = Interp(self.prog, self.stubs())
        it.fuel = 400000000   # the source worker joins the filter worker: worker bodies nest
        it.counter_fns = {f.name for f in self.prog.all_funcs() if f.file.endswith("src/acquire.c")}
        return it

    def pending(self, s):
        return sorted(v[0] for k, v in s.m.items() if k[0] == "T" and v)

    def rt_field(self, it, s, *path):
        rt = s.get(("rt",))
        return it.read_quiet(s, (rt[1], tuple(path)))

    def initial(self, it):
        s0 = State()
        s0 = s0.update(self.cam.initial_state().m)
        s0 = s0.update(self.sto.initial_state().m)
        ck, sk = self.kinds["DeviceKind_Camera"], self.kinds["DeviceKind_Storage"]
        for nm, sto_id in (("obj:propsA", 0), ("obj:propsB", 1)):
            v0 = ("video", "[0]")
            v1 = ("video", "[1]")
            s0 = s0.update({
                (nm, ("<t>",)): 1,
                (nm, v0 + ("camera", "identifier", "kind")): I(ck),
                (nm, v0 + ("camera", "identifier", "device_id")): I(0),
                (nm, v0 + ("camera", "identifier", "driver_id")): I(0),
                (nm, v0 + ("storage", "identifier", "kind")): I(sk),
                (nm, v0 + ("storage", "identifier", "device_id")): I(sto_id),
                (nm, v0 + ("storage", "identifier", "driver_id")): I(0),
                (nm, v1 + ("camera", "identifier", "kind")): I(0),
                (nm, v1 + ("storage", "identifier", "kind")): I(0),
            })
        s0 = s0.set(("obj:ring", ("<t>",)), 1)
        outs = []
        for rv, s in it.run("acquire_init", [("fn", "@reporter")], s0):
            if is_ptr(rv):
                outs.append(("acquire_init", s.set(("rt",), ("ptr", rv[1], rv[2][:-1] if rv[2] and rv[2][-1] == "handle" else rv[2]))
                             .set(("rth",), rv)))
        if not outs:
            raise AnalysisBroken("acquire_init produced no runtime")
        return outs

    # ------------------------------------------------------------------
    def ops(self, it):
        M = self
        OK = 0

        def alive(st):
            return not st.get(("shutdown",))

        def flags(s2, w):
            return (M.rt_field(it, s2, "video", "[0]", w, "is_stopping"),
                    M.rt_field(it, s2, "video", "[0]", w, "is_running"))

        def after_quiesce(name, s2):
            """post-condition of stop / abort / shutdown"""
            pend = M.pending(s2)
            if pend:
                M.report(it, "API-QUIESCE", "%s|pending-workers" % name,
                         "%s returns while worker(s) %s were created and never joined: the runtime reports Armed with workers still alive"
                         % (name, pend))
            for hm, what in ((M.cam, "camera"), (M.sto, "storage")):
                if s2.get(hm.G_STARTED) and not s2.get(hm.G_CLOSED) and not s2.get(hm.G_STOP_ATT):
                    M.report(it, "API-QUIESCE", "%s|%s-running" % (name, what),
                             "%s returns while the %s the acquisition started has not been stopped" % (name, what))

        def configure(props):
            def op(interp, st):
                if not alive(st):
                    return []
                outs = []
                for rv, s2 in it.run("acquire_configure", [st.get(("rth",)), ("ptr", props, ())], st):
                    outs.append(("configure(%s)->%s" % (props[-1], rv[1] if is_int(rv) else "?"), s2))
                return outs
            return op

        def start(interp, st):
            if not alive(st):
                return []
            outs = []
            for rv, s2 in it.run("acquire_start", [st.get(("rth",))], st):
                if rv == I(OK):
                    for w in ("source", "filter", "sink"):
                        stp, run = flags(s2, w)
                        if stp != ZERO:
                            M.report(it, "API-START-CLEAN", "stale-stop|%s" % w,
                                     "acquire_start succeeds while %s.is_stopping still carries a stop request from before this acquisition: the new %s worker quits at once and its frames are lost"
                                     % (w, w))
                        if run == ZERO:
                            M.report(it, "API-START-CLEAN", "not-running|%s" % w,
                                     "acquire_start succeeds but %s.is_running is 0: acquire_get_state reports Armed while workers run" % w)
                    if len(M.pending(s2)) < 3:
                        M.report(it, "API-START-CLEAN", "workers",
                                 "acquire_start reports success but created only the workers %s" % M.pending(s2))
                outs.append(("start->%s" % (rv[1] if is_int(rv) else "?"), s2))
            return outs

        def stop_like(name):
            def op(interp, st):
                if not alive(st):
                    return []
                outs = []
                for rv, s2 in it.run(name, [st.get(("rth",))], st):
                    if rv == I(OK):
                        after_quiesce(name, s2)
                        stt = M.rt_field(it, s2, "state")
                        if is_int(stt) and stt[1] != M.dstate["DeviceState_Armed"]:
                            M.report(it, "API-QUIESCE", "%s|state" % name,
                                     "%s returns Ok but leaves the runtime state %s, not Armed" % (name, stt[1]))
                    outs.append(("%s->%s" % (name.replace("acquire_", ""), rv[1] if is_int(rv) else "?"), s2))
                return outs
            return op

        def run_worker(which):
            def op(interp, st):
                if not alive(st):
                    return []
                outs = []
                for k, v in list(st.m.items()):
                    if k[0] == "T" and v and WORKERS.get(v[0]) == which:
                        s = st.delete_where(lambda kk, k=k: kk == k)
                        # remember that it ran; the thread object is finished
                        for rv, s2 in it.run(v[0], [v[1]], s):
                            if which == "sink":
                                s2 = s2.set(("sinkdone",), 1)
                            outs.append(("run(%s)" % which, s2))
                return outs
            return op

        def get_state(interp, st):
            if not alive(st):
                return []
            outs = []
            for rv, s2 in it.run("acquire_get_state", [st.get(("rth",))], st):
                outs.append(("get_state->%s" % (rv[1] if is_int(rv) else "?"), s2))
            return outs

        def shutdown(interp, st):
            if not alive(st):
                return []
            outs = []
            for rv, s2 in it.run("acquire_shutdown", [st.get(("rth",))], st):
                after_quiesce("acquire_shutdown", s2)
                for hm, what in ((M.cam, "camera"), (M.sto, "storage")):
                    opened = (hm.DEV, ("state",)) in s2.m or s2.get(hm.G_CLOSED) is not None
                    if s2.get(hm.G_CLOSED) == 0 and not s2.get(("freed", hm.DEV)):
                        M.report(it, "API-SHUTDOWN", "open-%s" % what,
                                 "acquire_shutdown returns while the %s device it opened was never closed" % what)
                outs.append(("shutdown", s2.set(("shutdown",), 1)))
            return outs

        return [("configure(A)", configure("obj:propsA")), ("configure(B)", configure("obj:propsB")),
                ("start", start), ("run(source)", run_worker("source")), ("run(filter)", run_worker("filter")),
                ("run(sink)", run_worker("sink")), ("stop", stop_like("acquire_stop")),
                ("abort", stop_like("acquire_abort")), ("get_state", get_state), ("shutdown", shutdown)]


def simulate(prog, max_states=6000, skip=()):
    m = ApiModel(prog)
    it = m.make_interp()
    inits = m.initial(it)
    ops = []
    drop = {m.cam.G_LAST, m.sto.G_LAST}

    def clean(s2):
        # per-call ghosts and the contents of the (abstract) ring carry nothing
        # from one API call to the next
        s2 = s2.delete_where(lambda k: k in drop or k[0] == "obj:ring" or k[0] == "mapped")
        return s2.set(("obj:ring", ("<t>",)), 1)
    for name, op in m.ops(it):
        if skip and name in skip:
            continue

        def wrapped(interp, st, op=op):
            return [(lab, clean(s2) if s2 is not None else None) for lab, s2 in (op(interp, st) or [])]
        ops.append((name, wrapped))
    ex = Explorer(it, ops, max_states=max_states, bfs=True, on_bound="stop")
    ex.explore(inits)
    return m, it, ex


def run_rules(prog, res, rules, label, max_states=4000):
    """Run the API-level simulation and report the findings of `rules`."""
    m, it, ex = simulate(prog, max_states=max_states, skip=("configure(B)",))
    if it.truncated:
        raise AnalysisBroken("API simulation truncated: %s" % it.truncated[:3])
    mine = {k: r for k, r in it.reports.items() if r["rule"] in rules}
    for key, r in sorted(mine.items()):
        res.fail(r["rule"], key.split("|", 1)[-1], key, "acquire.c", r["message"], r["witness"])
    res.oblige(label, "acquire API x controllers x HAL x well-behaved abstract drivers, sequential worker model",
               not mine,
               "%d abstract inter-call states, %d transitions, %d inlined calls%s; ops: configure, start, run(source|filter|sink), stop, abort, get_state, shutdown"
               % (len(ex.states), ex.transitions, it.stats["calls"], " (bounded at %d states, breadth first)" % max_states if ex.bounded else " (fixpoint)"),
               "acquire.c")
    for k, st in list(ex.states.items())[:5]:
        res.samples.append({"api_history": ex.witness[k], "pending_workers": m.pending(st),
                            "camera_started": st.get(m.cam.G_STARTED), "storage_started": st.get(m.sto.G_STARTED)})
    res.extra["api_sim"] = {"states": len(ex.states), "transitions": ex.transitions, "fixpoint": not ex.bounded,
                            "externals_seen": sorted(m.externals)}
    for fn in ("acquire_init", "acquire_configure", "acquire_start", "acquire_stop", "acquire_abort",
               "acquire_get_state", "acquire_shutdown"):
        res.touched(prog.func(fn))
    return m, it, ex
