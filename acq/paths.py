"""Intraprocedural path rules over the CFG (DESIGN.md 3.1): MUST-PASS,
NOT-AFTER, GUARD-DOM, PAIR, LOOP-UNTIL.  Positions are (block id, stmt idx);
'entry' / 'exit' are accepted as endpoints."""
from . import ir


def call_names(prog, fn, stmt, depth=6):
    """Names of functions directly called in stmt (direct callees, and the
    field name for calls through a function-pointer member as '->field')."""
    out = []
    for c in ir.calls_in(stmt):
        if c.get("fn"):
            out.append(c["fn"])
        elif "callee" in c:
            cal = ir.strip(c["callee"])
            if isinstance(cal, dict) and cal.get("k") == "mem":
                out.append("->" + cal["f"])
            elif isinstance(cal, dict) and cal.get("k") == "deref":
                inner = ir.strip(cal["e"])
                if isinstance(inner, dict) and inner.get("k") == "mem":
                    out.append("->" + inner["f"])
    return out


def stmt_reaches(prog, fn, stmt, targets, depth=6):
    """Does stmt contain a call that is, or transitively reaches, one of
    `targets` (names; '->field' for indirect)?"""
    for n in call_names(prog, fn, stmt):
        if n in targets:
            return True
        if not n.startswith("->"):
            g = prog.resolve(n, fn)
            if g is not None and prog.reaches(g, set(targets), depth):
                return True
    return False


def find(fn, pred):
    """All positions (block, idx, stmt) whose root statement satisfies pred."""
    out = []
    for b, i, s in fn.all_stmts():
        if pred(s):
            out.append((b.id, i, s))
    return out


def calls_to(prog, fn, names):
    names = set(names)
    return find(fn, lambda s: any(n in names for n in call_names(prog, fn, s)))


def all_paths_pass(fn, src, dsts, pred, avoid_self=True, edge_ok=None):
    """Every CFG path from src to any position in dsts contains (strictly
    between them) a statement satisfying pred.  src: (block, idx) or 'entry';
    dsts: set of (block, idx) or 'exit'.  Returns (ok, witness) where witness
    is a list of block ids of a violating path."""
    if src == "entry":
        sb, si = fn.entry, -1
    else:
        sb, si = src
    exit_is_dst = dsts == "exit"
    dmap = {}
    if not exit_is_dst:
        for (b, i) in dsts:
            dmap.setdefault(b, []).append(i)

    def scan(b, start):
        """Scan block b from stmt index start.  Returns 'pass' if pred hit
        first, 'dst' if a destination is hit first, else None."""
        blk = fn.blocks[b]
        for j in range(start, len(blk.stmts)):
            if not exit_is_dst and j in dmap.get(b, ()):
                return "dst"
            if pred(blk.stmts[j]):
                return "pass"
        return None

    def succs_of(b):
        out = []
        for s in fn.blocks[b].succs:
            if s.get("to") is None:
                continue
            if edge_ok is not None and edge_ok(fn.blocks[b], s):
                continue  # this edge discharges the obligation by itself
            out.append(s["to"])
        return out

    r = scan(sb, si + 1)
    if r == "pass":
        return True, None
    if r == "dst":
        return False, [sb]
    seen = {}
    st = [(s, [sb, s]) for s in succs_of(sb)]
    if exit_is_dst and sb == fn.exit:
        return False, [sb]
    while st:
        b, path = st.pop()
        if b in seen:
            continue
        seen[b] = True
        r = scan(b, 0)
        if r == "pass":
            continue
        if r == "dst":
            return False, path
        if exit_is_dst and b == fn.exit:
            return False, path
        for s in succs_of(b):
            st.append((s, path + [s]))
    return True, None


def reachable_after(fn, src, pred):
    """Positions satisfying pred that are CFG-reachable strictly after src."""
    sb, si = src
    hits = []
    blk = fn.blocks[sb]
    for j in range(si + 1, len(blk.stmts)):
        if pred(blk.stmts[j]):
            hits.append((sb, j, blk.stmts[j]))
    seen = set()
    st = list(blk.succ_ids())
    while st:
        b = st.pop()
        if b in seen:
            continue
        seen.add(b)
        for j, s in enumerate(fn.blocks[b].stmts):
            if b == sb and j > si:
                break
            if pred(s):
                hits.append((b, j, s))
        st.extend(fn.blocks[b].succ_ids())
    return hits


def dominators(fn):
    """Block-level dominator sets."""
    blocks = list(fn.blocks)
    preds = fn.preds()
    dom = {b: set(blocks) for b in blocks}
    dom[fn.entry] = {fn.entry}
    changed = True
    while changed:
        changed = False
        for b in blocks:
            if b == fn.entry:
                continue
            ps = [p for p in preds.get(b, []) if p in dom]
            if not ps:
                continue
            new = set.intersection(*[dom[p] for p in ps]) | {b}
            if new != dom[b]:
                dom[b] = new
                changed = True
    return dom


def edge_dominated(fn, pos, cond_pred):
    """Is position pos reachable only through an edge (block B, label) where B's
    branch condition satisfies cond_pred(cond_node, label)?  Returns the list
    of (block, label) guards found on *every* path, computed by removing the
    accepted edges and testing reachability."""
    tb, ti = pos
    accepted = set()
    for b in fn.blocks.values():
        c = b.cond_node()
        if c is None or len(b.succs) < 2:
            continue
        for s in b.succs:
            if s.get("to") is None:
                continue
            lab = s.get("label")
            if lab is None and "case" in s:
                lab = ("case", s["case"].get("v"), s["case"].get("e"))
            elif lab is None and "default" in s:
                lab = "default"
            if cond_pred(c, lab, b):
                accepted.add((b.id, s["to"]))
    # a same-block guard (cond evaluated earlier in tb) does not exist in the
    # CFG: conditions end blocks.  Reachability without accepted edges:
    seen = set()
    st = [fn.entry]
    while st:
        x = st.pop()
        if x in seen:
            continue
        seen.add(x)
        if x == tb:
            return False, sorted(accepted)
        for s in fn.blocks[x].succ_ids():
            if (x, s) not in accepted:
                st.append(s)
    return True, sorted(accepted)


def loops(fn):
    """Natural-loop-ish: strongly connected components with a cycle."""
    idx = {}
    low = {}
    stack = []
    on = set()
    out = []
    counter = [0]
    import sys
    sys.setrecursionlimit(10000)

    def sc(v):
        idx[v] = low[v] = counter[0]
        counter[0] += 1
        stack.append(v)
        on.add(v)
        for w in fn.blocks[v].succ_ids():
            if w not in idx:
                sc(w)
                low[v] = min(low[v], low[w])
            elif w in on:
                low[v] = min(low[v], idx[w])
        if low[v] == idx[v]:
            comp = set()
            while True:
                w = stack.pop()
                on.discard(w)
                comp.add(w)
                if w == v:
                    break
            if len(comp) > 1 or v in fn.blocks[v].succ_ids():
                out.append(comp)

    for b in fn.blocks:
        if b not in idx:
            sc(b)
    return out


def loop_of(fn, bid):
    best = None
    for c in loops(fn):
        if bid in c and (best is None or len(c) < len(best)):
            best = c
    return best


def natural_loops(fn):
    """List of (header, body set) for every back edge t->h with h dom t."""
    dom = dominators(fn)
    preds = fn.preds()
    live = fn.reachable_from(fn.entry)
    out = []
    for b in fn.blocks.values():
        if b.id not in live:
            continue  # e.g. the pruned back edge of a do{}while(0) macro body
        for h in b.succ_ids():
            if h in dom.get(b.id, ()):
                body = {h, b.id}
                st = [b.id]
                while st:
                    x = st.pop()
                    if x == h:
                        continue
                    for p in preds.get(x, []):
                        if p not in body and p in live:
                            body.add(p)
                            st.append(p)
                out.append((h, body))
    # merge loops sharing a header
    merged = {}
    for h, body in out:
        merged.setdefault(h, set()).update(body)
    return list(merged.items())


def innermost_loop(fn, bid):
    best = None
    for h, body in natural_loops(fn):
        if bid in body and (best is None or len(body) < len(best)):
            best = body
    return best


def through_callees(prog, fn, pred, depth=3, _memo=None):
    """A statement predicate that also accepts a call to a repository function
    all of whose entry-to-exit paths pass a statement satisfying the predicate
    (recursively): extracting a helper does not change what a must-pass rule
    sees."""
    memo = _memo if _memo is not None else {}

    def callee_ok(g, d):
        key = (g.tu, g.name)
        if key in memo:
            return memo[key]
        memo[key] = False  # recursion guard
        sub = lambda s: pred(s) or (d > 0 and any_callee(g, s, d - 1))
        ok, _ = all_paths_pass(g, "entry", "exit", sub)
        memo[key] = ok
        return ok

    def any_callee(f, s, d):
        for c in ir.calls_in(s):
            nm = c.get("fn")
            g = prog.resolve(nm, f) if nm else None
            if g is not None and g.blocks and callee_ok(g, d):
                return True
        return False

    return lambda s: pred(s) or any_callee(fn, s, depth)


def _simple_flag(c):
    """(access path, negated) for a condition of the shape x / !x, else None."""
    c = ir.strip(c)
    neg = False
    while isinstance(c, dict) and c.get("k") == "un" and c.get("op") == "!":
        neg = not neg
        c = ir.strip(c["e"])
    if isinstance(c, dict) and c.get("k") in ("mem", "var", "deref"):
        p = ir.ap(c)
        if p:
            return p, neg
    return None


def edge_dominated_correlated(fn, pos, cond_pred):
    """Like edge_dominated, but branches that re-test a flag (x / !x) whose
    value is already known on the current path - and was not written, and no
    wait / unlock intervened - are followed only on the consistent edge."""
    tb, ti = pos
    seen = set()
    st = [(fn.entry, ())]
    while st:
        b, know = st.pop()
        if (b, know) in seen:
            continue
        seen.add((b, know))
        if b == tb:
            return False
        k = dict(know)
        blk = fn.blocks[b]
        for s_ in blk.stmts:
            for lv, op, rhs, w in ir.writes_of(s_):
                p = ir.ap(lv)
                if p in k:
                    del k[p]
            for c in ir.calls_in(s_):
                n = c.get("fn") or ""
                if "wait" in n or "release" in n or "unlock" in n:
                    k = {}
        c = blk.cond_node()
        flag = _simple_flag(c) if (c is not None and len(blk.succs) == 2) else None
        for sc in blk.succs:
            t = sc.get("to")
            if t is None:
                continue
            lab = sc.get("label")
            if c is not None and len(blk.succs) >= 2:
                if lab is None and "case" in sc:
                    lab = ("case", sc["case"].get("v"), sc["case"].get("e"))
                if cond_pred(c, lab, blk):
                    continue  # accepted guard edge
            k2 = dict(k)
            if flag is not None and lab in ("true", "false"):
                val = (lab == "true") != flag[1]
                if flag[0] in k2 and k2[flag[0]] != val:
                    continue  # contradicts an earlier test of the same flag
                k2[flag[0]] = val
            st.append((t, tuple(sorted(k2.items()))))
    return True


def tested_call_discharge(prog, fn, pred, depth=2):
    """edge_ok for all_paths_pass: at a branch on the result of a helper call
    ( if (h(..)) / if (!h(..)) / CHECK(h(..)) ), the edge taken for a non-zero
    result is discharged when every path of h to a non-zero constant return
    passes pred, and likewise for the zero edge - so `unmap on success, leave it
    to the caller's error path on failure` is understood."""
    memo = {}

    def classes(h):
        if h.name in memo:
            return memo[h.name]
        memo[h.name] = (False, False)
        rets = {"z": set(), "nz": set()}
        for b, i, s in h.all_stmts():
            if s.get("k") == "ret" and "e" in s:
                e = ir.strip(s["e"])
                if isinstance(e, dict) and e.get("k") == "int":
                    rets["z" if e.get("v") == 0 else "nz"].add((b.id, i))
                else:
                    rets["z"].add((b.id, i))
                    rets["nz"].add((b.id, i))
        hp = through_callees(prog, h, pred, depth)
        out = []
        for k in ("z", "nz"):
            out.append(bool(rets[k]) and all_paths_pass(h, "entry", rets[k], hp)[0])
        memo[h.name] = tuple(out)
        return memo[h.name]

    def edge_ok(blk, succ):
        c = blk.cond_node()
        if c is None or succ.get("label") not in ("true", "false"):
            return False
        c = ir.strip(c)
        neg = False
        while isinstance(c, dict) and c.get("k") == "un" and c.get("op") == "!":
            neg = not neg
            c = ir.strip(c["e"])
        if not (isinstance(c, dict) and c.get("k") == "call" and c.get("fn")):
            return False
        h = prog.resolve(c["fn"], fn)
        if h is None or h is fn or not h.blocks:
            return False
        z_ok, nz_ok = classes(h)
        nonzero_edge = (succ["label"] == "true") != neg
        return nz_ok if nonzero_edge else z_ok
    return edge_ok


def knowledge_at(fn, pos):
    """All flag-knowledge dicts (access path -> bool) with which pos=(block,idx)
    can be reached, tracking simple flag tests x / !x along the path; a store
    to the flag, a wait or an unlock forgets it.  See edge_dominated_correlated."""
    tb, ti = pos
    seen = set()
    out = []
    st = [(fn.entry, ())]
    while st:
        b, know = st.pop()
        if (b, know) in seen:
            continue
        seen.add((b, know))
        k = dict(know)
        blk = fn.blocks[b]
        for j, s_ in enumerate(blk.stmts):
            if b == tb and j == ti:
                out.append(dict(k))
            for lv, op, rhs, w in ir.writes_of(s_):
                p = ir.ap(lv)
                if p in k:
                    del k[p]
            for c in ir.calls_in(s_):
                n = c.get("fn") or ""
                if "wait" in n or "release" in n or "unlock" in n:
                    k = {}
        c = blk.cond_node()
        flag = _simple_flag(c) if (c is not None and len(blk.succs) == 2) else None
        for sc in blk.succs:
            t = sc.get("to")
            if t is None:
                continue
            lab = sc.get("label")
            k2 = dict(k)
            if flag is not None and lab in ("true", "false"):
                val = (lab == "true") != flag[1]
                if flag[0] in k2 and k2[flag[0]] != val:
                    continue
                k2[flag[0]] = val
            st.append((t, tuple(sorted(k2.items()))))
    return out
