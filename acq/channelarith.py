"""R-LIN: linear-arithmetic obligations of the ring buffer (channel.c), decided
by the linear-relations abstract interpreter (linear.py).

Assumed data-structure invariant (also *checked* to be preserved by every store,
obligation INV): every cursor cell - head, high, mapped, the hold positions,
reader->pos - lies in [0, capacity].

GRANT  next_write: a non-zero return describes a region [beg, beg+n) inside the
       space that is free with respect to the slowest reader's position `tail`:
         head <  tail :  head <= beg  and  beg+n <= tail
         tail <= head :  head <= beg  and  beg+n <= capacity      (rest of the lap)
                     or  beg+n <= tail                            (front of the buffer)
                     or  tail == head, should_wrap set, beg+n <= capacity
       and beg is head or 0 (channel_write_map assumes a grant that does not
       start at head starts a new lap at 0).
MAP    channel_write_map: mapped == beg + nbytes, the returned pointer is
       data + beg, and a lap change (beg != head) is recorded as high = old head.
READ   channel_read_map: a non-empty slice starts at the hold position and ends
       at head (same lap) or at high (previous lap), and reader->pos records
       that end (0 standing for high).
SUB    an unsigned subtraction proven not to wrap on the reference tree stays
       proven."""
from . import ir, linear as L
from .build import AnalysisBroken

CURSOR_SUFFIX = ("->head", "->high", "->mapped")
# unsigned subtractions the linear domain proves non-negative on the reference
# tree; if one of these (same function, same text) stops being provable it is
# reported.  Other subtractions are only listed in the evidence notes.
SUB_PROVEN = {("next_write", "(tail - self->head)"), ("next_write", "(self->capacity - self->head)"),
              ("channel_read_map", "(self->head - *pos)")}


def is_cursor(key, st):
    return key.endswith(CURSOR_SUFFIX) or "holds.pos[" in key or key.endswith("reader->pos") or \
        st.alias.get(key, "").endswith("holds.pos")


def invariant(key, name, st, an):
    if key.endswith("->capacity") or not is_cursor(key, st):
        return []
    cap = an.read(st, "self->capacity")
    return [("le", L.lsub(L.lvar(name), cap))]


class Collector:
    def __init__(self):
        self.stores = {}   # (fn, line, key) -> [ok...]
        self.subs = {}     # (fn, text) -> [ok...]
        self.maps = []

    def on_store(self, f, e, key, val, st):
        an = self.an
        if is_cursor(key, st):
            cap = an.read(st, "self->capacity")
            ok = st.entails_le(L.lsub(val, cap)) and st.entails_le(L.lscale(val, -1))
            self.stores.setdefault((f.name, e.get("line") or 0, _pretty(key)), []).append(ok)
        if key.endswith("->mapped"):
            self.maps.append((f, e, val, st.copy()))

    def on_sub(self, f, e, a, b, st):
        ok = st.entails_le(L.lsub(b, a))
        self.subs.setdefault((f.name, ir.render(e)), []).append(ok)


def _pretty(key):
    import re
    return re.sub(r"#\d+", "", key)


def some(st, *conj_lists):
    """does the state entail one of the conjunctions?  each conjunction is a
    list of ("le"|"eq", lin)"""
    for conj in conj_lists:
        if all((st.entails_le(l) if op == "le" else st.entails_eq(l)) for op, l in conj):
            return True
    return False


def rule_linear(prog, res, rule="R-LIN"):
    col = Collector()
    an = L.Analysis(prog, invariant=invariant, on_store=col.on_store, on_sub=col.on_sub)
    col.an = an
    # ---- GRANT ------------------------------------------------------------
    f = prog.func("next_write")
    res.touched(f)
    pn = {p["n"]: p for p in f.params}
    # parameter roles by type: the size, the two out-parameters
    size_p = [p for p in f.params if not p.get("pd") and not p.get("r")]
    outs = [p for p in f.params if p.get("pd") and not p.get("r")]
    if len(size_p) != 1 or len(outs) != 2:
        raise AnalysisBroken("next_write: parameter roles changed")
    beg_p = [p for p in outs if "long" in p["t"] or "size_t" in p["t"]]
    wrap_p = [p for p in outs if p not in beg_p]
    if len(beg_p) != 1 or len(wrap_p) != 1:
        raise AnalysisBroken("next_write: out-parameters changed")
    rets = an.run(f, L.State())
    granted = 0
    bad = []
    for rv, st in rets:
        if rv is None or (L.is_const(rv) and rv.get(L.ONE, 0) == 0):
            continue
        granted += 1
        head = an.read(st, "self->head")
        cap = an.read(st, "self->capacity")
        n = an.read(st, "next_write:%s" % size_p[0]["n"])
        beg = st.cells.get("*next_write:%s" % beg_p[0]["n"])
        wrap = st.cells.get("*next_write:%s" % wrap_p[0]["n"], L.lconst(0))
        tails = [v for k, v in st.cells.items() if "holds.pos[" in k]
        if beg is None or len(tails) != 1:
            bad.append(("grant without a begin offset / without reading the slowest reader's position", st))
            continue
        tail = tails[0]
        endr = L.ladd(beg, n)
        lt = lambda a, b: ("le", L.ladd(L.lsub(a, b), L.lconst(1)))
        le = lambda a, b: ("le", L.lsub(a, b))
        eq = lambda a, b: ("eq", L.lsub(a, b))
        ok = some(st,
                  [lt(head, tail), le(head, beg), le(endr, tail)],
                  [le(tail, head), le(head, beg), le(endr, cap)],
                  [le(tail, head), le(endr, tail)],
                  [eq(tail, head), eq(wrap, L.lconst(1)), le(endr, cap)])
        if not ok:
            bad.append(("the granted region [beg, beg+n) = [%s, %s) is not inside the free space (head=%s, slowest reader at %s)"
                        % (_pretty(L.lshow(beg)), _pretty(L.lshow(endr)), _pretty(L.lshow(head)), _pretty(L.lshow(tail))), st))
        if not some(st, [eq(beg, head)], [eq(beg, L.lconst(0))]):
            bad.append(("a grant begins at %s, neither at head nor at 0" % _pretty(L.lshow(beg)), st))
    inst = "next_write: every grant lies in the free space"
    if granted == 0:
        raise AnalysisBroken("next_write never grants")
    if bad:
        for k, (msg, st) in enumerate(bad):
            res.fail(rule, inst, "%s|next_write|grant" % rule, f.loc(),
                     "next_write: %s: the writer is handed memory a reader has not consumed, or memory outside the buffer" % msg,
                     {"constraints": [_pretty("%s %s" % (op, L.lshow(l))) for op, l in st.cons][-12:]})
    else:
        res.oblige(rule, inst, True, "%d granting abstract state(s), each entails one free-space case" % granted, f.loc())
    # ---- channel_write_map ----------------------------------------------
    g = prog.func("channel_write_map")
    res.touched(g)
    col.maps = []
    rets = an.run(g, L.State())
    inst = "channel_write_map: mapped == beg + nbytes and the result is data + beg"
    okm = bool(col.maps)
    why = ""
    for f_, e, val, st in col.maps:
        if f_.name != g.name:
            continue
        begv = st.cells.get("channel_write_map:beg")
        nv = an.read(st, "channel_write_map:nbytes")
        if begv is None or not st.entails_eq(L.lsub(val, L.ladd(begv, nv))):
            okm = False
            why = "mapped = %s but the region handed out is [beg, beg + nbytes) with beg = %s" % (_pretty(L.lshow(val)), _pretty(L.lshow(begv or {})))
    for rv, st in rets:
        if rv is None or (L.is_const(rv) and rv.get(L.ONE, 0) == 0):
            continue
        begv = st.cells.get("channel_write_map:beg")
        base = L.lvar("ptr:self->data")
        if begv is None or not st.entails_eq(L.lsub(rv, L.ladd(base, begv))):
            okm = False
            why = why or "the pointer returned is %s, not data + beg" % _pretty(L.lshow(rv))
        head = an.read(st, "self->head")
        if not st.entails_eq(L.lsub(head, begv or {})):
            okm = False
            why = why or "after the mapping head (%s) is not the beginning of the mapped region (%s): channel_abort_write / the next grant start from the wrong offset" % (_pretty(L.lshow(head)), _pretty(L.lshow(begv or {})))
    if okm:
        res.oblige(rule, inst, True, "%d store(s) to mapped, %d non-null return state(s)" % (len(col.maps), len(rets)), g.loc())
    else:
        res.fail(rule, inst, "%s|channel_write_map|map" % rule, g.loc(), "channel_write_map: " + (why or "no store to mapped found"))
    # ---- channel_read_map ------------------------------------------------
    h = prog.func("channel_read_map")
    res.touched(h)
    # the local pointer to this reader's hold position: defined from holds.pos
    hold_ptr_id = None
    for b_, i_, s_ in h.all_stmts():
        for lv, op, rhs, w in ir.writes_of(s_):
            if lv.get("k") == "var" and lv.get("pd") and isinstance(rhs, dict) and \
                    any(y.get("k") == "mem" and y.get("f") == "pos" and (ir.ap(y) or "").endswith("holds.pos") for y in ir.walk(rhs)):
                hold_ptr_id = lv["id"]
    rets = an.run(h, L.State())
    inst = "channel_read_map: a non-empty slice is [hold position, head) or [hold position, high) and reader->pos records its end"
    nonempty = 0
    badr = None
    for rv, st in rets:
        nb = st.cells.get("channel_read_map:nbytes")
        out = st.cells.get("channel_read_map:out")
        if nb is None or out is None:
            continue
        if st.entails_eq(nb):
            continue
        nonempty += 1
        base = L.lvar("ptr:self->data")
        off = L.lsub(out, base)
        end = L.ladd(off, nb)
        head = an.read(st, "self->head")
        high = an.read(st, "self->high")
        rpos = an.read(st, "reader->pos")
        hk = st.ptr.get(("channel_read_map", hold_ptr_id)) if hold_ptr_id is not None else None
        holdpos = [st.cells[hk]] if hk in st.cells else []
        eq = lambda a, b: ("eq", L.lsub(a, b))
        ok = some(st, [eq(end, head), eq(rpos, head)], [eq(end, high), eq(rpos, L.lconst(0))])
        ok = ok and len(holdpos) == 1 and st.entails_eq(L.lsub(off, holdpos[0]))
        if not ok:
            badr = "a slice [%s, %s) is returned with reader->pos = %s, hold position %s (head=%s, high=%s)" % (
                _pretty(L.lshow(off)), _pretty(L.lshow(end)), _pretty(L.lshow(rpos)),
                _pretty(L.lshow(holdpos[0])) if holdpos else "?", _pretty(L.lshow(head)), _pretty(L.lshow(high)))
    if nonempty == 0:
        raise AnalysisBroken("channel_read_map never returns data")
    if badr:
        res.fail(rule, inst, "%s|channel_read_map|slice" % rule, h.loc(),
                 "channel_read_map: %s: the reader is handed bytes that are not exactly the committed, unread bytes of that lap" % badr)
    else:
        res.oblige(rule, inst, True, "%d non-empty return state(s)" % nonempty, h.loc())
    # ---- channel_read_unmap ------------------------------------------------
    u = prog.func("channel_read_unmap")
    res.touched(u)
    an.run(u, L.State())
    for fn_ in ("channel_write_unmap", "channel_abort_write"):
        an.run(prog.func(fn_), L.State())
        res.touched(prog.func(fn_))
    if an.truncated:
        raise AnalysisBroken("linear analysis truncated")
    # ---- INV -----------------------------------------------------------------
    for (fn, line, key), oks in sorted(col.stores.items()):
        inst = "%s: store to %s keeps it within [0, capacity] (line %s)" % (fn, key, line)
        ff = prog.func(fn)
        if all(oks):
            res.oblige(rule, inst, True, "%d abstract state(s)" % len(oks), "%s:%s" % (ff.file, line))
        else:
            res.fail(rule, inst, "%s|%s|inv|%s" % (rule, fn, key), "%s:%s" % (ff.file, line),
                     "%s can store a value outside [0, capacity] into the cursor %s: later arithmetic on it leaves the buffer" % (fn, key))
    # ---- SUB --------------------------------------------------------------------
    proven = 0
    for (fn, text), oks in sorted(col.subs.items()):
        if all(oks):
            proven += 1
            res.oblige(rule, "%s: %s does not wrap" % (fn, text), True, "%d abstract state(s)" % len(oks), prog.func(fn).loc())
        elif (fn, text) in SUB_PROVEN:
            res.fail(rule, "%s: %s does not wrap" % (fn, text), "%s|%s|sub|%s" % (rule, fn, text), prog.func(fn).loc(),
                     "%s: the unsigned subtraction %s is no longer guarded against wrapping around (it was proven non-negative on the reference tree)" % (fn, text))
        else:
            res.notes.append("R-LIN/SUB: %s: %s not proven non-negative by the linear domain (depends on lap relations)" % (fn, text))
    return an
