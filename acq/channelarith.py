"""R-LIN: linear-arithmetic obligations of the ring buffer (channel.c), decided
by the linear-relations abstract interpreter (linear.py).

Assumed data-structure invariant (also *checked* to be preserved by every store,
obligation INV): every cursor cell - head, high, mapped, the hold positions,
reader->pos - lies in [0, capacity].

GRANT  next_write: a non-zero return describes a region [beg, beg+n) inside the
       space that is free with respect to the slowest reader's position `tail`:
         head <  tail :  head <= beg  and  beg+n <= tail
         tail <= head :  head <= beg  and  beg+n <= capacity      (rest of the lap)
                     or  beg+n <= tail                            (front of the buffer)
                     or  tail == head, should_wrap set, beg+n <= capacity
       and beg is head or 0 (channel_write_map assumes a grant that does not
       start at head starts a new lap at 0).
MAP    channel_write_map: mapped == beg + nbytes, the returned pointer is
       data + beg, and a lap change (beg != head) is recorded as high = old head.
READ   channel_read_map: a non-empty slice starts at the hold position and ends
       at head (same lap) or at high (previous lap), and reader->pos records
       that end (0 standing for high).
SUB    an unsigned subtraction proven not to wrap on the reference tree stays
       proven."""
from . import ir, linear as L
from .build import AnalysisBroken

CURSOR_SUFFIX = ("->head", "->high", "->mapped")
ALIAS = {"channel": "self", "channel_reader": "reader"}   # canonical names of the two object parameters
# unsigned subtractions the linear domain proves non-negative on the reference
# tree; if one of these (same function, same text) stops being provable it is
# reported.  Other subtractions are only listed in the evidence notes.
SUB_PROVEN = {("next_write", "(tail - self->head)"), ("next_write", "(self->capacity - self->head)"),
              ("channel_read_map", "(self->head - *pos)")}


from .report import memoised as _memoised


def is_cursor(key, st):
    return key.endswith(CURSOR_SUFFIX) or "holds.pos[" in key or key.endswith("reader->pos") or \
        st.alias.get(key, "").endswith("holds.pos")


def invariant(key, name, st, an):
    if key.endswith("->capacity") or not is_cursor(key, st):
        return []
    cap = an.read(st, "self->capacity")
    return [("le", L.lsub(L.lvar(name), cap))]


class Collector:
    def __init__(self):
        self.stores = {}   # (fn, line, key) -> [ok...]
        self.subs = {}     # (fn, text) -> [ok...]
        self.maps = []

    def on_store(self, f, e, key, val, st):
        an = self.an
        if is_cursor(key, st):
            cap = an.read(st, "self->capacity")
            ok = st.entails_le(L.lsub(val, cap)) and st.entails_le(L.lscale(val, -1))
            self.stores.setdefault((f.name, e.get("line") or 0, _pretty(key)), []).append(ok)
        if key.endswith("->mapped"):
            self.maps.append((f, e, val, st.copy()))

    def on_sub(self, f, e, a, b, st):
        ok = st.entails_le(L.lsub(b, a))
        self.subs.setdefault((f.name, ir.render(e)), []).append(ok)


def _pretty(key):
    import re
    return re.sub(r"#\d+", "", key)


def some(st, *conj_lists):
    """does the state entail one of the conjunctions?  each conjunction is a
    list of ("le"|"eq", lin)"""
    for conj in conj_lists:
        if all((st.entails_le(l) if op == "le" else st.entails_eq(l)) for op, l in conj):
            return True
    return False


def _A(prog, *a, **kw):
    an = L.Analysis(prog, *a, **kw)
    an.param_alias = ALIAS
    return an


def _roles(prog):
    """Local variable / parameter names by role (so that renaming them changes nothing):
    write_map: the local that receives next_write's begin offset, the size
    parameter; read_map: the two locals the returned slice is built from;
    read_unmap: the local holding the mapped length, the consumed parameter."""
    r = {}
    g = prog.func("channel_write_map")
    nw = prog.func("next_write")
    outs = [k for k, p in enumerate(nw.params) if p.get("pd") and not p.get("r") and ("long" in p["t"] or "size_t" in p["t"])]
    for b, i, s in g.all_stmts():
        for c in ir.calls_in(s):
            if c.get("fn") == "next_write" and outs and outs[0] < len(c["args"]):
                a = ir.strip(c["args"][outs[0]])
                if isinstance(a, dict) and a.get("k") == "addr" and ir.strip(a["e"]).get("k") == "var":
                    r["wm_beg"] = ir.strip(a["e"])["n"]
    sz = [p for p in g.params if not p.get("pd") and not p.get("r")]
    r["wm_nbytes"] = sz[0]["n"] if sz else "nbytes"
    h = prog.func("channel_read_map")
    for b, i, s in h.all_stmts():
        if s.get("k") == "ret" and isinstance(ir.strip(s.get("e")), dict) and ir.strip(s["e"]).get("k") == "init":
            flds = {e["f"]: ir.strip(e["v"]) for e in ir.strip(s["e"]).get("elts", []) if "f" in e}
            bg, en = flds.get("beg"), flds.get("end")
            # the return that builds the slice as (out, out + nbytes); other returns (an early
            # empty result) do not define the roles
            if isinstance(bg, dict) and bg.get("k") == "var" and isinstance(en, dict) and en.get("k") == "bin" and en.get("op") == "+":
                xs = [x for x in (ir.strip(en["l"]), ir.strip(en["r"])) if isinstance(x, dict) and x.get("k") == "var"]
                if len(xs) == 2 and any(x["n"] == bg["n"] for x in xs):
                    r["rm_out"] = bg["n"]
                    r["rm_nbytes"] = [x["n"] for x in xs if x["n"] != bg["n"]][0] if any(x["n"] != bg["n"] for x in xs) else r.get("rm_nbytes")
    u = prog.func("channel_read_unmap")
    for b, i, s in u.all_stmts():
        for lv, op, rhs, w in ir.writes_of(s):
            if lv.get("k") == "var" and isinstance(rhs, dict) and any(c.get("fn") == "get_available_byte_count" for c in ir.calls_in(rhs)):
                r["ru_length"] = lv["n"]
    r.setdefault("wm_beg", "beg"); r.setdefault("rm_out", "out"); r.setdefault("rm_nbytes", "nbytes"); r.setdefault("ru_length", "length")
    return r


@_memoised
def rule_linear(prog, res, rule="R-LIN"):
    ROLE = _roles(prog)
    col = Collector()
    an = _A(prog, invariant=invariant, on_store=col.on_store, on_sub=col.on_sub)
    an.param_alias = ALIAS
    col.an = an
    def sec_grant():
        # ---- GRANT ------------------------------------------------------------
        f = prog.func("next_write")
        res.touched(f)
        pn = {p["n"]: p for p in f.params}
        # parameter roles by type: the size, the two out-parameters
        size_p = [p for p in f.params if not p.get("pd") and not p.get("r")]
        if len(size_p) > 1:   # the byte count is the size_t one (an index parameter may have been added)
            size_p = [p for p in size_p if "long" in p.get("t", "") or "size_t" in p.get("t", "")]
        outs = [p for p in f.params if p.get("pd") and not p.get("r")]
        if len(size_p) != 1 or len(outs) != 2:
            raise AnalysisBroken("next_write: parameter roles changed")
        beg_p = [p for p in outs if "long" in p["t"] or "size_t" in p["t"]]
        wrap_p = [p for p in outs if p not in beg_p]
        if len(beg_p) != 1 or len(wrap_p) != 1:
            raise AnalysisBroken("next_write: out-parameters changed")
        rets = an.run(f, L.State())
        granted = 0
        bad = []
        for rv, st in rets:
            if rv is None or (L.is_const(rv) and rv.get(L.ONE, 0) == 0):
                continue
            granted += 1
            head = an.read(st, "self->head")
            cap = an.read(st, "self->capacity")
            n = an.read(st, "next_write:%s" % size_p[0]["n"])
            beg = st.cells.get("*next_write:%s" % beg_p[0]["n"])
            wrap = st.cells.get("*next_write:%s" % wrap_p[0]["n"], L.lconst(0))
            tails = [v for k, v in st.cells.items() if "holds.pos[" in k]
            if beg is None or len(tails) != 1:
                bad.append(("grant without a begin offset / without reading the slowest reader's position", st))
                continue
            tail = tails[0]
            endr = L.ladd(beg, n)
            lt = lambda a, b: ("le", L.ladd(L.lsub(a, b), L.lconst(1)))
            le = lambda a, b: ("le", L.lsub(a, b))
            eq = lambda a, b: ("eq", L.lsub(a, b))
            ok = some(st,
                      [lt(head, tail), le(head, beg), le(endr, tail)],
                      [le(tail, head), le(head, beg), le(endr, cap)],
                      [le(tail, head), le(endr, tail)],
                      [eq(tail, head), eq(wrap, L.lconst(1)), le(endr, cap)])
            if not ok:
                bad.append(("the granted region [beg, beg+n) = [%s, %s) is not inside the free space (head=%s, slowest reader at %s)"
                            % (_pretty(L.lshow(beg)), _pretty(L.lshow(endr)), _pretty(L.lshow(head)), _pretty(L.lshow(tail))), st))
            if not some(st, [eq(beg, head)], [eq(beg, L.lconst(0))]):
                bad.append(("a grant begins at %s, neither at head nor at 0" % _pretty(L.lshow(beg)), st))
        inst = "next_write: every grant lies in the free space"
        if granted == 0:
            raise AnalysisBroken("next_write never grants")
        if bad:
            for k, (msg, st) in enumerate(bad):
                res.fail(rule, inst, "%s|next_write|grant" % rule, f.loc(),
                         "next_write: %s: the writer is handed memory a reader has not consumed, or memory outside the buffer" % msg,
                         {"constraints": [_pretty("%s %s" % (op, L.lshow(l))) for op, l in st.cons][-12:]})
        else:
            res.oblige(rule, inst, True, "%d granting abstract state(s), each entails one free-space case" % granted, f.loc())
    def sec_write_map():
        # ---- channel_write_map ----------------------------------------------
        g = prog.func("channel_write_map")
        res.touched(g)
        col.maps = []
        rets = an.run(g, L.State())
        inst = "channel_write_map: mapped == beg + nbytes and the result is data + beg"
        okm = bool(col.maps)
        why = ""
        for f_, e, val, st in col.maps:
            if f_.name != g.name:
                continue
            begv = st.cells.get("channel_write_map:%s" % ROLE["wm_beg"])
            nv = an.read(st, "channel_write_map:%s" % ROLE["wm_nbytes"])
            if begv is None or not st.entails_eq(L.lsub(val, L.ladd(begv, nv))):
                okm = False
                why = "mapped = %s but the region handed out is [beg, beg + nbytes) with beg = %s" % (_pretty(L.lshow(val)), _pretty(L.lshow(begv or {})))
        for rv, st in rets:
            if rv is None or (L.is_const(rv) and rv.get(L.ONE, 0) == 0):
                continue
            begv = st.cells.get("channel_write_map:%s" % ROLE["wm_beg"])
            base = L.lvar("ptr:self->data")
            if begv is None or not st.entails_eq(L.lsub(rv, L.ladd(base, begv))):
                okm = False
                why = why or "the pointer returned is %s, not data + beg" % _pretty(L.lshow(rv))
            head = an.read(st, "self->head")
            if not st.entails_eq(L.lsub(head, begv or {})):
                okm = False
                why = why or "after the mapping head (%s) is not the beginning of the mapped region (%s): channel_abort_write / the next grant start from the wrong offset" % (_pretty(L.lshow(head)), _pretty(L.lshow(begv or {})))
        if okm:
            res.oblige(rule, inst, True, "%d store(s) to mapped, %d non-null return state(s)" % (len(col.maps), len(rets)), g.loc())
        else:
            res.fail(rule, inst, "%s|channel_write_map|map" % rule, g.loc(), "channel_write_map: " + (why or "no store to mapped found"))
    def sec_read_map():
        # ---- channel_read_map ------------------------------------------------
        h = prog.func("channel_read_map")
        res.touched(h)
        # the local pointer to this reader's hold position: defined from holds.pos
        hold_ptr_id = None
        for b_, i_, s_ in h.all_stmts():
            for lv, op, rhs, w in ir.writes_of(s_):
                if lv.get("k") == "var" and lv.get("pd") and isinstance(rhs, dict) and \
                        any(y.get("k") == "mem" and y.get("f") == "pos" and (ir.ap(y) or "").endswith("holds.pos") for y in ir.walk(rhs)):
                    hold_ptr_id = lv["id"]
        rets = an.run(h, L.State())
        inst = "channel_read_map: a non-empty slice is [hold position, head) or [hold position, high) and reader->pos records its end"
        nonempty = 0
        badr = None
        for rv, st in rets:
            nb = st.cells.get("channel_read_map:%s" % ROLE["rm_nbytes"])
            out = st.cells.get("channel_read_map:%s" % ROLE["rm_out"])
            if nb is None or out is None:
                continue
            if st.entails_eq(nb):
                continue
            nonempty += 1
            base = L.lvar("ptr:self->data")
            off = L.lsub(out, base)
            end = L.ladd(off, nb)
            head = an.read(st, "self->head")
            high = an.read(st, "self->high")
            rpos = an.read(st, "reader->pos")
            hk = st.ptr.get(("channel_read_map", hold_ptr_id)) if hold_ptr_id is not None else None
            holdpos = [st.cells[hk]] if hk in st.cells else []
            eq = lambda a, b: ("eq", L.lsub(a, b))
            ok = some(st, [eq(end, head), eq(rpos, head)], [eq(end, high), eq(rpos, L.lconst(0))])
            ok = ok and len(holdpos) == 1 and st.entails_eq(L.lsub(off, holdpos[0]))
            if not ok:
                badr = "a slice [%s, %s) is returned with reader->pos = %s, hold position %s (head=%s, high=%s)" % (
                    _pretty(L.lshow(off)), _pretty(L.lshow(end)), _pretty(L.lshow(rpos)),
                    _pretty(L.lshow(holdpos[0])) if holdpos else "?", _pretty(L.lshow(head)), _pretty(L.lshow(high)))
        if nonempty == 0:
            raise AnalysisBroken("channel_read_map never returns data")
        if badr:
            res.fail(rule, inst, "%s|channel_read_map|slice" % rule, h.loc(),
                     "channel_read_map: %s: the reader is handed bytes that are not exactly the committed, unread bytes of that lap" % badr)
        else:
            res.oblige(rule, inst, True, "%d non-empty return state(s)" % nonempty, h.loc())
    def sec_read_unmap():
        # ---- channel_read_unmap ------------------------------------------------
        u = prog.func("channel_read_unmap")
        res.touched(u)
        an.run(u, L.State())
        for fn_ in ("channel_write_unmap", "channel_abort_write"):
            an.run(prog.func(fn_), L.State())
            res.touched(prog.func(fn_))
        if an.truncated:
            raise AnalysisBroken("linear analysis truncated")
    def sec_inv():
        # ---- INV -----------------------------------------------------------------
        for (fn, line, key), oks in sorted(col.stores.items()):
            inst = "%s: store to %s keeps it within [0, capacity] (line %s)" % (fn, key, line)
            ff = prog.func(fn)
            if all(oks):
                res.oblige(rule, inst, True, "%d abstract state(s)" % len(oks), "%s:%s" % (ff.file, line))
            else:
                res.fail(rule, inst, "%s|%s|inv|%s" % (rule, fn, key), "%s:%s" % (ff.file, line),
                         "%s can store a value outside [0, capacity] into the cursor %s: later arithmetic on it leaves the buffer" % (fn, key))
    def sec_sub():
        # ---- SUB --------------------------------------------------------------------
        proven = 0
        for (fn, text), oks in sorted(col.subs.items()):
            if all(oks):
                proven += 1
                res.oblige(rule, "%s: %s does not wrap" % (fn, text), True, "%d abstract state(s)" % len(oks), prog.func(fn).loc())
            elif (fn, text) in SUB_PROVEN:
                res.fail(rule, "%s: %s does not wrap" % (fn, text), "%s|%s|sub|%s" % (rule, fn, text), prog.func(fn).loc(),
                         "%s: the unsigned subtraction %s is no longer guarded against wrapping around (it was proven non-negative on the reference tree)" % (fn, text))
            else:
                res.notes.append("R-LIN/SUB: %s: %s not proven non-negative by the linear domain (depends on lap relations)" % (fn, text))
    for sec in (sec_grant, sec_write_map, sec_read_map, sec_read_unmap, sec_inv, sec_sub):
        res.guard(sec)
    for sub in (rule_cursor_cmp, rule_reader_min, rule_available, rule_reader_ops, rule_writer_ops):
        res.guard(sub, prog, res, rule)
    return an


# ---------------------------------------------------------------------------
# further obligations (added after mutation analysis of the checkers showed
# which single-token edits of channel.c went unnoticed)
def _lt(a, b):
    return ("le", L.ladd(L.lsub(a, b), L.lconst(1)))


def _le(a, b):
    return ("le", L.lsub(a, b))


def _eq(a, b):
    return ("eq", L.lsub(a, b))


def _init(key):
    return L.lvar("%s#0" % key)


def _consistent(st, conj):
    s = st.copy()
    for op, l in conj:
        s.cons.append((op, l))
    return s.feasible()


def rule_cursor_cmp(prog, res, rule="R-LIN"):
    """cursor_cmp is the lexicographic order on (major, minor) pairs."""
    f = prog.func("cursor_cmp")
    res.touched(f)
    if len(f.params) != 4:
        raise AnalysisBroken("cursor_cmp: expected (major_a, minor_a, major_b, minor_b)")
    an = _A(prog)
    rets = an.run(f, L.State())
    bad = None
    for rv, st in rets:
        a0, a1, b0, b1 = [an.read(st, "cursor_cmp:%s" % p["n"]) for p in f.params]
        if rv is None or not L.is_const(rv):
            bad = "returns a non-constant"
            continue
        v = rv.get(L.ONE, 0)
        if v < 0:
            ok = some(st, [_lt(a0, b0)], [_eq(a0, b0), _lt(a1, b1)])
        elif v > 0:
            ok = some(st, [_lt(b0, a0)], [_eq(a0, b0), _lt(b1, a1)])
        else:
            ok = some(st, [_eq(a0, b0), _eq(a1, b1)])
        if not ok:
            bad = "returns %s on a path where (%s, %s) versus (%s, %s) is not ordered that way" % (
                v, f.params[0]["n"], f.params[1]["n"], f.params[2]["n"], f.params[3]["n"])
    inst = "cursor_cmp is the lexicographic order of (lap, position)"
    if bad:
        res.fail(rule, inst, "%s|cursor_cmp|order" % rule, f.loc(),
                 "cursor_cmp %s: the slowest reader is misidentified and the writer is granted its unread bytes" % bad)
    else:
        res.oblige(rule, inst, True, "%d return state(s)" % len(rets), f.loc())


def rule_reader_min(prog, res, rule="R-LIN"):
    """reader_min keeps the running minimum: one iteration either keeps
    (lap, position, index) and the kept pair is <= element i, or replaces all
    three by element i which is <= the previous pair; it starts from element 0
    and visits every index below n."""
    f = prog.func("reader_min")
    res.touched(f)
    from . import paths
    loops = paths.natural_loops(f)
    if len(loops) != 1 or len(f.params) != 3:
        raise AnalysisBroken("reader_min: expected one loop over (positions, laps, n)")
    head, body = loops[0]
    pos_p, lap_p, n_p = f.params
    # roles of the cells written in the loop body
    keys = {}
    an0 = _A(prog)
    st0 = L.State()
    for b in body:
        for s in f.blocks[b].stmts:
            for lv, op, rhs, w in ir.writes_of(s):
                r0 = ir.strip(rhs) if isinstance(rhs, dict) else None
                k = an0.cellkey(f, lv, st0)
                if k is None or not isinstance(r0, dict):
                    continue
                if r0.get("k") == "idx":
                    base = ir.strip(r0["b"])
                    if isinstance(base, dict) and base.get("k") == "var":
                        if base["id"] == pos_p["id"]:
                            keys["T"] = k
                        elif base["id"] == lap_p["id"]:
                            keys["C"] = k
                        keys["ivar"] = an0.cellkey(f, r0["i"], st0)
                elif r0.get("k") == "var" and op == "=":
                    keys["A"] = k
    if "A" in keys and "T" not in keys and "C" not in keys:
        # index-only form: the candidate is remembered by its index alone
        for b in body:
            for s_ in f.blocks[b].stmts:
                for lv, op, rhs, w in ir.writes_of(s_):
                    r0 = ir.strip(rhs) if isinstance(rhs, dict) else None
                    if isinstance(r0, dict) and r0.get("k") == "var" and an0.cellkey(f, lv, st0) == keys["A"]:
                        keys["ivar"] = an0.cellkey(f, r0, st0)
        return _reader_min_index_only(prog, res, f, head, body, keys, pos_p, lap_p, n_p, rule)
    if not all(x in keys for x in ("T", "C", "A", "ivar")):
        res.fail(rule, "reader_min keeps the running minimum", "%s|reader_min|shape" % rule, f.loc(),
                 "reader_min no longer updates the candidate (position, lap, index) together from element i: the index returned does not belong to the smallest cursor")
        return
    rec = {"pre": [], "entry": [], "back": []}
    an = _A(prog,
                    on_loop_pre=lambda f_, h, s: rec["pre"].append(s.copy()) if f_ is f else None,
                    on_loop_entry=lambda f_, h, s: rec["entry"].append(s) if f_ is f else None,
                    on_backedge=lambda f_, h, s: rec["back"].append(s.copy()) if f_ is f else None)

    def entry_hook(f_, h, s):
        if f_ is f:
            for kk in ("T", "C", "A", "ivar"):
                an.read(s, keys[kk])
    an.on_loop_entry = entry_hook
    rets = an.run(f, L.State())
    problems = []
    # start: candidate = element 0, index 0, i in {0, 1}
    for s in rec["pre"]:
        e0t = an.read(s, "reader_min:%s[0]" % pos_p["n"])
        e0c = an.read(s, "reader_min:%s[0]" % lap_p["n"])
        okp = keys["T"] in s.cells and keys["C"] in s.cells and keys["A"] in s.cells and keys["ivar"] in s.cells and \
            s.entails_eq(L.lsub(s.cells[keys["T"]], e0t)) and s.entails_eq(L.lsub(s.cells[keys["C"]], e0c)) and \
            s.entails_eq(s.cells[keys["A"]]) and \
            (s.entails_eq(s.cells[keys["ivar"]]) or s.entails_eq(L.lsub(s.cells[keys["ivar"]], L.lconst(1))))
        if not okp:
            problems.append("the scan does not start from element 0 (candidate, index 0, first i in {0,1})")
    if not rec["back"]:
        problems.append("the loop body never completes an iteration")
    for s in rec["back"]:
        T0, C0, A0, i0 = [L.lvar("%s#%d" % (keys[k], s.ver.get(keys[k], 1) - 1)) for k in ("T", "C", "A", "ivar")]
        # symbols created at the loop entry (after the havoc) carry the highest version
        T1, C1, A1, i1 = [s.cells.get(keys[k]) for k in ("T", "C", "A", "ivar")]
        if None in (T1, C1, A1, i1):
            problems.append("candidate cells lost")
            continue
        Et = an.read(s, "reader_min:%s[%s]" % (pos_p["n"], L.lshow(i0)))
        Ec = an.read(s, "reader_min:%s[%s]" % (lap_p["n"], L.lshow(i0)))
        n = an.read(s, "reader_min:%s" % n_p["n"])
        keep = [_eq(C1, C0), _eq(T1, T0), _eq(A1, A0)]
        take = [_eq(C1, Ec), _eq(T1, Et), _eq(A1, i0)]
        ok = some(s, keep + [_lt(C0, Ec)], keep + [_eq(C0, Ec), _le(T0, Et)],
                  take + [_lt(Ec, C0)], take + [_eq(Ec, C0), _le(Et, T0)])
        if not ok:
            problems.append("an iteration can end with a candidate that is not the smaller of (previous candidate, element i), or with an index that does not belong to it")
        if not s.entails_eq(L.lsub(i1, L.ladd(i0, L.lconst(1)))):
            problems.append("the index does not advance by one")
        if not s.entails_le(L.ladd(L.lsub(i0, n), L.lconst(1))):
            problems.append("the body runs for an index that is not below n")
    for rv, s in rets:
        i_ = s.cells.get(keys["ivar"])
        n = an.read(s, "reader_min:%s" % n_p["n"])
        if i_ is None or not s.entails_le(L.lsub(n, i_)):
            problems.append("the scan can stop before index n")
        if rv is None or not s.entails_eq(L.lsub(rv, s.cells.get(keys["A"], {}))):
            problems.append("the value returned is not the candidate's index")
    inst = "reader_min keeps the running minimum over all n readers"
    if problems:
        res.fail(rule, inst, "%s|reader_min|argmin" % rule, f.loc(),
                 "reader_min: %s: the writer measures free space against a reader that is not the slowest one" % "; ".join(sorted(set(problems))))
    else:
        res.oblige(rule, inst, True, "%d iteration state(s)" % len(rec["back"]), f.loc())


def _reader_min_index_only(prog, res, f, head, body, keys, pos_p, lap_p, n_p, rule):
    rec = {"pre": [], "back": []}
    an = _A(prog)

    def entry(f_, h, s):
        if f_ is f:
            for kk in ("A", "ivar"):
                if kk in keys:
                    s.cells["__0__" + kk] = an.read(s, keys[kk])
    an.on_loop_pre = lambda f_, h, s: rec["pre"].append(s.copy()) if f_ is f else None
    an.on_loop_entry = entry
    an.on_backedge = lambda f_, h, s: rec["back"].append(s.copy()) if f_ is f else None
    rets = an.run(f, L.State())
    problems = []
    if "ivar" not in keys:
        problems.append("the candidate index is not taken from the loop index")
    for s in rec["pre"]:
        okp = keys["A"] in s.cells and s.entails_eq(s.cells[keys["A"]]) and keys.get("ivar") in s.cells and \
            (s.entails_eq(s.cells[keys["ivar"]]) or s.entails_eq(L.lsub(s.cells[keys["ivar"]], L.lconst(1))))
        if not okp:
            problems.append("the scan does not start from index 0 (first i in {0,1})")
    if not rec["back"]:
        problems.append("the loop body never completes an iteration")
    for s in rec["back"]:
        A0, i0 = s.cells.get("__0__A"), s.cells.get("__0__ivar")
        A1, i1 = s.cells.get(keys["A"]), s.cells.get(keys.get("ivar"))
        if None in (A0, i0, A1, i1):
            problems.append("candidate cells lost")
            continue

        def elem(x):
            return (an.read(s, "reader_min:%s[%s]" % (lap_p["n"], L.lshow(x))), an.read(s, "reader_min:%s[%s]" % (pos_p["n"], L.lshow(x))))
        (Ca, Ta), (Ci, Ti) = elem(A0), elem(i0)
        n = an.read(s, "reader_min:%s" % n_p["n"])
        keep = [_eq(A1, A0)]
        take = [_eq(A1, i0)]
        ok = some(s, keep + [_lt(Ca, Ci)], keep + [_eq(Ca, Ci), _le(Ta, Ti)], take + [_lt(Ci, Ca)], take + [_eq(Ci, Ca), _le(Ti, Ta)])
        if not ok:
            problems.append("an iteration can end with a candidate index whose cursor is not the smaller of (previous candidate, element i)")
        if not s.entails_eq(L.lsub(i1, L.ladd(i0, L.lconst(1)))):
            problems.append("the index does not advance by one")
        if not s.entails_le(L.ladd(L.lsub(i0, n), L.lconst(1))):
            problems.append("the body runs for an index that is not below n")
    for rv, s in rets:
        i_ = s.cells.get(keys.get("ivar"))
        n = an.read(s, "reader_min:%s" % n_p["n"])
        if i_ is None or not s.entails_le(L.lsub(n, i_)):
            problems.append("the scan can stop before index n")
        if rv is None or not s.entails_eq(L.lsub(rv, s.cells.get(keys["A"], {}))):
            problems.append("the value returned is not the candidate's index")
    inst = "reader_min keeps the running minimum over all n readers"
    if problems:
        res.fail(rule, inst, "%s|reader_min|argmin" % rule, f.loc(),
                 "reader_min: %s: the writer measures free space against a reader that is not the slowest one" % "; ".join(sorted(set(problems))))
    else:
        res.oblige(rule, inst, True, "%d iteration state(s), index-only form" % len(rec["back"]), f.loc())


def rule_available(prog, res, rule="R-LIN"):
    """get_available_byte_count(reader, pos, cycle, high) is the length of the
    region read_map handed out: 0 when the reader cursor equals (pos, cycle),
    high - pos when the reader cursor is the next lap's start (reader->pos ==
    0), reader->pos - pos otherwise."""
    f = prog.func("get_available_byte_count")
    res.touched(f)
    if len(f.params) != 4:
        raise AnalysisBroken("get_available_byte_count: parameters changed")
    an = _A(prog)
    rets = an.run(f, L.State())
    bad = None
    for rv, st in rets:
        rpos = an.read(st, "reader->pos")
        rcyc = an.read(st, "reader->cycle")
        pos, cyc, high = [an.read(st, "get_available_byte_count:%s" % p["n"]) for p in f.params[1:]]
        if rv is None:
            bad = "returns nothing"
            continue
        same = [_eq(rpos, pos), _eq(rcyc, cyc)]
        if some(st, same + [("eq", rv)]):
            continue
        if _consistent(st, same):
            bad = "can return %s although the reader cursor equals the hold cursor (nothing mapped)" % _pretty(L.lshow(rv))
            continue
        if some(st, [("eq", rpos), _eq(rv, L.lsub(high, pos))]):
            continue
        if not _consistent(st, [("eq", rpos)]) and some(st, [_eq(rv, L.lsub(rpos, pos))]):
            continue
        bad = "returns %s where the mapped region is [pos, %s)" % (_pretty(L.lshow(rv)), "high or reader->pos")
    inst = "get_available_byte_count is the length of the mapped region"
    if bad:
        res.fail(rule, inst, "%s|get_available_byte_count|length" % rule, f.loc(),
                 "get_available_byte_count %s: channel_read_unmap then releases more or fewer bytes than were mapped" % bad)
    else:
        res.oblige(rule, inst, True, "%d return state(s)" % len(rets), f.loc())


@_memoised
def rule_reader_ops(prog, res, rule="R-LIN"):
    """channel_read_map / channel_read_unmap, beyond READ:
    OVF   the overflow error is raised only when the hold cursor is neither in
          the writer's lap at or before head nor one lap behind at or after head;
    SKIP  the hold position is moved to the start of the next lap only when
          nothing is left in the old lap (position == high);
    STATE data is handed out only to an unmapped reader, which becomes mapped;
          unmap acts only on a mapped reader, which becomes unmapped;
    REG   the slot written at registration is the slot map and unmap use;
    UNMAP the new hold cursor is (pos + consumed, lap) or the reader cursor,
          moved to (0, lap + 1) exactly when it reached high with the writer
          already in the next lap."""
    ROLE = _roles(prog)
    mapped_v = dict(prog.enum_values("ChannelState") or []).get("ChannelState_Mapped")
    unmapped_v = dict(prog.enum_values("ChannelState") or []).get("ChannelState_Unmapped")
    err_v = dict(prog.enum_values("ChannelStatus") or []).get("Channel_Error")
    if mapped_v is None or unmapped_v is None or err_v is None:
        raise AnalysisBroken("ChannelState / ChannelStatus enumerators not found")
    h = prog.func("channel_read_map")
    u = prog.func("channel_read_unmap")
    res.touched(h, u)

    def hold_ptrs(f):
        out = {}
        for b_, i_, s_ in f.all_stmts():
            for lv, op, rhs, w in ir.writes_of(s_):
                if lv.get("k") == "var" and lv.get("pd") and isinstance(rhs, dict):
                    for y in ir.walk(rhs):
                        if y.get("k") == "mem" and (ir.ap(y) or "").endswith("holds.pos"):
                            out["pos"] = lv["id"]
                        if y.get("k") == "mem" and (ir.ap(y) or "").endswith("holds.cycles"):
                            out["cycle"] = lv["id"]
        if len(out) != 2:
            raise AnalysisBroken("%s: local pointers to the reader's hold cursor not found" % f.name)
        return out
    hp, up = hold_ptrs(h), hold_ptrs(u)
    events = {"ovf": [], "skip": [], "reg": []}

    def on_store(f, e, key, val, st):
        if f is h and key.endswith("reader->status") and L.is_const(val) and val.get(L.ONE, 0) == err_v:
            events["ovf"].append(st.copy())
        if f is h and key == st.ptr.get((h.name, hp["pos"])) and L.is_const(val) and val.get(L.ONE, 0) == 0:
            events["skip"].append((st.copy(), key))
        if f.name == "reader_initialize" and ("holds.pos[" in key or "holds.cycles[" in key):
            events["reg"].append(key)
    an = _A(prog, invariant=invariant, on_store=on_store)
    st0 = L.State()
    rets = an.run(h, st0)
    problems = []

    def cur(st, f, ptrs, which):
        k = st.ptr.get((f.name, ptrs[which]))
        return k, (st.cells.get(k) if k else None)
    # OVF
    for st in events["ovf"]:
        kp, pos = cur(st, h, hp, "pos")
        kc, cyc = cur(st, h, hp, "cycle")
        if pos is None or cyc is None:
            # no hold cursor yet: the only legitimate error is the refusal of a reader for which no slot is left
            from .channelrules import hold_slots
            nn, idv = an.read(st, "self->holds.n"), an.read(st, "reader->id")
            if nn is not None and idv is not None and st.entails_le(L.lsub(L.lconst(hold_slots(prog)), nn)) and st.entails_le(idv):
                continue
            problems.append(("ovf", "the overflow error is raised without reading the hold cursor"))
            continue
        head = an.read(st, "self->head")
        wc = an.read(st, "self->cycle")
        if _consistent(st, [_eq(cyc, wc), _le(pos, head)]) or _consistent(st, [_eq(wc, L.ladd(cyc, L.lconst(1))), _le(head, pos)]):
            problems.append(("ovf", "the overflow error (Channel_Error, skip to the writer's head) can be raised for a reader that has not been overrun: "
                                    "its unread bytes are dropped"))
    # SKIP
    for st, key in events["skip"]:
        old = st.cells.get(key)
        high = an.read(st, "self->high")
        idv = an.read(st, "reader->id")
        if old is None or not st.entails_eq(L.lsub(old, high)):
            problems.append(("skip", "the hold position is reset to the start of the next lap while bytes of the old lap may remain unread (position != high)"))
    # STATE / REG / READ lap at the returns
    if not any(True for rv, st in rets):
        raise AnalysisBroken("channel_read_map: no return state")
    for rv, st in rets:
        nb = st.cells.get("channel_read_map:%s" % ROLE["rm_nbytes"])
        if nb is None:
            continue
        state0 = _init("reader->state")
        state1 = st.cells.get("reader->state", state0)
        if not st.entails_eq(nb):
            if _consistent(st, [_eq(state0, L.lconst(mapped_v))]):
                problems.append(("state", "bytes are handed to a reader that is already mapped"))
            if not st.entails_eq(L.lsub(state1, L.lconst(mapped_v))):
                problems.append(("state", "a reader that was handed bytes is not marked mapped: its release is ignored and it never advances"))
            rc = st.cells.get("reader->cycle")
            wc = an.read(st, "self->cycle")
            if rc is None or not st.entails_eq(L.lsub(rc, wc)):
                problems.append(("lap", "the reader cursor's lap is not the writer's lap after a non-empty map"))
        else:
            if not st.entails_eq(L.lsub(state1, state0)) and not st.entails_eq(L.lsub(state1, L.lconst(unmapped_v))):
                problems.append(("state", "an empty map leaves the reader marked mapped"))
    regs = {_pretty(k) for k in events["reg"]}
    # unmap
    events_u = {"stores": []}

    def on_store_u(f, e, key, val, st):
        if f is u and ("holds.pos[" in key or "holds.cycles[" in key):
            events_u["stores"].append((st.copy(), key))
    an2 = _A(prog, invariant=invariant, on_store=on_store_u)
    rets_u = an2.run(u, L.State())
    kp_un, kc_un = set(), set()
    for rv, st in rets_u:
        state0 = _init("reader->state")
        kp, pos1 = cur(st, u, up, "pos")
        kc, cyc1 = cur(st, u, up, "cycle")
        if kp is None:
            # early return: nothing may have been stored
            continue
        kp_un.add(_pretty(kp))
        kc_un.add(_pretty(kc))
        pos0, cyc0 = _init(kp), _init(kc)
        rpos, rcyc = an2.read(st, "reader->pos"), an2.read(st, "reader->cycle")
        c = _init("channel_read_unmap:%s" % u.params[2]["n"])
        Lv = st.cells.get("channel_read_unmap:%s" % ROLE["ru_length"])
        head = an2.read(st, "self->head")
        high = an2.read(st, "self->high")
        state1 = st.cells.get("reader->state", state0)
        if not st.entails_eq(L.lsub(state1, L.lconst(unmapped_v))):
            problems.append(("state", "channel_read_unmap can return leaving the reader marked mapped"))
        if Lv is None or pos1 is None or cyc1 is None:
            problems.append(("unmap", "channel_read_unmap no longer measures the mapped length / updates the hold cursor"))
            continue
        one = L.lconst(1)
        ok = some(st,
                  [_lt(c, Lv), _eq(pos1, L.ladd(pos0, c)), _eq(cyc1, cyc0)],
                  [_le(Lv, c), _eq(pos1, rpos), _eq(cyc1, rcyc)],
                  [_lt(c, Lv), _eq(L.ladd(pos0, c), high), _lt(head, high), ("eq", pos1), _eq(cyc1, L.ladd(cyc0, one))],
                  [_le(Lv, c), _eq(rpos, high), _lt(head, high), ("eq", pos1), _eq(cyc1, L.ladd(rcyc, one))])
        if not ok:
            problems.append(("unmap", "the hold cursor after a release is (%s, %s): neither (position + consumed, lap), nor the reader cursor, nor their normalisation to (0, lap + 1) at high"
                             % (_pretty(L.lshow(pos1)), _pretty(L.lshow(cyc1)))))
    for st, key in events_u["stores"]:
        state0 = _init("reader->state")
        if _consistent(st, [_lt(state0, L.lconst(mapped_v))]) or _consistent(st, [_lt(L.lconst(mapped_v), state0)]):
            if "reader->state" in st.cells or True:
                # the store happens although the reader may not have been mapped
                if not st.entails_eq(L.lsub(an2.read(st, "reader->state") if "reader->state" in st.cells else state0, L.lconst(mapped_v))):
                    problems.append(("state", "channel_read_unmap moves the hold cursor of a reader that is not mapped"))
    # states of channel_read_map in which the reader was registered by this call
    kp_map, kc_map, kp_reg, kc_reg = set(), set(), set(), set()
    for rv, st in rets:
        registered = st.cells.get("reader->id") is not None and st.cells["reader->id"] != _init("reader->id")
        if (h.name, hp["pos"]) not in st.ptr and (h.name, hp["cycle"]) not in st.ptr:
            continue   # a return taken before the slot pointers were formed addresses no slot
        kp = _pretty(st.ptr.get((h.name, hp["pos"]), "?"))
        kc = _pretty(st.ptr.get((h.name, hp["cycle"]), "?"))
        (kp_reg if registered else kp_map).add(kp)
        (kc_reg if registered else kc_map).add(kc)
    if len(kp_map | kp_un) != 1 or len(kc_map | kc_un) != 1 or not (kp_reg | kc_reg) <= regs:
        problems.append(("slot", "registration, map and unmap do not address the same slot of the hold arrays (registration writes %s; map uses %s, %s - after registering %s, %s; unmap uses %s, %s)"
                         % (sorted(regs), sorted(kp_map), sorted(kc_map), sorted(kp_reg), sorted(kc_reg), sorted(kp_un), sorted(kc_un))))
    # slot index is >= 0 after registration
    for rv, st in rets:
        k = st.ptr.get((h.name, hp["pos"]))
        if k and "[" in k:
            idv = an.read(st, "reader->id")
            if not st.entails_le(L.lsub(L.lconst(1), idv)):
                problems.append(("slot", "channel_read_map can address slot reader->id - 1 with reader->id == 0 (the reader was not registered)"))
    seen = set()
    tags = ("ovf", "skip", "state", "lap", "unmap", "slot")
    for tag in tags:
        msgs = sorted({m for t, m in problems if t == tag})
        inst = {"ovf": "channel_read_map raises the overflow error only for an overrun reader",
                "skip": "channel_read_map moves to the next lap only when the old lap is exhausted",
                "state": "the reader's mapped / unmapped state follows map and unmap",
                "lap": "a non-empty map leaves the reader cursor in the writer's lap",
                "unmap": "channel_read_unmap moves the hold cursor by exactly the consumed bytes",
                "slot": "registration, map and unmap address the same, valid slot"}[tag]
        if msgs:
            for m in msgs:
                res.fail(rule, inst, "%s|reader|%s" % (rule, tag), (h if tag in ("ovf", "skip", "lap") else u).loc(), m)
        else:
            res.oblige(rule, inst, True, "", h.loc())


def rule_writer_ops(prog, res, rule="R-LIN"):
    """WRAP   channel_write_map: when the granted region does not start at the
              old head the lap change is recorded (high = old head, lap + 1,
              head = beg); otherwise high and lap are unchanged;
       COMMIT channel_write_unmap: head = mapped when writes are accepted;
       ALL    the wrap-everybody loop visits every registered reader."""
    ROLE = _roles(prog)
    g = prog.func("channel_write_map")
    res.touched(g)
    an = _A(prog, invariant=invariant)
    rets = an.run(g, L.State())
    problems = []
    nonnull = 0
    for rv, st in rets:
        if rv is None or (L.is_const(rv) and rv.get(L.ONE, 0) == 0):
            continue
        nonnull += 1
        # the values the cursors had when the grant was computed: the symbols
        # created after the wait loop's havoc (highest version at that time
        # is what next_write read); head0 is the version next_write saw
        beg = st.cells.get("channel_write_map:%s" % ROLE["wm_beg"])
        head1, high1, cyc1 = an.read(st, "self->head"), an.read(st, "self->high"), an.read(st, "self->cycle")
        hv = st.ver.get("self->head", 1) - 1
        head0 = L.lvar("self->head#%d" % hv)
        cyc0 = L.lvar("self->cycle#%d" % (st.ver.get("self->cycle", 1) - 1))
        high0 = L.lvar("self->high#%d" % (st.ver.get("self->high", 1) - 1))
        if beg is None:
            problems.append("a region is returned without a begin offset")
            continue
        one = L.lconst(1)
        ok = some(st,
                  [_eq(beg, head0), _eq(head1, head0), _eq(high1, high0), _eq(cyc1, cyc0)],
                  [_eq(head1, beg), _eq(high1, head0), _eq(cyc1, L.ladd(cyc0, one))])
        if not ok:
            problems.append("after a grant that starts a new lap the bookkeeping is head=%s high=%s lap=%s (expected head = beg, high = old head, lap + 1; or all unchanged when the region starts at head)"
                            % (_pretty(L.lshow(head1)), _pretty(L.lshow(high1)), _pretty(L.lshow(cyc1))))
    inst = "channel_write_map records a lap change as high = old head, lap + 1"
    if nonnull == 0:
        res.fail(rule, inst, "%s|channel_write_map|wrap" % rule, g.loc(), "channel_write_map never returns a region")
    elif problems:
        for m in sorted(set(problems)):
            res.fail(rule, inst, "%s|channel_write_map|wrap" % rule, g.loc(),
                     "channel_write_map: %s: readers take the end of the previous lap from high and the lap from cycle" % m)
    else:
        res.oblige(rule, inst, True, "%d non-null return state(s)" % nonnull, g.loc())
    # COMMIT
    wu = prog.func("channel_write_unmap")
    res.touched(wu)
    an = _A(prog, invariant=invariant)
    rets = an.run(wu, L.State())
    okc = bool(rets)
    for rv, st in rets:
        acc = _init("self->is_accepting_writes")
        head1 = st.cells.get("self->head", _init("self->head"))
        mapped = an.read(st, "self->mapped")
        if _consistent(st, [_lt(L.lconst(0), acc)]) and not st.entails_eq(L.lsub(head1, mapped)):
            # state where writes are accepted but head was not advanced
            s2 = st.copy()
            s2.cons.append(_lt(L.lconst(0), acc))
            if s2.feasible() and not s2.entails_eq(L.lsub(head1, mapped)):
                okc = False
    inst = "channel_write_unmap commits: head = mapped while writes are accepted"
    if okc:
        res.oblige(rule, inst, True, "", wu.loc())
    else:
        res.fail(rule, inst, "%s|channel_write_unmap|commit" % rule, wu.loc(),
                 "channel_write_unmap can return with writes accepted and head != mapped: the frame just written is never published")
    # ALL: canonical counted loop over holds.n in the wrap branch
    from . import paths
    okl = False
    for hd, body in paths.natural_loops(g):
        writes = [ir.ap(lv) or "" for b in body for s in g.blocks[b].stmts for lv, op, rhs, w in ir.writes_of(s)]
        if not any("holds.pos" in w for w in writes):
            continue
        rec = {"pre": [], "back": [], "exit": []}
        an = _A(prog, invariant=invariant,
                        on_loop_pre=lambda f_, h_, s, hd=hd: rec["pre"].append(s.copy()) if (f_ is g and h_ == hd) else None,
                        on_backedge=lambda f_, h_, s, hd=hd: rec["back"].append(s.copy()) if (f_ is g and h_ == hd) else None)
        an.run(g, L.State())
        ivars = [k for k in {an.cellkey(g, lv, L.State()) for b in body for s in g.blocks[b].stmts for lv, op, rhs, w in ir.writes_of(s)
                             if ir.strip(lv).get("k") == "var"} if k]
        if len(ivars) != 1:
            continue
        iv = ivars[0]
        okl = bool(rec["pre"]) and bool(rec["back"])
        for s in rec["pre"]:
            if iv not in s.cells or not s.entails_eq(s.cells[iv]):
                okl = False
        for s in rec["back"]:
            i0 = L.lvar("%s#%d" % (iv, s.ver.get(iv, 1) - 1))
            n = an.read(s, "self->holds.n")
            if not s.entails_eq(L.lsub(s.cells.get(iv, {}), L.ladd(i0, L.lconst(1)))) or not s.entails_le(L.ladd(L.lsub(i0, n), L.lconst(1))):
                okl = False
            kpos = [k for k in s.cells if "holds.pos[" in k and _pretty(k).endswith("[%s]" % _pretty(L.lshow(i0)))]
            if not kpos or not all(s.entails_eq(s.cells[k]) for k in kpos):
                okl = False
    inst = "channel_write_map's wrap-everybody loop resets every registered reader (i = 0 .. holds.n - 1)"
    if okl:
        res.oblige(rule, inst, True, "", g.loc())
    else:
        res.fail(rule, inst, "%s|channel_write_map|all-readers" % rule, g.loc(),
                 "the loop that moves all readers to the new lap does not run over exactly the registered readers 0 .. holds.n - 1")
