"""C07 — abort and stop always return and leave a reusable runtime.  Liveness
over schedules is not statically decidable; decided necessary conditions
(DESIGN.md 4/C07)."""
from .. import runtimerules as RR
from .. import lockrules as LR
from ..locks import LockAnalysis
from ..build import AnalysisBroken

EXPLANATION = (
    "Static analysis over clang CFGs. R-ABORT-SEQ: for every valid stream "
    "acquire_abort requests the source to stop, refuses writes on the sink's "
    "channel and fires the camera's trigger before it calls acquire_stop. "
    "R-STOP-SEQ: acquire_stop joins source, filter and sink (every thread for "
    "which a thread_create exists), re-accepts writes afterwards and leaves the "
    "state Armed. R-THREAD-EXIT: every exit path of the three worker functions "
    "clears is_running and is_stopping, the source stops the camera and signals "
    "both downstream workers, the sink stops the storage. R-START-RESET: every "
    "start (re)initialises is_stopping/is_running before creating its worker, "
    "because a stop request can be stored after the previous worker exited. "
    "L-CV / L-NOTIFY / L-RECHECK for the writer's wait (C03): abort relies on the "
    "refused write waking a source blocked on a full ring. Absence of deadlock "
    "for every fill level and client state, and 'no leftovers' in the next "
    "acquisition, are schedule/arithmetic questions and are not decided. "
    "Thorough tier: API-SIM, a typestate simulation of the real acquire_* entry "
    "points over the real controllers and HAL with a sequential worker model "
    "(thread_create records a pending worker; 'run worker' and thread_join run "
    "its body): every history of configure/start/run/stop/abort/get_state/"
    "shutdown to a fixpoint; after stop/abort no created worker is un-joined, "
    "camera and storage are stopped, the state is Armed, and a successful start "
    "begins with no stale stop request and three workers.")
EXPLANATION += (' R-PLATFORM: the synchronisation wrappers every rule relies on (lock, condition variable, thread_create / thread_join with the live mark, event_wait / event_notify_all) forward to the pthread primitive on their own object on every path; a joined handle is marked not live, a created one live; the event flag is set under the mutex before the broadcast.')
EXPLANATION += (' R-ABORT-SEQ also orders the stop request before the one-shot trigger (through helpers). R-THREAD-EXIT: no device call after is_running = 0.')



def run(ctx, res):
    prog = ctx.program()
    res.extra["explanation"] = EXPLANATION
    res.assumptions += ["OS scheduling fairness; pthread primitives trusted (the wrappers in linux/platform.c are checked by R-PLATFORM)",
                        "device stop calls return (C18 for the simulated cameras)"]
    res.guard(RR.rule_abort_sequence, prog, res)
    res.guard(RR.rule_stop_sequence, prog, res)
    res.guard(RR.rule_thread_exit, prog, res)
    res.guard(RR.rule_start_reset, prog, res)
    la = LockAnalysis(prog)
    sites = [s for s in la.wait_sites() if s["fn"].name == "channel_write_map"]
    if not sites:
        raise AnalysisBroken("no wait site in channel_write_map")
    for site in sites:
        LR.rule_l_recheck(la, res, site)
        LR.rule_l_recheck_nested(la, res, site)
        LR.rule_refusal_ends_wait(la, res, site)
        site = dict(site, reads=LR.full_reads(site))
        if site["loop"]:
            LR.rule_l_cv(la, res, site)
            LR.rule_l_notify(la, res, prog.func("channel_accept_writes"), site["cv"], site["reads"])
            LR.rule_hold_notify(la, res, prog.func("channel_read_map"), site["cv"], site["reads"])
    # "no leftovers from the aborted acquisition": whatever a worker maps from its input it releases whole,
    # also on the paths taken once the output refuses writes (abort)
    res.guard(RR.rule_drain_after_stop, prog, res, "video_filter_thread", {"process_data"}, passes=2)
    res.guard(RR.rule_consume_file, prog, res, "process_data", "iterate")
    res.guard(RR.rule_consume_file, prog, res, "video_sink_thread", "append")
    res.guard(RR.rule_pairs, prog, res, ["video_sink_thread", "process_data", "acquire_stop"])
    # "no leftovers from the aborted acquisition": an averaging window that abort left open (mapped, never
    # committed) is in ring memory the next window is placed on; the filter starts every window from zero
    from .c10 import init_rmw
    res.guard(init_rmw, prog, res, prog.func("process_data"))
    res.require_min("O-INIT-RMW", 1)
    res.require_min("R-CONSUME", 2)
    res.require_min("L-REFUSE-WAKES", 1)
    res.guard(RR.rule_start_unwind, prog, res)
    res.require_min("R-START-UNWIND", 9)
    res.require_min("PAIR", 4)
    from .. import platformrules as PR
    PR.run_all(prog, la, res)
    res.require_min("R-PLATFORM", 18)
    if ctx.tier == "thorough":
        # multi-acquisition histories through the real API code
        from ..apisim import run_rules
        run_rules(prog, res, ("API-QUIESCE", "API-START-CLEAN"), "API-SIM")
    res.require_min("R-ABORT-SEQ", 3)
    res.require_min("R-STOP-SEQ", 5)
    res.require_min("R-THREAD-EXIT", 9)
    res.require_min("R-START-RESET", 6)
    res.guard(RR.rule_stop_chain, prog, res)
    res.require_min("R-STOP-CHAIN", 2)
    res.require_min("L-CV", 12)
