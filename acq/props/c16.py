"""C16 — storage I/O failures are contained and reported; only owned
descriptors are used (DESIGN.md 4/C16)."""
from .. import ir, paths
from ..storagesim import simulate, KINDS
from ..exc import rule_x_barrier
from ..build import AnalysisBroken

RULES = ("FD-TYPESTATE", "FAIL-CONTAINED", "REC-UNBOUNDED", "MEM-UAF",
         "MEM-DOUBLE-FREE", "MEM-NULL", "MEM-NULL-CALL")

EXPLANATION = (
    "Typestate / property simulation of the real storage drivers (raw, tiff, "
    "tiff-json, trash) driven through the real HAL wrappers over their clang "
    "CFGs: every finite sequence of set/get/start/append/stop/close is explored "
    "to a fixpoint of the abstract inter-call states; file_create and "
    "file_write fail nondeterministically at every call. Per struct file a "
    "descriptor typestate {closed, open}: create requires closed, write and "
    "close require open, nothing may be open when the device is released; a "
    "failed write during append must leave the HAL state not Running; re-entry "
    "of a function with an unchanged abstract state is unbounded recursion. "
    "Plus LOOP-PROGRESS on the platform's write-all loop: every path around "
    "the loop changes a variable its exit condition reads. X-BARRIER: no "
    "exception can leave a C++ function stored in a Storage slot, tiff_init or "
    "side_by_side_tiff_init, a noexcept member or a destructor. Exhaustive within "
    "the abstraction (constants, enumerators, pointers; counters unknown); OS "
    "behaviour (flock, hangs inside system calls) is not modelled.")
EXPLANATION += (' file_write ADVANCE / COMPLETE / VARIANT by the linear domain.')



def loop_progress(prog, res, fname="file_write"):
    """Every cycle of every loop in `fname` assigns a variable that the
    loop's exit conditions read (necessary for the retry budget to bound every
    path)."""
    f = prog.func(fname)
    res.touched(f)
    n = 0
    for head, body in paths.natural_loops(f):
        conds = []
        for x in sorted(body):
            blk = f.blocks[x]
            if len(blk.succs) >= 2 and any(s.get("to") is not None and s["to"] not in body for s in blk.succs):
                c = blk.cond_node()
                if c is not None:
                    conds.append(c)
        cvars = set()
        for c in conds:
            for y in ir.walk(c):
                if y.get("k") == "var":
                    cvars.add(y["id"])
        if not cvars:
            continue
        n += 1

        def progresses(s):
            for lv, op, rhs, whole in ir.writes_of(s):
                if lv.get("k") == "var" and lv["id"] in cvars:
                    return True
            return False
        # every path from the header back to the header passes a progress stmt
        ok = True
        wit = None
        for t in [b for b in body if head in f.blocks[b].succ_ids()]:
            # paths head -> t (inside body) must pass progress; check by
            # searching a progress-free path from head to t within body
            seen = set()
            st = [(head, [head])]
            while st:
                b, path = st.pop()
                if b in seen:
                    continue
                seen.add(b)
                if any(progresses(s) for s in f.blocks[b].stmts):
                    continue
                if b == t:
                    ok = False
                    wit = path
                    break
                for s in f.blocks[b].succ_ids():
                    if s in body:
                        st.append((s, path + [s]))
            if not ok:
                break
        names = sorted({y["n"] for c in conds for y in ir.walk(c) if y.get("k") == "var"})
        inst = "%s loop@block%d over %s" % (fname, head, names)
        if ok:
            res.oblige("LOOP-PROGRESS", inst, True,
                       "every path around the loop assigns one of %s" % names, f.loc())
        else:
            lines = [f.blocks[b].stmts[0].get("line") for b in wit if f.blocks[b].stmts]
            res.fail("LOOP-PROGRESS", inst, "LOOP-PROGRESS|%s|%s" % (fname, ",".join(names)), f.loc(),
                     "%s has a path around its retry loop (lines %s) that changes none of the variables the loop condition reads (%s): a persistent failure on that path retries forever"
                     % (fname, lines, names), {"path_blocks": wit})
    return n


def run_storage_rules(prog, res, rules, label, kinds=None):
    total_states = total_trans = 0
    for kind in (kinds or KINDS):
        m, it, ex = simulate(prog, kind)
        if it.truncated:
            raise AnalysisBroken("simulation of %s truncated: %s" % (kind, it.truncated[:3]))
        total_states += len(ex.states)
        total_trans += ex.transitions
        mine = {k: r for k, r in it.reports.items() if r["rule"] in rules}
        for key, r in sorted(mine.items()):
            res.fail(r["rule"], "%s: %s" % (kind, key.split("|", 2)[-1]), key,
                     "storage kind %s" % kind, r["message"], r["witness"])
        res.oblige(label, "storage kind %s" % kind, not mine,
                   "%d abstract inter-call states, %d transitions, %d inlined calls; file_create/file_write/file_close stub events: %s"
                   % (len(ex.states), ex.transitions, it.stats["calls"], m.events), m.init_fn)
        for k, st in list(ex.states.items())[:3]:
            res.samples.append({"kind": kind, "witness_sequence": ex.witness[k],
                                "hal_state": str(m.dev_state(it, st)),
                                "open_descriptors": [".".join(map(str, l[1])) for l in m.open_fds(st)]})
        for nm in (m.init_fn,):
            res.touched(prog.func(nm))
        if kind in ("raw", "tiff", "tiff-json") and m.events["file_create"] == 0:
            raise AnalysisBroken("the %s simulation never reached file_create" % kind)
    res.extra["states"] = total_states
    res.extra["transitions"] = total_trans
    res.extra["exhaustive"] = True


def run(ctx, res):
    prog = ctx.program()
    res.extra["explanation"] = EXPLANATION
    res.assumptions += [
        "one thread drives a storage device at a time (HAL protocol)",
        "allocation failure is outside the fault model (malloc/new succeed)",
        "file_create / file_write either succeed or fail; file_close always completes",
        "std::filesystem status/exists/is_directory/create_directory may throw; string and path construction only on allocation failure",
        "integers other than constants/enumerators are unknown",
    ]
    for fn in ("storage_set", "storage_start", "storage_append", "storage_stop", "storage_close",
               "raw_start", "raw_stop", "raw_append", "raw_destroy", "tiff_append", "tiff_stop",
               "side_by_side_tiff_start", "side_by_side_tiff_stop", "side_by_side_tiff_append",
               "trash_append", "basic_device_close"):
        res.touched(prog.func(fn))
    run_storage_rules(prog, res, RULES, "FD/FAIL-SIM")
    n = loop_progress(prog, res, "file_write")
    from ..filewrite import rule_file_write
    res.guard(rule_file_write, prog, res)
    if n < 1:
        raise AnalysisBroken("file_write no longer contains a retry loop")
    rule_x_barrier(prog, res, tus=["storage/tiff.cpp", "storage/side-by-side-tiff.cpp"])
    res.require_min("X-BARRIER", 20)
    res.require_min("FD/FAIL-SIM", 4)
    from ..filecreate import rule_file_create
    res.guard(rule_file_create, prog, res, ("FD-ONCE", "LOCK-FIRST"))
    res.require_min("R-CREATE", 2)
    from ..filecreate import rule_close_reaches
    res.guard(rule_close_reaches, prog, res)
    res.require_min("R-CLOSE-REACHES", 1)
    from ..filecreate import rule_errno_fresh
    res.guard(rule_errno_fresh, prog, res)
    res.require_min("R-ERRNO-FRESH", 6)
    res.require_min("LOOP-PROGRESS", 1)
