"""C04 — every acquired frame reaches storage exactly once, in order,
bit-exact.  The property as a whole quantifies over schedules and ring
contents and is not statically decidable; this check decides its structural
necessary conditions (DESIGN.md 4/C04)."""
from .. import runtimerules as RR
from ..locks import LockAnalysis
from ..channelrules import rule_empty_drained, rule_cursor_pair, rule_cursor_copy

EXPLANATION = (
    "Static path analysis over the clang CFGs of source.c, sink.c, filter.c and "
    "acquire.c. PAIR: in every function that maps a private reader (sink main "
    "loop, sink flush, filter, stop-time flush) every path from channel_read_map "
    "reaches channel_read_unmap of the same (channel, reader) before the exit or "
    "the next map - a reader left mapped makes the next map discard everything "
    "up to the writer's head. NOT-AFTER: the source commits nothing after it "
    "signalled filter/sink to stop. LOOP-UNTIL: the sink's final flush loops "
    "until an empty slice (with C01's 'empty means drained' this is 'the flush "
    "drains'). R-WIRING: all channels/callbacks of one stream's controllers are "
    "rooted at the same video element and each stop signal resolves its stream "
    "with containerof on its own argument (two streams never mix). R-FRAME-ID: "
    "the header's frame_id is a counter that starts at 0 and is incremented once, "
    "together with the header fill; the hardware id is copied from the camera's "
    "ImageInfo. From C01, because the flush loops depend on them: an empty "
    "region means drained (equality-domain dataflow on channel_read_map) and a "
    "cursor's position is never reset without its lap. Bit-exactness, order and multiplicity under schedules, and all "
    "write delays (timing), are not decided.")
EXPLANATION += (" R-CONSUME (symbolic evaluation of mapped regions): each release consumes exactly what was handed to storage / walked to exhaustion. R-DRAIN: a pass over the input follows every read of the stop flag. R-LIN: the channel's arithmetic obligations (see C01/C02).")



def run(ctx, res):
    prog = ctx.program()
    res.extra["explanation"] = EXPLANATION
    res.assumptions += [
        "the channel delivers committed bytes exactly once in order (C01/C02)",
        "acquire_map_read / acquire_unmap_read are paired by the client, not by the runtime (checked under C06)",
    ]
    res.guard(RR.rule_pairs, prog, res, ["video_sink_thread", "process_data", "acquire_stop"])
    res.guard(RR.rule_not_after_stop_signal, prog, res)
    res.guard(RR.rule_loop_until_empty, prog, res, "video_sink_thread", "last")
    res.guard(RR.rule_wiring, prog, res)
    res.guard(RR.rule_frame_counter, prog, res)
    res.guard(RR.rule_consume_file, prog, res, "video_sink_thread", "append")
    res.guard(RR.rule_consume_file, prog, res, "process_data", "iterate")
    res.guard(RR.rule_drain_after_stop, prog, res, "video_sink_thread", {"storage_append"})
    res.guard(RR.rule_drain_after_stop, prog, res, "video_filter_thread", {"process_data"}, passes=2)
    # a failed / not yet filled reservation of the source is never published by the filter
    from .c10 import commit_own
    res.guard(commit_own, prog, res, prog.func("process_data"), "R-COMMIT-OWN")
    res.require_min("R-COMMIT-OWN", 2)
    from ..channelarith import rule_linear
    res.guard(rule_linear, prog, res)
    res.require_min("R-LIN", 15)
    # the inductive cursor invariant, laps included (channelinduct.py)
    from ..channelinduct import rule_induct
    res.guard(rule_induct, prog, res, with_mapped=True)
    res.require_min("R-INDUCT", 12)
    res.require_min("R-DRAIN", 2)
    # the channel clauses every flush loop depends on (anchored in channel.c)
    res.guard(rule_empty_drained, prog, res)
    res.guard(rule_cursor_pair, prog, res, LockAnalysis(prog))
    res.guard(rule_cursor_copy, prog, res, LockAnalysis(prog))
    res.require_min("PAIR", 4)
    res.require_min("NOT-AFTER", 2)
    res.require_min("LOOP-UNTIL", 1)
    res.require_min("R-WIRING", 6)
    res.require_min("R-FRAME-ID", 2)
    res.guard(RR.rule_stop_chain, prog, res)
    res.require_min("R-STOP-CHAIN", 2)
    # a worker that finds a stale stop request quits at once: the acquisition's frames never reach storage
    res.guard(RR.rule_start_reset, prog, res)
    res.require_min("R-START-RESET", 6)
    res.guard(RR.rule_register_early, prog, res)
    res.require_min("R-REGISTER-EARLY", 2)
    res.require_min("R-CONSUME", 3)
