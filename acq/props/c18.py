"""C18 — simulated cameras deliver fresh, increasing, trigger-gated frames.
Decided (DESIGN.md 4/C18): lost-wake-up freedom, re-check loops and stop-wakes
for the two wait sites; the trigger gate dominates the publish block; the
frame counters are reset on every path of start before the streamer thread is
created."""
from .. import ir, paths
from .. import lockrules as LR
from ..locks import LockAnalysis, obj_key
from ..build import AnalysisBroken

EXPLANATION = (
    "Static analysis of simulated.camera.c over clang CFGs: (1) for the two "
    "condition-variable wait sites (trigger_ready in the streamer thread, "
    "frame_ready in the blocking frame call) every store to a field their "
    "predicates read is ordered with the waiter's check by im.lock or is "
    "followed by a lock hand-off before the notify (lost-wake-up freedom), each "
    "wait is in a re-check loop, and the stop slot wakes both waiters on every "
    "path before it joins the streamer; (2) the only store that publishes a "
    "frame id is reachable in the streamer loop only through the trigger wait "
    "loop; (3) start resets both frame counters before thread_create on every "
    "path. These are necessary conditions of 'stop always unblocks a pending "
    "frame call', 'no frame before a trigger' and 'the count restarts with each "
    "start'; strict monotonicity and 'never more frames than triggers' are "
    "schedule-dependent counting and are not decided.")

CAM_REC = "SimulatedCamera"
EXPLANATION += (' R-FRESH: copy-out only of a strictly newer frame, never once the camera was seen stopped; id recorded and reported; the streamer advances its counter per publish, consumes the trigger (store 0 under the lock) and wakes the waiter. R-RESTART also requires start to clear a left-over trigger.')



def run(ctx, res):
    prog = ctx.program()
    la = LockAnalysis(prog)
    res.extra["explanation"] = EXPLANATION
    res.assumptions += [
        "pthread_cond_wait atomically releases the mutex (the pthread primitive is trusted; the wrappers in linux/platform.c are checked by R-PLATFORM)",
        "the HAL calls get_frame only on a started camera and serialises start/stop/get_frame of one camera (C11)",
        "stores in the start slot that precede thread_create happen before any waiter exists",
    ]
    slots = ir.slot_table(prog)

    def slot(name):
        t = {f for f, owner in slots.get(("Camera", name), set()) if f.startswith("simcam")}
        if len(t) != 1:
            raise AnalysisBroken("cannot resolve the simulated camera's %s slot: %s" % (name, sorted(t)))
        return prog.func(next(iter(t)))

    f_stop, f_start, f_get = slot("stop"), slot("start"), slot("get_frame")
    f_trig = slot("execute_trigger")
    sites = [s for s in la.wait_sites() if s["lock"] and s["lock"][0] == CAM_REC]
    if len(sites) < 2:
        raise AnalysisBroken("expected two wait sites on the camera's lock, found %d" % len(sites))
    res.extra["wait_sites"] = []
    for site in sites:
        res.extra["wait_sites"].append({
            "function": site["fn"].name, "cv": LR.key_str(site["cv"]),
            "lock": LR.key_str(site["lock"]),
            "predicate_reads": sorted(LR.key_str(k) for k in site["reads"])})
        LR.rule_l_recheck(la, res, site)
        LR.rule_l_cv(la, res, site)

    # balanced locking on every path of every camera function (a frame call
    # that returns with im.lock held blocks stop forever)
    LR.rule_l_pair(la, res, [f for f in prog.all_funcs() if f.file.endswith("simcams/simulated.camera.c")])

    # ---- R-STOP-WAKES: stop wakes every waiter before joining ------------
    res.touched(f_stop)
    joins = paths.calls_to(prog, f_stop, {"thread_join"})
    if not joins:
        raise AnalysisBroken("%s no longer joins the streamer thread" % f_stop.name)
    jset = {(b, i) for b, i, s in joins}
    # stop must clear the running flag before the join on every path
    def clears_running(s):
        for lv, op, rhs, whole in ir.writes_of(s):
            k = obj_key(lv) if lv.get("k") == "mem" else None
            if k and k[1].endswith("is_running") and op == "=" and ir.is_const(rhs, 0):
                return True
        return False
    ok, w = paths.all_paths_pass(f_stop, "entry", jset, clears_running)
    inst = "%s: is_running=0 before thread_join" % f_stop.name
    if ok:
        res.oblige("R-STOP-WAKES", inst, True, "every path to the join clears the flag", f_stop.loc())
    else:
        res.fail("R-STOP-WAKES", inst, "R-STOP-WAKES|%s|flag" % f_stop.name, f_stop.loc(),
                 "%s can reach thread_join without clearing streamer.is_running: the streamer never exits" % f_stop.name,
                 {"path_blocks": w})
    for site in sites:
        cv, L = site["cv"], site["lock"]
        waiter = site["fn"].name

        def wakes(s, cv=cv, L=L, site=site):
            # a statement that wakes this waiter: a notify of cv here, or a
            # call to a function that on all its paths notifies cv
            for c in ir.calls_in(s):
                n = c.get("fn")
                if n in ("condition_variable_notify_all",) and obj_key(c["args"][0]) == cv:
                    return True
                g = prog.resolve(n, f_stop) if n else None
                if g is not None and LR.callee_must_notify(la, g, cv):
                    return True
            return False
        def no_waiter_edge(blk, succ, site=site):
            # an edge on which a conjunct of the waiter's predicate is known
            # to be false: nobody can be waiting, nothing to wake
            c = blk.cond_node()
            lab = succ.get("label")
            if c is None or lab not in ("true", "false"):
                return False
            k_s, neg_s = LR.simple_cond(c)
            if k_s is None:
                return False
            for wc in site["conds"]:
                k_w, neg_w = LR.simple_cond(wc["node"])
                if k_w is None or k_w != k_s:
                    continue
                waits_when_truthy = ("true" in wc["stay_on"]) != neg_w
                truthy_here = (lab == "true") != neg_s
                if truthy_here != waits_when_truthy:
                    return True
            return False
        ok, w = paths.all_paths_pass(f_stop, "entry", jset, wakes, edge_ok=no_waiter_edge)
        inst = "%s wakes %s (waiter in %s)" % (f_stop.name, LR.key_str(cv), waiter)
        if not ok:
            res.fail("R-STOP-WAKES", inst, "R-STOP-WAKES|%s|%s" % (f_stop.name, LR.key_str(cv)),
                     f_stop.loc(),
                     "%s can reach thread_join on a path that never notifies %s: a thread blocked in %s is not woken"
                     % (f_stop.name, LR.key_str(cv), waiter), {"path_blocks": w})
            continue
        # the predicate of this waiter must be falsified by stop: either it
        # reads the flag stop clears, or stop (via a callee) stores a field of
        # R(P) under the lock on every path
        reads_flag = any(k[1].endswith("is_running") for k in site["reads"])
        if reads_flag:
            res.oblige("R-STOP-WAKES", inst, True,
                       "predicate reads the running flag stop clears; notify on every path (hand-off checked by L-CV)", f_stop.loc())
            continue
        def falsifies(s, site=site):
            for c in ir.calls_in(s):
                g = prog.resolve(c.get("fn"), f_stop) if c.get("fn") else None
                if g is None:
                    continue
                accs, _, _ = la.accesses(g)
                st = [(a, held) for a, held in accs if a.mode == "w" and
                      any(LR.covers(a.key, r) for r in site["reads"])]
                if st and all(site["lock"] in held for a, held in st):
                    # the store must be on every path of the callee
                    pos = {(a.block, a.idx) for a, _ in st}
                    ok2, _ = paths.all_paths_pass(g, "entry", "exit",
                                                  lambda x, g=g, pos=pos: any(x is g.blocks[b].stmts[i] for b, i in pos))
                    if ok2:
                        return True
            return False
        ok, w = paths.all_paths_pass(f_stop, "entry", jset, falsifies, edge_ok=no_waiter_edge)
        if ok:
            res.oblige("R-STOP-WAKES", inst, True,
                       "every path calls a function that stores a predicate field under the lock and notifies", f_stop.loc())
        else:
            res.fail("R-STOP-WAKES", inst, "R-STOP-WAKES|%s|%s|predicate" % (f_stop.name, LR.key_str(cv)),
                     f_stop.loc(),
                     "%s notifies %s but on some path does not change any field of the predicate the waiter in %s re-checks (%s): the waiter goes back to sleep"
                     % (f_stop.name, LR.key_str(cv), waiter, sorted(map(LR.key_str, site["reads"]))),
                     {"path_blocks": w})

    # ---- R-TRIGGER-GATE --------------------------------------------------
    streamer = None
    for s in sites:
        if s["fn"] is not f_get:
            streamer = s
    if streamer is None:
        raise AnalysisBroken("streamer wait site not found")
    fs = streamer["fn"]
    res.touched(fs)
    fid = (CAM_REC, "im.frame_id")
    pubs = []
    for g in prog.all_funcs():
        accs, _, _ = la.accesses(g)
        for a, held in accs:
            if a.mode == "w" and a.key == fid:
                pubs.append((g, a, held))
    outside = [(g, a) for g, a, h in pubs if g is not fs and g is not f_start
               and not la.is_ctor_dtor(g, streamer["lock"])]
    for g, a in outside:
        res.fail("R-TRIGGER-GATE", "store im.frame_id in %s" % g.name,
                 "R-TRIGGER-GATE|%s|foreign-store" % g.name, a.loc(),
                 "%s publishes a frame id outside the streamer loop, bypassing the trigger gate" % g.name)
    mine = [(g, a, h) for g, a, h in pubs if g is fs]
    if not mine:
        raise AnalysisBroken("the streamer no longer publishes im.frame_id")
    outer = paths.loop_of(fs, mine[0][1].block)
    for g, a, held in mine:
        inst = "publish im.frame_id at %s" % a.loc().split("/")[-1].split(":")[0]
        # every path from the head of the outer loop to the publish passes the
        # trigger wait loop's exit condition
        cond_blocks = {c["block"] for c in streamer["conds"]}
        def through_gate(s, fs=fs, cond_blocks=cond_blocks):
            for cb in cond_blocks:
                blk = fs.blocks[cb]
                if blk.cond is not None and blk.stmts[blk.cond] is s:
                    return True
            return False
        # loop head = the block of the outer loop with a predecessor outside
        heads = [b for b in (outer or []) if any(p not in outer for p in fs.preds().get(b, []))]
        ok_all = True
        for h in heads or [fs.entry]:
            ok, w = paths.all_paths_pass(fs, (h, -1), {(a.block, a.idx)}, through_gate)
            if not ok:
                ok_all = False
                res.fail("R-TRIGGER-GATE", inst, "R-TRIGGER-GATE|%s|bypass" % fs.name, a.loc(),
                         "a path of the streamer loop reaches the publish of im.frame_id without evaluating the trigger wait condition",
                         {"path_blocks": w})
        if ok_all:
            res.oblige("R-TRIGGER-GATE", inst, True,
                       "every path from the loop head passes the trigger wait loop; lock held: %s" % (streamer["lock"] in held), a.loc())
        if streamer["lock"] not in held:
            res.fail("R-TRIGGER-GATE", inst + " under lock", "R-TRIGGER-GATE|%s|unlocked" % fs.name, a.loc(),
                     "im.frame_id is published without im.lock")
    # the gate consumes the trigger: the flag is cleared after the wait loop
    trig_key = (CAM_REC, "software_trigger.triggered")
    clr = [(a, h) for a, h in la.accesses(fs)[0] if a.mode == "w" and a.key == trig_key]
    clears = all(isinstance(a.stmt, dict) and a.stmt.get("k") == "asg" and ir.is_const(a.stmt.get("r"), 0) for a, h in clr)
    if clr and clears and all(streamer["lock"] in h for a, h in clr):
        res.oblige("R-TRIGGER-GATE", "trigger flag consumed under lock", True,
                   "%d store(s) to software_trigger.triggered in the streamer, all under im.lock" % len(clr), clr[0][0].loc())
    else:
        res.fail("R-TRIGGER-GATE", "trigger flag consumed under lock", "R-TRIGGER-GATE|consume", fs.loc(),
                 "the streamer does not clear software_trigger.triggered under im.lock: one trigger can release more than one frame")

    # ---- R-FRESH: a frame is copied out only when it is newer than the last
    # one handed out (strict), and is then recorded as handed out ---------
    res.touched(f_get)
    copies = [(b.id, i, s_) for b, i, s_ in f_get.all_stmts() if any(c.get("fn") == "memcpy" for c in ir.calls_in(s_))]
    if not copies:
        raise AnalysisBroken("%s no longer copies a frame out" % f_get.name)
    LAST, CUR = (CAM_REC, "im.last_emitted_frame_id"), (CAM_REC, "im.frame_id")

    def strictly_newer(cn, lab, blk):
        c0 = ir.strip(cn)
        neg = False
        while isinstance(c0, dict) and c0.get("k") == "un" and c0.get("op") == "!":
            neg = not neg
            c0 = ir.strip(c0["e"])
        if not (isinstance(c0, dict) and c0.get("k") == "bin" and c0["op"] in ("<", "<=", ">", ">=")):
            return False
        l = obj_key(ir.strip(c0["l"])) if ir.strip(c0["l"]).get("k") == "mem" else None
        r = obj_key(ir.strip(c0["r"])) if ir.strip(c0["r"]).get("k") == "mem" else None
        op = c0["op"]
        if (l, r) == (CUR, LAST):
            op = {"<": ">", "<=": ">=", ">": "<", ">=": "<="}[op]
            l, r = r, l
        if (l, r) != (LAST, CUR):
            return False
        # with l = last, r = current:  "last < current" must hold on this edge
        truth = (lab == "true") != neg
        return (op == "<" and truth) or (op == ">=" and not truth)
    for bid, i, s_ in copies:
        dom = paths.edge_dominated_correlated(f_get, (bid, i), strictly_newer)
        inst = "%s: copy-out only of a frame newer than the last emitted one" % f_get.name
        if dom:
            res.oblige("R-FRESH", inst, True, "dominated by last_emitted_frame_id < frame_id", f_get.loc(s_))
        else:
            res.fail("R-FRESH", inst, "R-FRESH|%s|guard" % f_get.name, f_get.loc(s_),
                     "%s can copy a frame out without having established that its id is strictly greater than the last emitted id: the same frame can be delivered twice" % f_get.name)
        def records(ss):
            for lv, op, rhs, w in ir.writes_of(ss):
                if lv.get("k") == "mem" and obj_key(lv) == LAST and isinstance(ir.strip(rhs), dict) and \
                        ir.strip(rhs).get("k") == "mem" and obj_key(ir.strip(rhs)) == CUR:
                    return True
            return False
        pre, _ = paths.all_paths_pass(f_get, "entry", {(bid, i)}, records)
        post, _ = paths.all_paths_pass(f_get, (bid, i), "exit", records)
        inst = "%s: the emitted id is recorded" % f_get.name
        if pre or post:
            res.oblige("R-FRESH", inst, True, "last_emitted_frame_id := frame_id on every path through the copy", f_get.loc(s_))
        else:
            res.fail("R-FRESH", inst, "R-FRESH|%s|record" % f_get.name, f_get.loc(s_),
                     "%s copies a frame out without recording its id as emitted: the next call returns it again" % f_get.name)

    # ---- a stopped camera hands out no frame: the copy-out is not reachable
    # with the running flag last seen false (within one hold of the lock) ----
    flags = set()
    for b_ in f_get.blocks.values():
        c_ = b_.cond_node()
        fl = paths._simple_flag(c_) if c_ is not None else None
        if fl and "is_running" in fl[0]:
            flags.add(fl[0])
    if not flags:
        raise AnalysisBroken("%s no longer tests the streamer's running flag" % f_get.name)
    for bid, i, s_ in copies:
        bad = [k for k in paths.knowledge_at(f_get, (bid, i)) if any(k.get(fl) is False for fl in flags)]
        inst = "%s: no frame is copied out once the camera was seen stopped" % f_get.name
        if not bad:
            res.oblige("R-FRESH", inst, True, "the copy is unreachable with %s last read false" % sorted(flags)[0], f_get.loc(s_))
        else:
            res.fail("R-FRESH", inst, "R-FRESH|%s|stopped" % f_get.name, f_get.loc(s_),
                     "%s can copy a frame out on a path on which it has just seen the camera stopped (%s false): the frame the stop sequence "
                     "forces out of the streamer is delivered although no trigger asked for it" % (f_get.name, sorted(flags)[0]))

    # ---- a successful return without a frame says so: every path to a return of Device_Ok that does not
    # pass the copy-out stores 0 through the byte-count out-parameter (the caller commits what it is told) ----
    nb = [p_ for p_ in f_get.params if p_.get("pd") and not p_.get("r") and ("long" in p_.get("t", "") or "size_t" in p_.get("t", ""))]
    ok_v = dict(prog.enum_values("DeviceStatusCode") or []).get("Device_Ok", 0)
    ok_rets = [(b.id, i) for b, i, s_ in f_get.all_stmts() if s_.get("k") == "ret" and isinstance(ir.strip(s_.get("e")), dict)
               and ir.strip(s_["e"]).get("k") == "int" and ir.strip(s_["e"]).get("v") == ok_v]
    if nb and ok_rets:
        nbp = nb[0]

        def copy_or_zero(ss):
            if any(c.get("fn") == "memcpy" for c in ir.calls_in(ss)):
                return True
            for lv, op, rhs, w in ir.writes_of(ss):
                l0 = ir.strip(lv)
                if isinstance(l0, dict) and l0.get("k") == "deref" and ir.strip(l0["e"]).get("k") == "var" and ir.strip(l0["e"]).get("id") == nbp["id"] \
                        and op == "=" and ir.is_const(rhs, 0):
                    return True
            return False
        okp, wit = paths.all_paths_pass(f_get, "entry", set(ok_rets), copy_or_zero)
        inst = "%s: Device_Ok without a frame reports zero bytes" % f_get.name
        if okp:
            res.oblige("R-FRESH", inst, True, "every path to a successful return copies a frame out or stores *%s = 0" % nbp["n"], f_get.loc())
        else:
            res.fail("R-FRESH", inst, "R-FRESH|%s|no-frame" % f_get.name, f_get.loc(),
                     "%s can return Device_Ok without copying a frame out and without setting *%s to 0 (stopped while waiting): the caller believes it received a frame - "
                     "the source commits a frame the camera never delivered, with the previous frame's id" % (f_get.name, nbp["n"]), {"path_blocks": wit})

    # ---- after mutation analysis: the id advances with every generated frame,
    # a publish wakes the waiting frame call, the frame call reports the id -----
    for g, a, held in mine:
        src_ = ir.strip(a.stmt.get("r")) if isinstance(a.stmt, dict) and a.stmt.get("k") == "asg" else None
        cnt = src_ if isinstance(src_, dict) and src_.get("k") == "var" else None
        heads_ = [b for b in (outer or []) if any(p not in outer for p in fs.preds().get(b, []))]
        inst = "streamer: the published id was advanced since the previous publish"
        if cnt is None:
            res.fail("R-FRESH", inst, "R-FRESH|streamer|counter", a.loc(), "im.frame_id is not published from the streamer's frame counter")
        else:
            def bumps(q, cid=cnt["id"]):
                return any(lv.get("k") == "var" and lv["id"] == cid and op in ("++", "+=") for lv, op, rhs, w in ir.writes_of(q))
            ok = all(paths.all_paths_pass(fs, (h, -1), {(a.block, a.idx)}, bumps)[0] for h in heads_ or [fs.entry])
            if ok:
                res.oblige("R-FRESH", inst, True, "++%s on every path from the loop head to the publish" % cnt["n"], a.loc())
            else:
                res.fail("R-FRESH", inst, "R-FRESH|streamer|advance", a.loc(),
                         "the streamer can publish im.frame_id without having advanced its frame counter since the last publish: the same id is published twice (the frame call never sees a newer frame)")
        def wakes(q):
            return any(c.get("fn") == "condition_variable_notify_all" and "frame_ready" in ir.render(c["args"][0]) for c in ir.calls_in(q))
        dst = {(h, 0) if fs.blocks[h].stmts else (h, -1) for h in heads_} or "exit"
        ok, w = paths.all_paths_pass(fs, (a.block, a.idx), dst, wakes)
        inst = "streamer: a publish is followed by notify(frame_ready)"
        if ok:
            res.oblige("R-FRESH", inst, True, "on every path from the publish to the next iteration", a.loc())
        else:
            res.fail("R-FRESH", inst, "R-FRESH|streamer|notify", a.loc(),
                     "the streamer can publish a frame without waking the frame call that waits for it: the caller sleeps although a fresh frame is there")
    for bid, i, s_ in copies:
        info = [p for p in f_get.params if p.get("r") == "ImageInfo" and p.get("pd")]
        def reports_id(q, info=info):
            for lv, op, rhs, w in ir.writes_of(q):
                if lv.get("k") == "mem" and lv.get("f") == "hardware_frame_id" and isinstance(ir.strip(rhs), dict) and \
                        ir.strip(rhs).get("k") == "mem" and obj_key(ir.strip(rhs)) == CUR:
                    return True
            return False
        ok, w = paths.all_paths_pass(f_get, (bid, i), "exit", reports_id)
        inst = "%s: the copied frame is reported with hardware_frame_id = im.frame_id" % f_get.name
        if ok:
            res.oblige("R-FRESH", inst, True, "", f_get.loc(s_))
        else:
            res.fail("R-FRESH", inst, "R-FRESH|%s|report-id" % f_get.name, f_get.loc(s_),
                     "%s can return a copied frame without storing its id in the caller's ImageInfo: ids seen by the caller are not the camera's" % f_get.name)

    # ---- R-RESTART -------------------------------------------------------
    res.touched(f_start)
    tcs = paths.calls_to(prog, f_start, {"thread_create"})
    if not tcs:
        raise AnalysisBroken("%s no longer creates the streamer thread" % f_start.name)
    tset = {(b, i) for b, i, s in tcs}
    for field in ("im.frame_id", "im.last_emitted_frame_id", "software_trigger.triggered"):
        def resets(s, field=field):
            for lv, op, rhs, whole in ir.writes_of(s):
                if lv.get("k") == "mem" and obj_key(lv) == (CAM_REC, field) and op == "=" and ir.is_const(rhs):
                    if field == "software_trigger.triggered" and not ir.is_const(rhs, 0):
                        continue
                    return True
            return False
        ok, w = paths.all_paths_pass(f_start, "entry", tset, resets)
        inst = "%s resets %s before thread_create" % (f_start.name, field)
        if ok:
            res.oblige("R-RESTART", inst, True, "constant store on every path", f_start.loc())
        elif field == "software_trigger.triggered":
            res.fail("R-RESTART", inst, "R-RESTART|%s|%s" % (f_start.name, field), f_start.loc(),
                     "%s can create the streamer thread without clearing software_trigger.triggered: the stop of the previous run sets it to wake a waiting streamer "
                     "(and nobody consumes it when the streamer was not waiting), so the new run delivers a frame before any trigger was fired" % f_start.name,
                     {"path_blocks": w})
        else:
            res.fail("R-RESTART", inst, "R-RESTART|%s|%s" % (f_start.name, field), f_start.loc(),
                     "%s can create the streamer thread without resetting %s: ids continue from the previous run" % (f_start.name, field),
                     {"path_blocks": w})
    # "stop always unblocks a pending frame call": the HAL must let the stop reach the driver - the camera
    # wrappers under every driver answer (the simulation of C11): stop / failing set / failing get_frame
    from .c11 import run_kind
    model, it, ex, ndev, checked = run_kind(prog, res, "Camera")
    mine = {k: r for k, r in it.reports.items() if any(t in k or t in r["message"] for t in ("stop", "Running"))}
    for key, r in sorted(mine.items()):
        res.fail("HAL-STOP-REACHES", key.split("|", 2)[-1], key, "camera.c", r["message"], r["witness"])
    res.oblige("HAL-STOP-REACHES", "camera wrappers under every driver answer: a started camera's stop reaches the driver", not mine,
               "%d abstract states, %d transitions" % (len(ex.states), ex.transitions), prog.func("camera_stop").loc())
    res.require_min("HAL-STOP-REACHES", 1)
    from .. import platformrules as PR
    PR.run_all(prog, la, res, event=False)   # "stop always returns": thread_join and the lock / cv wrappers
    res.require_min("R-PLATFORM", 13)
    res.require_min("L-PAIR", 10)
    res.require_min("L-CV", 8)
    res.require_min("L-RECHECK", 2)
    res.require_min("R-STOP-WAKES", 3)
    res.require_min("R-TRIGGER-GATE", 2)
    res.require_min("R-RESTART", 3)
    res.require_min("R-FRESH", 7)
