"""C14 — raw files contain exactly the appended frames, byte for byte.
Decided clauses (DESIGN.md 4/C14): running cursors are reset by start
(STALE-CURSOR, typestate simulation over all set/start/append/stop cycles);
append writes and advances by the same byte count and only on success
(R-APPEND-ADVANCE); the platform write-all loop advances buffer and offset by
the result of each write and its every cycle makes progress
(R-WRITEALL, LOOP-PROGRESS); the file:// prefix constants agree (T-CONST) and
the stripped name is what is stored (R-URI-STRIP)."""
from .. import ir, paths
from ..build import AnalysisBroken
from .c16 import run_storage_rules, loop_progress

EXPLANATION = (
    "Static analysis. (1) Typestate simulation of the raw/trash/tiff/tiff-json "
    "drivers through the real HAL over all sequences of set/start/append/stop: a "
    "field updated by compound assignment in code reached from append is a "
    "running cursor; after a successful start any read of a cursor that was not "
    "re-assigned since the previous acquisition is a violation. (2) CFG rules on "
    "raw_append and file_write: the byte range handed to file_write and the "
    "cursor advance are the same value and the advance is dominated by the "
    "success edge; in the write-all loop both the buffer pointer and the file "
    "offset advance by the result of pwrite on every path back to the loop head, "
    "every cycle changes a loop-condition variable, a negative result leaves the "
    "loop to the failure return. (3) Constant agreement for the file:// prefix. "
    "These are necessary conditions; byte-for-byte equality of the file depends "
    "on OS semantics and unbounded arithmetic and is not decided.")
EXPLANATION += (' R-SET-ADOPTS: a successful set stored the requested name. file_write on the linear domain: ADVANCE (buffer position and file offset advance by the bytes written), COMPLETE (success only when cur reached end), VARIANT (every retry makes progress or uses the budget). STALE-CURSOR also covers plain computed stores during append (reads inside stop are not judged: zero-frame acquisitions).')



def same_expr(a, b):
    return ir.render(ir.strip(a)) == ir.render(ir.strip(b))


def append_advance(prog, res, slots):
    """In the raw device's append: file_write(file, CUR, beg, beg + N) and
    CUR += N on the success edge only."""
    targets = sorted({f for f, o in slots.get(("Storage", "append"), set()) if f.startswith("raw")})
    if len(targets) != 1:
        raise AnalysisBroken("cannot resolve the raw device's append slot: %s" % targets)
    f = prog.func(targets[0])
    res.touched(f)
    calls = paths.calls_to(prog, f, {"file_write"})
    if not calls:
        raise AnalysisBroken("%s no longer calls file_write" % f.name)
    for b, i, s in calls:
        from .. import congr
        call = [c for c in ir.calls_in(s) if c.get("fn") == "file_write"][0]
        off = call["args"][1]
        beg = congr.inline_expr(prog, f, call["args"][2], ptrs=True)
        end = congr.inline_expr(prog, f, call["args"][3], ptrs=True)
        cur = ir.ap(off)
        inst = "%s: file_write at cursor %s" % (f.name, cur)
        # end = beg + N
        e = ir.strip(end)
        n_expr = None
        if isinstance(e, dict) and e.get("k") == "bin" and e.get("op") == "+" and same_expr(e["l"], beg):
            n_expr = e["r"]
        if n_expr is None:
            res.fail("R-APPEND-ADVANCE", inst, "R-APPEND-ADVANCE|%s|range" % f.name, f.loc(s),
                     "cannot see the written range as [beg, beg + N) in %s" % f.name)
            continue
        adv = []
        for bb, ii, ss in f.all_stmts():
            for lv, op, rhs, whole in ir.writes_of(ss):
                if ir.ap(lv) == cur and op in ("+=", "="):
                    adv.append((bb.id, ii, ss, op, rhs))
        if not adv:
            res.fail("R-APPEND-ADVANCE", inst, "R-APPEND-ADVANCE|%s|no-advance" % f.name, f.loc(s),
                     "%s writes at %s but never advances it: every packet overwrites the previous one" % (f.name, cur))
            continue
        for bb, ii, ss, op, rhs in adv:
            r0 = ir.strip(rhs) if isinstance(rhs, dict) else None
            if op == "=" and isinstance(r0, dict) and r0.get("k") == "bin" and r0.get("op") == "+":
                # cur = cur + n  is  cur += n
                if ir.ap(ir.strip(r0["l"])) == cur:
                    op, rhs = "+=", r0["r"]
                elif ir.ap(ir.strip(r0["r"])) == cur:
                    op, rhs = "+=", r0["l"]
            rhs = congr.inline_expr(prog, f, rhs, ptrs=True)
            if op != "+=" or not same_expr(rhs, n_expr):
                res.fail("R-APPEND-ADVANCE", inst, "R-APPEND-ADVANCE|%s|amount" % f.name, f.loc(ss),
                         "%s advances %s by %s but wrote %s bytes" % (f.name, cur, ir.render(rhs), ir.render(n_expr)))
                continue

            def ok_edge(c, lab, blk):
                c0 = ir.strip(c)
                neg = False
                while isinstance(c0, dict) and c0.get("k") == "un" and c0.get("op") == "!":
                    neg = not neg
                    c0 = ir.strip(c0["e"])
                if isinstance(c0, dict) and c0.get("k") == "call" and c0.get("fn") == "file_write":
                    return lab == ("false" if neg else "true")
                return False
            dom, _ = paths.edge_dominated(f, (bb, ii), ok_edge)
            if dom:
                res.oblige("R-APPEND-ADVANCE", inst, True,
                           "cursor advances by the written byte count, only on the success edge of file_write", f.loc(ss))
            else:
                res.fail("R-APPEND-ADVANCE", inst, "R-APPEND-ADVANCE|%s|unguarded" % f.name, f.loc(ss),
                         "%s advances %s on a path where file_write did not succeed" % (f.name, cur))


def write_all(prog, res):
    """The write-all loop: per iteration the buffer position and the file
    offset handed to pwrite advance by the same amount, namely the result of
    the previous pwrite, on every path back to the loop head."""
    f = prog.func("file_write")
    res.touched(f)
    pw = [(b, i, s) for b, i, s in paths.calls_to(prog, f, {"pwrite"})]
    if not pw:
        raise AnalysisBroken("file_write no longer calls pwrite")
    for b, i, s in pw:
        call = [c for c in ir.calls_in(s) if c.get("fn") == "pwrite"][0]
        buf, off = call["args"][1], call["args"][3]
        resvar = None
        for lv, op, rhs, whole in ir.writes_of(s):
            if rhs is not None and any(c is call for c in ir.calls_in(rhs)) and lv.get("k") == "var":
                resvar = lv
        loop = paths.innermost_loop(f, b)
        if not loop:
            res.fail("R-WRITEALL", "file_write: pwrite in a loop", "R-WRITEALL|no-loop", f.loc(s),
                     "pwrite is not inside a loop: a short write truncates the data")
            continue
        if resvar is None:
            res.fail("R-WRITEALL", "file_write: result of pwrite kept", "R-WRITEALL|no-result", f.loc(s),
                     "the number of bytes pwrite reports is not kept: the loop cannot resume after a short write")
            continue
        res.oblige("R-WRITEALL", "file_write: pwrite in a loop, its result kept in '%s'" % resvar["n"], True,
                   "how buffer position and file offset follow that result is decided by the linear domain (ADVANCE / COMPLETE / VARIANT)", f.loc(s))


def prefix_constants(prog, res):
    """strncmp(x, LIT, N): N == strlen(LIT); a strlen(x) >= K guard in the same
    function has K == N; the value selected on a match == N.  All sibling
    copies are checked."""
    n = 0
    for f in prog.all_funcs():
        for b, i, s in f.all_stmts():
            for c in ir.calls_in(s):
                if c.get("fn") != "strncmp" or len(c.get("args", [])) != 3:
                    continue
                lit = ir.strip(c["args"][1])
                cnt = ir.strip(c["args"][2])
                if not (isinstance(lit, dict) and lit.get("k") == "str" and ir.is_const(cnt)):
                    continue
                n += 1
                res.touched(f)
                L = lit["len"] - 1
                N = cnt["v"]
                inst = "%s: strncmp(.., \"%s\", %d)" % (f.name, lit["v"], N)
                probs = []
                if N != L:
                    probs.append("compares %d bytes of a %d-byte prefix" % (N, L))
                for bb, ii, ss in f.all_stmts():
                    for x in ir.walk(ss):
                        if x.get("k") == "bin" and x.get("op") in (">=", ">") and \
                                any(cc.get("fn") == "strlen" for cc in ir.calls_in(x["l"])) and ir.is_const(x["r"]):
                            K = ir.strip(x["r"])["v"] + (1 if x["op"] == ">" else 0)
                            if K != L:
                                probs.append("length guard is %d, prefix has %d bytes" % (K, L))
                        if x.get("k") == "cond" and ir.is_const(x.get("t")) and ir.is_const(x.get("f"), 0):
                            V = ir.strip(x["t"])["v"]
                            if V != L:
                                probs.append("skips %d bytes for a %d-byte prefix" % (V, L))
                # the selected offset literal may live in another block (ternary)
                for bb in f.blocks.values():
                    if bb.term in ("cond",):
                        for sc in bb.succs:
                            pass
                if probs:
                    res.fail("T-CONST", inst, "T-CONST|%s|%s" % (f.name, lit["v"]), f.loc(s),
                             "%s: %s" % (f.name, "; ".join(sorted(set(probs)))))
                else:
                    res.oblige("T-CONST", inst, True, "compare length, guard and skipped bytes all equal %d" % L, f.loc(s))
    return n


def ternary_offset_values(prog, res):
    """offset = (guard && match) ? A : B : the constants feeding the ternary."""
    for f in prog.all_funcs():
        lits = [c for b, i, s in f.all_stmts() for c in ir.calls_in(s)
                if c.get("fn") == "strncmp" and ir.strip(c["args"][1]).get("k") == "str"]
        if not lits:
            continue
        L = ir.strip(lits[0]["args"][1])["len"] - 1
        for b, i, s in f.all_stmts():
            for x in ir.walk(s):
                if x.get("k") == "cond":
                    vals = []
                    for q in ("t", "f"):
                        v = x.get(q)
                        if isinstance(v, dict) and v.get("k") == "ref":
                            v = f.resolve_ref(v)
                        if ir.is_const(v):
                            vals.append(ir.strip(v)["v"])
                    if len(vals) == 2 and vals[1] == 0:
                        inst = "%s: prefix offset value" % f.name
                        if vals[0] == L:
                            res.oblige("T-CONST", inst, True, "skips %d bytes" % L, f.loc(s))
                        else:
                            res.fail("T-CONST", inst, "T-CONST|%s|offset-value" % f.name, f.loc(s),
                                     "%s strips %d bytes for the %d-byte file:// prefix" % (f.name, vals[0], L))


def uri_strip(prog, res, slots):
    targets = sorted({f for f, o in slots.get(("Storage", "set"), set()) if f.startswith("raw")})
    if len(targets) != 1:
        raise AnalysisBroken("cannot resolve the raw device's set slot")
    f = prog.func(targets[0])
    res.touched(f)
    calls = paths.calls_to(prog, f, {"storage_properties_set_uri"})
    inst = "%s stores the stripped name" % f.name
    if not calls:
        res.fail("R-URI-STRIP", inst, "R-URI-STRIP|%s|no-call" % f.name, f.loc(),
                 "%s detects the file:// prefix but never stores the stripped name" % f.name)
        return
    defs = {}
    for b, i, s in f.all_stmts():
        for lv, op, rhs, whole in ir.writes_of(s):
            if lv.get("k") == "var" and op == "=":
                defs[lv["id"]] = rhs
    for b, i, s in calls:
        c = [c for c in ir.calls_in(s) if c.get("fn") == "storage_properties_set_uri"][0]
        a1, a2 = ir.strip(c["args"][1]), ir.strip(c["args"][2])
        ok = False
        if a1.get("k") == "var" and a2.get("k") == "var":
            d1, d2 = ir.strip(defs.get(a1["id"])), ir.strip(defs.get(a2["id"]))
            if isinstance(d1, dict) and isinstance(d2, dict) and d1.get("k") == "bin" and d2.get("k") == "bin" \
                    and d1["op"] == "+" and d2["op"] == "-" and ir.render(d1["r"]) == ir.render(d2["r"]):
                ok = True
        if ok:
            res.oblige("R-URI-STRIP", inst, True,
                       "name pointer advanced and length reduced by the same offset", f.loc(s))
        else:
            res.fail("R-URI-STRIP", inst, "R-URI-STRIP|%s|mismatch" % f.name, f.loc(s),
                     "%s passes a name/length pair to storage_properties_set_uri that is not (str + offset, nbytes - offset)" % f.name)


def run(ctx, res):
    prog = ctx.program()
    res.extra["explanation"] = EXPLANATION
    res.assumptions += [
        "one thread drives a storage device at a time (HAL protocol)",
        "pwrite writes the bytes it reports at the offset it was given (OS trusted)",
        "allocation failure is outside the fault model",
    ]
    slots = ir.slot_table(prog)
    run_storage_rules(prog, res, ("STALE-CURSOR",), "CURSOR-SIM")
    append_advance(prog, res, slots)
    write_all(prog, res)
    loop_progress(prog, res, "file_write")
    from ..filewrite import rule_file_write
    res.guard(rule_file_write, prog, res)
    n = prefix_constants(prog, res)
    ternary_offset_values(prog, res)
    uri_strip(prog, res, slots)
    from .. import adopt
    for fn_ in sorted({f for f, o in slots.get(("Storage", "set"), set()) if f.startswith("raw")}):
        adopt.rule_set_adopts(prog, res, prog.func(fn_))
        res.guard(adopt.rule_set_adopts_all, prog, res, prog.func(fn_))
    res.require_min("R-SET-ADOPTS", 2)
    res.require_min("CURSOR-SIM", 4)
    res.require_min("R-APPEND-ADVANCE", 1)
    res.require_min("R-WRITEALL", 4)
    res.require_min("LOOP-PROGRESS", 1)
    res.require_min("T-CONST", 4)
    from ..filecreate import rule_file_create
    res.guard(rule_file_create, prog, res, ("TRUNC", "LOCK-FIRST"))
    res.require_min("R-CREATE", 2)
    res.require_min("R-URI-STRIP", 1)
