"""C06 — the monitoring client sees a gap-free, duplicate-free, fresh frame
sequence.  Whole property not statically decidable (schedules); decided
necessary conditions (DESIGN.md 4/C06)."""
from .. import runtimerules as RR
from ..locks import LockAnalysis
from ..channelrules import rule_empty_drained, rule_cursor_pair, rule_cursor_copy

EXPLANATION = (
    "Static path analysis of acquire.c. R-UNMAPPED-PRE: every channel_read_map "
    "of the client's monitor reader is dominated by a test that the reader is "
    "unmapped, or preceded on every path by channel_read_unmap of that reader - "
    "otherwise the map sets a status that is never reset and map/unmap stop "
    "succeeding across acquisitions. R-STOP-SEQ: acquire_stop joins every "
    "worker for which a thread_create exists, in producer-to-consumer order, "
    "re-accepts writes and only then flushes the monitor. LOOP-UNTIL: the "
    "stop-time flush loops until an empty slice (with C01: nothing of the "
    "finished acquisition is delivered later). PAIR: the flush unmaps what it "
    "maps. R-PASSTHROUGH: acquire_map_read / acquire_unmap_read / the stop flush "
    "all use the same (sink input channel, monitor reader) pair of the same "
    "stream. From C01, because the client consumes partially and the flush relies "
    "on it: R-EMPTY-DRAINED, R-CURSOR-PAIR, R-CURSOR-COPY on the channel. Consecutive ids, freshness and independence of storage from the "
    "client's pace are schedule-dependent and not decided; whether the sticky "
    "Channel_Error status is reachable under a blocking writer is ring "
    "arithmetic and is reported as an observation only.")
EXPLANATION += (" R-CONSUME (discard mode) on the stop-time flush; the channel's reader-side rules and R-LIN.")



EXPLANATION += (' R-JOIN-FRESH: a reader that registers in a later acquisition must not be handed frames of a stopped one - a new reader joins at the writer\'s head, or every stop flushes the monitor reader whether registered or not (one known finding on the pinned tree: the stop-time flush is guarded by the reader\'s registration while new readers join at the start of the lap).')


def run(ctx, res):
    prog = ctx.program()
    res.extra["explanation"] = EXPLANATION
    res.assumptions += ["the channel delivers committed bytes exactly once in order and 'empty' means 'drained' (C01)"]
    n = res.guard(RR.rule_unmapped_pre, prog, res) or 0
    res.guard(RR.rule_stop_sequence, prog, res)
    res.guard(RR.rule_loop_until_empty, prog, res, "acquire_stop", "last")
    res.guard(RR.rule_pairs, prog, res, ["acquire_stop"])
    res.guard(RR.rule_passthrough, prog, res)
    res.guard(RR.rule_consume, prog, res, "acquire_stop", "discard")
    res.guard(RR.rule_join_fresh, prog, res)
    res.require_min("R-JOIN-FRESH", 1)
    # channel clauses the monitor depends on (partial consumption, flush to empty)
    la = LockAnalysis(prog)
    res.guard(rule_empty_drained, prog, res)
    res.guard(rule_cursor_pair, prog, res, la)
    res.guard(rule_cursor_copy, prog, res, la)
    # observation: a status that gates a public entry point and has no reset
    resets = 0
    for f in prog.all_funcs():
        for b, i, s in f.all_stmts():
            if RR.stores_const("reader.status", 0)(s) or RR.stores_const("->status", 0)(s):
                resets += 1
    res.notes.append("observation (not a verdict): channel_reader.status is reset to Channel_Ok at %d site(s); acquire_map_read refuses while it is set" % resets)
    from ..channelarith import rule_linear
    res.guard(rule_linear, prog, res)
    res.require_min("R-LIN", 15)
    # the inductive cursor invariant, laps included (channelinduct.py)
    from ..channelinduct import rule_induct
    res.guard(rule_induct, prog, res, with_mapped=True)
    res.require_min("R-INDUCT", 12)
    # what the client maps with frame averaging on are the filter's frames: a sum that starts from stale ring
    # bytes is not "the frame's pixel bytes" once the ring has wrapped
    from .c10 import init_rmw
    res.guard(init_rmw, prog, res, prog.func("process_data"))
    res.require_min("O-INIT-RMW", 1)
    res.require_min("R-UNMAPPED-PRE", 2)
    res.require_min("R-STOP-SEQ", 5)
    res.require_min("R-PASSTHROUGH", 2)
    res.require_min("R-CONSUME", 1)
