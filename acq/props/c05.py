"""C05 — frame packets are whole, exactly chained, 8-byte aligned frames
(DESIGN.md 4/C05)."""
import os
import subprocess
import tempfile

from .. import ir, paths, tables, congr
from ..build import AnalysisBroken, VERIF

EXPLANATION = (
    "Static analysis. (1) Compile-time witnesses: a translation unit of "
    "_Static_asserts about struct VideoFrame (size multiple of 8, data directly "
    "after the header, alignment 8, size field width) compiled -fsyntax-only "
    "against the repository headers with the real include flags. (2) Producers: "
    "at every channel_write_map whose result is used as a struct VideoFrame* the "
    "requested size is congruent to 0 modulo 8 in a congruence abstract domain "
    "evaluated over its defining expressions, it is built from "
    "sizeof(struct VideoFrame) + bytes_of_image(&S), the value stored into "
    ".bytes_of_frame is the same single-definition variable, and S is the shape "
    "object stored into the header (for the source: the one camera_get_frame "
    "filled). (3) Consumers: every loop that steps over a packet advances by the "
    "current frame's bytes_of_frame and nothing else. (4) bytes_of_type has an "
    "entry for every SampleType below the sentinel. Decides the structural "
    "necessary conditions; that a reader's packet begins/ends on frame "
    "boundaries is ring arithmetic (C01) and is not decided here.")

CONSUMERS = ["frame_iterator_next", "vfslice_split_at_delay_ms", "trash_append"]
EXPLANATION += (' Added: the rounded size covers header + image (linear lower bound); a region is committed only after its header was filled, the write aborted, or - in the filter - with an own mapping; frame walks yield frames exactly while the cursor is below the end (linear domain); R-INDEX: type tables are indexed within bounds.')



def witnesses(ctx, res):
    info = ctx.info
    root = info["root"]
    key = [k for k in info["flags"] if k.endswith("runtime/source.c")]
    if not key:
        raise AnalysisBroken("no compile flags for runtime/source.c")
    flags = [a for a in info["flags"][key[0]][1:] if a.startswith(("-I", "-D", "-std", "-m"))]
    src = os.path.join(VERIF, "witness", "layout.c")
    asserts = [l.split('"')[1] for l in open(src) if l.startswith("_Static_assert")]
    cmd = ["clang", "-fsyntax-only", "-ferror-limit=0", "-I" + os.path.join(root, "acquire-video-runtime/src")] + flags + [src]
    r = subprocess.run(cmd, stdout=subprocess.PIPE, stderr=subprocess.STDOUT, text=True)
    out = r.stdout
    if r.returncode != 0 and "static_assert" not in out and "static assertion" not in out:
        raise AnalysisBroken("witness TU does not compile: " + out[-800:])
    for a in asserts:
        failed = a in out
        wid = a.split(":")[0]
        if failed:
            res.fail("WITNESS", a, "WITNESS|%s" % wid, "witness/layout.c",
                     "compile-time witness failed against the current headers: " + a)
        else:
            res.oblige("WITNESS", a, True, "_Static_assert holds with the repository's headers and flags", "witness/layout.c")


def producers(prog, res):
    R = "R-PRODUCER"
    n = 0
    for f in prog.all_funcs():
        for b, i, s in f.all_stmts():
            for c in ir.calls_in(s):
                if c.get("fn") != "channel_write_map":
                    continue
                # is the result used as a VideoFrame*?
                used = False
                for x in ir.walk(s):
                    if x.get("k") == "cast" and x.get("r") == "VideoFrame" and any(y is c for y in ir.walk(x)):
                        used = True
                if not used:
                    continue
                n += 1
                res.touched(f)
                defs = congr.single_defs(f)
                size = ir.strip(c["args"][1])
                where = f.loc(s)
                inst = "%s: channel_write_map(.., %s)" % (f.name, ir.render(size))
                full = congr.inline_expr(prog, f, size)
                cg = congr.congruence(full, {})
                if cg[0] % 8 == 0 and cg[1] % 8 == 0 and not (cg[0] == 0 and cg[1] == 0):
                    res.oblige(R, inst + " = 0 (mod 8)", True, "congruence %s" % (cg,), where)
                else:
                    res.fail(R, inst + " = 0 (mod 8)", "R-PRODUCER|%s|align" % f.name, where,
                             "%s requests a frame region whose size is not provably a multiple of 8 (congruence %s): the next header may be misaligned"
                             % (f.name, cg))
                # built from sizeof(VideoFrame) + bytes_of_image(&S)
                shape_ap = None
                hdr = False
                for x in ir.walk(full):
                    if x.get("k") == "int" and x.get("sizeof_r") == "VideoFrame":
                        hdr = True
                    if x.get("k") == "call" and x.get("fn") == "bytes_of_image":
                        shape_ap = ir.ap(x["args"][0])
                if hdr and shape_ap:
                    res.oblige(R, inst + " = header + image bytes", True,
                               "sizeof(struct VideoFrame) + bytes_of_image(%s), rounded" % shape_ap, where)
                else:
                    res.fail(R, inst + " = header + image bytes", "R-PRODUCER|%s|formula" % f.name, where,
                             "%s does not size the frame region as sizeof(struct VideoFrame) + bytes_of_image(shape)" % f.name)
                # ... and is at least that large after the rounding
                hdr_n = [x for x in ir.walk(full) if x.get("k") == "int" and x.get("sizeof_r") == "VideoFrame"]
                img_n = [x for x in ir.walk(full) if x.get("k") == "call" and x.get("fn") == "bytes_of_image"]
                if hdr_n and img_n:
                    okc, lb = congr.covers(full, [hdr_n[0], img_n[0]])
                    if okc:
                        res.oblige(R, inst + " >= header + image bytes", True,
                                   "linear lower bound of the rounded size covers both", where)
                    else:
                        res.fail(R, inst + " >= header + image bytes", "R-PRODUCER|%s|covers" % f.name, where,
                                 "%s reserves %s bytes, which is not provably at least sizeof(struct VideoFrame) + bytes_of_image(shape) "
                                 "(lower bound: %s %+d): rounding down instead of up leaves the frame's last bytes outside the reserved region"
                                 % (f.name, ir.render(size), " + ".join("%s*%s" % (v, k) for k, v in lb[0].items()), int(lb[1])))
                # header fill: .bytes_of_frame = same variable; .shape = S
                fills = []
                for bb, ii, ss in f.all_stmts():
                    for x in ir.walk(ss):
                        if x.get("k") == "init" and x.get("r") == "VideoFrame":
                            fills.append((ss, x))
                if not fills:
                    res.fail(R, inst + " header fill", "R-PRODUCER|%s|nofill" % f.name, where,
                             "%s maps a frame but never fills its header" % f.name)
                    continue
                for ss, x in fills:
                    flds = {e["f"]: e["v"] for e in x.get("elts", []) if "f" in e}
                    bof = ir.strip(flds.get("bytes_of_frame"))
                    ok = isinstance(bof, dict) and bof.get("k") == "var" and size.get("k") == "var" and \
                        bof["id"] == size["id"] and size["id"] in defs
                    why = "same single-definition variable '%s'" % size.get("n")
                    if not ok and isinstance(bof, dict):
                        # the same pure expression evaluated twice is the same
                        # value only if nothing it reads can change in between
                        e1 = congr.inline_expr(prog, f, bof)
                        if ir.render(e1) == ir.render(full):
                            roots = {y["id"]: y["n"] for y in ir.walk(full) if y.get("k") == "var"}
                            clobber = None
                            for hb, hi, hs in paths.reachable_after(f, (b.id, i), lambda q: True):
                                for cc in ir.calls_in(hs):
                                    cg_ = prog.resolve(cc["fn"], f) if cc.get("fn") else None
                                    for ai, a in enumerate(cc.get("args", [])):
                                        if cg_ is not None and ai < len(cg_.params) and \
                                                str(cg_.params[ai].get("t", "")).startswith("const "):
                                            continue  # read-only parameter
                                        a0 = ir.strip(a)
                                        if isinstance(a0, dict) and a0.get("k") == "addr":
                                            rt, _ = ir.field_chain(a0["e"])
                                            if isinstance(rt, dict) and rt.get("k") == "var" and rt["id"] in roots:
                                                clobber = (cc.get("fn"), rt["n"])
                                for lv, op, rhs, w in ir.writes_of(hs):
                                    rt, ch = ir.field_chain(lv)
                                    if isinstance(rt, dict) and rt.get("k") == "var" and rt["id"] in roots and lv.get("k") != "decl":
                                        if not (lv.get("k") == "var" and rt["id"] == lv.get("id") and hs.get("k") == "decl"):
                                            clobber = clobber or ("assignment", rt["n"])
                            if clobber is None:
                                ok = True
                                why = "same pure expression, its inputs are not modified in between"
                            else:
                                why = "recomputed from '%s', which %s may change between the reservation and the header fill" % (clobber[1], clobber[0])
                    if ok:
                        res.oblige(R, "%s: .bytes_of_frame is the mapped size" % f.name, True, why, f.loc(ss))
                    elif "recomputed" in why:
                        res.fail(R, "%s: .bytes_of_frame is the mapped size" % f.name,
                                 "R-PRODUCER|%s|size-field" % f.name, f.loc(ss),
                                 "%s reserves %s bytes in the ring but stores a size %s: the size field can differ from the reserved region, so stepping by it does not land on the next header"
                                 % (f.name, ir.render(size), why))
                    else:
                        res.fail(R, "%s: .bytes_of_frame is the mapped size" % f.name,
                                 "R-PRODUCER|%s|size-field" % f.name, f.loc(ss),
                                 "%s stores %s into .bytes_of_frame but reserved %s bytes in the ring: stepping by the size field does not land on the next header"
                                 % (f.name, ir.render(bof), ir.render(size)))
                    shp = flds.get("shape")
                    sap = ir.ap(shp) if isinstance(shp, dict) else None
                    # &info.shape vs info.shape
                    want = (shape_ap or "").lstrip("&")
                    if sap is not None and (sap == want or _derived_from(f, shp, want, defs)):
                        res.oblige(R, "%s: .shape is the shape that sized the frame" % f.name, True, "%s" % sap, f.loc(ss))
                    else:
                        res.fail(R, "%s: .shape is the shape that sized the frame" % f.name,
                                 "R-PRODUCER|%s|shape" % f.name, f.loc(ss),
                                 "%s sizes the frame from %s but stores shape %s in the header" % (f.name, want, sap))
    return n


def _derived_from(f, shp, want, defs):
    """filter: shape is a local copy of in->shape with only .type changed."""
    s = ir.strip(shp)
    return isinstance(s, dict) and s.get("k") == "var" and ("&" + s["n"] == "&" + want or s["n"] == want)


def source_shape_is_cameras(prog, res):
    f = prog.func("video_source_thread")
    res.touched(f)
    gf = [c for b, i, s in f.all_stmts() for c in ir.calls_in(s) if c.get("fn") == "camera_get_frame"]
    if not gf:
        raise AnalysisBroken("video_source_thread no longer calls camera_get_frame")
    info_ap = ir.ap(gf[0]["args"][3])
    fills = [x for b, i, s in f.all_stmts() for x in ir.walk(s) if x.get("k") == "init" and x.get("r") == "VideoFrame"]
    ok = False
    for x in fills:
        flds = {e["f"]: e["v"] for e in x.get("elts", []) if "f" in e}
        sap = ir.ap(flds.get("shape")) if isinstance(flds.get("shape"), dict) else None
        if sap and info_ap and sap.startswith(info_ap.lstrip("&") + "."):
            ok = True
    inst = "video_source_thread: header shape comes from the ImageInfo camera_get_frame filled"
    if ok:
        res.oblige("R-PRODUCER", inst, True, "%s.shape" % info_ap.lstrip("&"), f.loc())
    else:
        res.fail("R-PRODUCER", inst, "R-PRODUCER|video_source_thread|camera-shape", f.loc(),
                 "the frame header's shape is not taken from the ImageInfo that camera_get_frame filled for that frame")


def commit_only_filled(prog, res):
    """video_source_thread: from a successful channel_write_map every path to
    channel_write_unmap passes the header fill (*im = (struct VideoFrame){..})
    or channel_abort_write: a region whose header was not written is never
    published as a frame."""
    R = "R-PRODUCER"
    f = prog.func("video_source_thread")
    maps = [(b.id, i, s) for b, i, s in f.all_stmts() if any(c.get("fn") == "channel_write_map" for c in ir.calls_in(s))]
    commits = {(b.id, i) for b, i, s in f.all_stmts() if any(c.get("fn") == "channel_write_unmap" for c in ir.calls_in(s))}
    if not maps or not commits:
        raise AnalysisBroken("video_source_thread: map / commit of the frame region not found")

    def fills_or_aborts(s):
        if any(c.get("fn") == "channel_abort_write" for c in ir.calls_in(s)):
            return True
        for lv, op, rhs, w in ir.writes_of(s):
            r0 = ir.strip(rhs) if isinstance(rhs, dict) else None
            if isinstance(r0, dict) and r0.get("k") == "init" and r0.get("r") == "VideoFrame" and ir.strip(lv).get("k") in ("deref", "idx"):
                return True
        return False
    for bid, i, s in maps:
        ok, w = paths.all_paths_pass(f, (bid, i), commits, paths.through_callees(prog, f, fills_or_aborts))
        inst = "video_source_thread: a mapped region is committed only after its header was filled (or the write was aborted)"
        if ok:
            res.oblige(R, inst, True, "header fill or channel_abort_write on every path from the map to channel_write_unmap", f.loc(s))
        else:
            res.fail(R, inst, "R-PRODUCER|video_source_thread|commit-unfilled", f.loc(s),
                     "video_source_thread can call channel_write_unmap for a region whose header it neither filled nor aborted (the camera returned no data): "
                     "readers step through stale bytes as if they were a frame", {"path_blocks": w})


def consumers(prog, res):
    R = "R-STEP"
    names = list(CONSUMERS)
    for g in prog.all_funcs():
        if g.d.get("lambda") and "Tiff::append" in g.name:
            names.append(g.name)
    for name in names:
        f = prog.func(name)
        res.touched(f)
        defs = congr.single_defs(f)
        adv = []
        loops = paths.natural_loops(f)
        for b, i, s in f.all_stmts():
            in_loop = any(b.id in body for h, body in loops)
            for x in ir.walk(s):
                if x.get("k") == "asg" and x["op"] == "+=" and isinstance(x["l"], dict) and x["l"].get("pd"):
                    adv.append((s, x["r"]))
                # pointer + n is a cursor advance inside a loop (or in a
                # loop-free stepping function); outside it computes an end
                if x.get("k") == "bin" and x.get("op") == "+" and x.get("pd") and (in_loop or not loops):
                    adv.append((s, x["r"]))
        if not adv:
            res.fail(R, "%s advances by ->bytes_of_frame" % name, "R-STEP|%s|no-advance" % name, f.loc(),
                     "%s walks a packet but never advances its frame cursor: the same frame is delivered for ever" % name)
            continue
        # where is each local defined?
        defsite = {}
        for b, i, s in f.all_stmts():
            for lv, op, rhs, w in ir.writes_of(s):
                if lv.get("k") == "var":
                    defsite.setdefault(lv["id"], []).append(b.id)
        pos_of = {id(s): b.id for b, i, s in f.all_stmts()}
        for s, addend in adv:
            a = ir.strip(addend)
            loop = paths.innermost_loop(f, pos_of.get(id(s), -1)) if loops else None
            stale = None
            if isinstance(a, dict) and a.get("k") == "var" and a["id"] in defs:
                if loop and not any(d in loop for d in defsite.get(a["id"], [])):
                    stale = "'%s' is read once before the loop" % a["n"]
                a = ir.strip(defs[a["id"]])
            ok = isinstance(a, dict) and a.get("k") == "mem" and a["f"] == "bytes_of_frame"
            if ok and loop and stale is None:
                # the frame whose size is read must be (derived from) the moving cursor
                base = ir.strip(a["b"])
                if isinstance(base, dict) and base.get("k") == "var" and "p" not in base:
                    if not any(d in loop for d in defsite.get(base["id"], [])):
                        stale = "the size is read from '%s', which does not move with the loop" % base["n"]
            inst = "%s advances by ->bytes_of_frame" % name
            if ok and stale is None:
                res.oblige(R, inst, True, ir.render(addend), f.loc(s))
            elif ok:
                res.fail(R, inst, "R-STEP|%s|stale" % name, f.loc(s),
                         "%s steps over every frame of a packet by one frame's size (%s): with frames of different sizes the walk lands inside a frame"
                         % (name, stale))
            else:
                res.fail(R, inst, "R-STEP|%s" % name, f.loc(s),
                         "%s steps over a packet by %s, not by the current frame's bytes_of_frame" % (name, ir.render(addend)))


def iterators(prog, res):
    """Termination side of the frame walks (linear-relations analysis):
    frame_iterator_next returns a frame only while beg < end, returns exactly
    the old beg and leaves beg advanced by that frame's size, and returns null
    only when beg is null or has reached end; the walk in
    vfslice_split_at_delay_ms starts at slice->beg and reads a header only
    while cur < slice->end."""
    from .. import linear as L
    R = "R-STEP"
    f = prog.func("frame_iterator_next")
    res.touched(f)
    an = L.Analysis(prog)
    problems = []
    rets = an.run(f, L.State())
    itn = f.params[0]["n"]
    B0, E0 = L.lvar("ptr:%s->remaining.beg" % itn), L.lvar("ptr:%s->remaining.end" % itn)
    nn = 0
    for rv, st in rets:
        if rv is not None and not (L.is_const(rv) and rv.get(L.ONE, 0) == 0):
            nn += 1
            if not st.entails_eq(L.lsub(rv, B0)):
                problems.append("the frame returned is not the one at the old cursor")
            if not st.entails_le(L.ladd(L.lsub(B0, E0), L.lconst(1))):
                problems.append("a frame can be returned although the cursor has reached the end of the packet (reads past the mapped region)")
            nb = st.cells.get("%s->remaining.beg" % itn)
            sz = [v for k, v in st.cells.items() if k.endswith("->bytes_of_frame")]
            if nb is None or len(sz) != 1 or not st.entails_eq(L.lsub(nb, L.ladd(B0, sz[0]))):
                problems.append("the cursor is not advanced by the returned frame's bytes_of_frame")
        else:
            s2 = st.copy()
            s2.cons.append(("le", L.ladd(L.lsub(B0, E0), L.lconst(1))))
            s2.ne.append(B0)
            if s2.feasible():
                problems.append("the walk can end (null) although frames remain before the end of the packet")
    if nn == 0:
        problems.append("never returns a frame")
    inst = "frame_iterator_next: returns frames exactly while beg < end"
    if problems:
        res.fail(R, inst, "R-STEP|frame_iterator_next|bounds", f.loc(), "frame_iterator_next: %s" % "; ".join(sorted(set(problems))))
    else:
        res.oblige(R, inst, True, "%d return state(s)" % len(rets), f.loc())
    g = prog.func("vfslice_split_at_delay_ms")
    res.touched(g)
    loops = paths.natural_loops(g)
    if len(loops) != 1:
        raise AnalysisBroken("vfslice_split_at_delay_ms: expected one walk over the frames")
    head, body = loops[0]
    rec = {"pre": [], "back": []}
    an = L.Analysis(prog)
    ivs = {an.cellkey(g, lv, L.State()) for b in body for s_ in g.blocks[b].stmts for lv, op, rhs, w in ir.writes_of(s_)
           if ir.strip(lv).get("k") == "var"}
    iv = ivs.pop() if len(ivs) == 1 else None

    def entry(f_, h, s_):
        if f_ is g and iv:
            v = [x for x in g.blocks[head].stmts]  # force the cursor's symbol into existence
            cur_nodes = [y for b in body for st_ in g.blocks[b].stmts for y in ir.walk(st_) if y.get("k") == "var" and an.cellkey(g, y, s_) == iv]
            if cur_nodes:
                s_.cells["__cur0__"] = an.eval(g, cur_nodes[0], s_)[0][0]
    an.on_loop_pre = lambda f_, h, s_: rec["pre"].append(s_.copy()) if f_ is g else None
    an.on_loop_entry = entry
    an.on_backedge = lambda f_, h, s_: rec["back"].append(s_.copy()) if f_ is g else None
    an.run(g, L.State())
    problems = []
    if iv is None or not rec["pre"] or not rec["back"]:
        problems.append("walk not recognised")
    else:
        Bs = Es = None
        for s_ in rec["pre"]:
            Bs = an.eval(g, {"k": "mem", "arrow": True, "b": dict(g.params[0], k="var"), "f": "beg", "pd": 1}, s_)[0][0]
            if iv not in s_.cells or not s_.entails_eq(L.lsub(s_.cells[iv], Bs)):
                problems.append("the walk does not start at slice->beg")
        for s_ in rec["back"]:
            Es = an.eval(g, {"k": "mem", "arrow": True, "b": dict(g.params[0], k="var"), "f": "end", "pd": 1}, s_)[0][0]
            c0 = s_.cells.get("__cur0__")
            if c0 is None or not s_.entails_le(L.ladd(L.lsub(c0, Es), L.lconst(1))):
                problems.append("a header is read although the cursor is not below slice->end (reads past the mapped region)")
    inst = "vfslice_split_at_delay_ms: headers are read only while cur < slice->end"
    if problems:
        res.fail(R, inst, "R-STEP|vfslice_split_at_delay_ms|bounds", g.loc(), "vfslice_split_at_delay_ms: %s" % "; ".join(sorted(set(problems))))
    else:
        res.oblige(R, inst, True, "", g.loc())


def bytes_of_type_table(prog, res):
    """T-VALUE: for every SampleType enumerator e, bytes_of_type(e) evaluated by
    constant propagation through the function (tables, helpers, shifts) is the
    number of bytes an unpacked sample of that many bits occupies: ceil(bits/8),
    the bit width being the number in the enumerator's name (u8, i16, f32, u10 ...)."""
    import re
    from .. import linear as L
    f = prog.func("bytes_of_type")
    res.touched(f)
    want = tables.enum_below_sentinel(prog, "SampleType")
    if not want or len(f.params) != 1:
        raise AnalysisBroken("bytes_of_type(enum SampleType) / the SampleType enumerators were not found")
    for name, val in want:
        m = re.search(r"(\d+)$", name)
        inst = "bytes_of_type(%s)" % name
        if not m:
            res.notes.append("T-VALUE: %s carries no bit width in its name; only non-zero is required" % name)
        need = (int(m.group(1)) + 7) // 8 if m else None
        an = L.Analysis(prog)
        st = L.State()
        st.cells["%s:%s" % (f.name, f.params[0]["n"])] = L.lconst(val)
        rets = an.run(f, st)
        vals = set()
        for rv, s_ in rets:
            vals.add(int(rv.get(L.ONE, 0)) if (rv is not None and L.is_const(rv)) else None)
        ok = bool(vals) and None not in vals and len(vals) == 1 and \
            ((need is not None and vals == {need}) or (need is None and 0 not in vals))
        if ok:
            res.oblige("T-EXH", inst, True, "evaluates to %d byte(s) (constant propagation, %d return state(s))" % (list(vals)[0], len(rets)), f.loc())
        else:
            shown = ", ".join("unknown" if v is None else str(v) for v in sorted(vals, key=lambda x: (x is None, x))) or "nothing"
            res.fail("T-EXH", inst, "T-EXH|bytes_of_type|%s" % name, f.loc(),
                     "bytes_of_type(%s) evaluates to %s; a sample of that type occupies %s byte(s): frames of that type are sized, chained and copied with the wrong image size"
                     % (name, shown, need if need is not None else "a non-zero number of"))
    g = prog.func("bytes_of_image")
    res.touched(g)
    ok = any(c.get("fn") == "bytes_of_type" for b, i, s in g.all_stmts() for c in ir.calls_in(s))
    (res.oblige("T-EXH", "bytes_of_image uses bytes_of_type", True, "", g.loc()) if ok else
     res.fail("T-EXH", "bytes_of_image uses bytes_of_type", "T-EXH|bytes_of_image", g.loc(),
              "bytes_of_image no longer multiplies by bytes_of_type"))


def packet_forward(prog, res, rule="R-PACKET-FORWARD"):
    """What the sink hands to storage_append is a packet: a chain of whole frames.  The HAL must hand the
    driver that same packet - the frame pointer it received and the byte count end - beg - not a region that
    starts at a byte cursor it advanced itself (a count a device reports back need not be a frame boundary)."""
    from .. import congr
    f = prog.func("storage_append")
    res.touched(f)
    pb, pe = f.params[1], f.params[2]
    n = 0
    for b, i, s in f.all_stmts():
        for c in ir.calls_in(s):
            if c.get("fn") or "append" not in ir.render(c.get("callee") or {}):
                continue
            args = c.get("args", [])
            if len(args) < 3:
                continue
            n += 1
            a1 = ir.strip(congr.resolve_at(prog, f, (b.id, i), args[1]))
            while isinstance(a1, dict) and a1.get("k") == "cast":
                a1 = ir.strip(a1["e"])
            ok_ptr = isinstance(a1, dict) and a1.get("k") == "var" and a1.get("id") == pb.get("id")
            # the count: &local whose value at the call is end - beg
            a2 = ir.strip(args[2])
            ok_cnt = False
            if isinstance(a2, dict) and a2.get("k") == "addr" and ir.strip(a2["e"]).get("k") == "var":
                d = congr.reaching_def(f, (b.id, i), ir.strip(a2["e"])["id"])
                d = ir.strip(congr.inline_expr(prog, f, d)) if isinstance(d, dict) else None
                if isinstance(d, dict) and d.get("k") == "bin" and d.get("op") == "-":
                    ids_l = {y.get("id") for y in ir.walk(d["l"]) if isinstance(y, dict) and y.get("k") == "var"}
                    ids_r = {y.get("id") for y in ir.walk(d["r"]) if isinstance(y, dict) and y.get("k") == "var"}
                    ok_cnt = ids_l == {pe.get("id")} and ids_r == {pb.get("id")}
            inst = "storage_append: the driver's append receives the caller's packet (line %s)" % s.get("line")
            if ok_ptr and ok_cnt:
                res.oblige(rule, inst, True, "frame pointer = beg, count = end - beg", f.loc(s))
            else:
                res.fail(rule, inst, "%s|storage_append" % rule, f.loc(s),
                         "storage_append hands the driver %s with a count that is %s: the region can start or end inside a frame, so the device no longer receives whole, chained frames"
                         % ("the caller's frame pointer" if ok_ptr else "a pointer it computed itself (%s)" % ir.render(args[1]),
                            "end - beg" if ok_cnt else "not end - beg of the caller's packet"))
    if n == 0:
        raise AnalysisBroken("storage_append no longer calls the driver's append slot")
    return n


def run(ctx, res):
    prog = ctx.program()
    res.extra["explanation"] = EXPLANATION
    res.assumptions += [
        "the camera does not change its shape between camera_get_image_shape and camera_get_frame (run-time; not decided)",
        "packets start and end on frame boundaries if the channel delivers committed writes whole (C01; the per-call arithmetic of that - a reader's region ends at head or at high, high is the old head - is checked here too)",
    ]
    witnesses(ctx, res)
    n = producers(prog, res)
    source_shape_is_cameras(prog, res)
    commit_only_filled(prog, res)
    from .c10 import commit_own
    res.guard(commit_own, prog, res, prog.func("process_data"), "R-PRODUCER")
    consumers(prog, res)
    res.guard(iterators, prog, res)
    bytes_of_type_table(prog, res)
    from ..indexguard import rule_index_guards
    res.guard(rule_index_guards, prog, res, ["bytes_of_type", "sample_type_as_string"])
    res.require_min("R-INDEX", 2)
    if n < 2:
        raise AnalysisBroken("expected two frame producers (source, filter), found %d" % n)
    # packets begin and end on commit boundaries: what the channel hands a reader ends at head or at
    # high, and high is the head of the moment the writer wrapped (R-LIN READ / WRAP), laps included (R-INDUCT)
    from ..channelarith import rule_linear
    res.guard(rule_linear, prog, res)
    res.require_min("R-LIN", 15)
    res.guard(packet_forward, prog, res)
    res.require_min("R-PACKET-FORWARD", 1)
    res.require_min("WITNESS", 7)
    res.require_min("R-PRODUCER", 12)
    res.require_min("R-STEP", 6)
    res.require_min("T-EXH", 6)
