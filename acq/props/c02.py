"""C02 — the writer is never given memory a reader still holds or has not
consumed.  Decided clauses (DESIGN.md 4/C02): check-then-act atomicity of
channel_write_map (R-WRITE-GUARD), only channel.c moves cursors (R-ENCAPS),
every cursor access under the channel lock (L-GUARDED), balanced locking
(L-PAIR), cursor dimensions incl. the slowest-reader order (R-DIM)."""
from .. import lockrules as LR
from ..locks import LockAnalysis
from ..channelrules import (CHANNEL_FIELDS, channel_functions, rule_write_guard,
                            rule_encaps, rule_dimensions, rule_stale_across_wait, rule_cursor_pair, rule_cursor_copy, rule_full_guard)

EXPLANATION = (
    "Static analysis over clang CFGs. R-WRITE-GUARD: a path-sensitive dataflow "
    "over channel_write_map whose facts are (block, grant, known flag values): "
    "'grant' is set on the true edge of the 'no readers registered' test and on "
    "the edge where next_write() reported that the request fits against the "
    "slowest reader, it is cleared by condition_variable_wait and lock_release; "
    "the store that records the mapped region (and so every non-null return) "
    "must be reached only with a grant obtained under the current hold of the "
    "lock. R-ENCAPS: no function outside channel.c writes a field of struct "
    "channel / channel_reader, reads outside are limited to the reader's public "
    "state/status/id and one named advisory statistic. L-GUARDED / L-PAIR as in "
    "C01 (a torn read of a reader cursor in reader_min is an overlap waiting to "
    "happen). R-DIM: the slowest reader is chosen by (lap, position) in that "
    "order.")
EXPLANATION += (' R-LIN (linear-relations abstract interpretation, Fourier-Motzkin entailment) now decides the placement arithmetic: every granting return of next_write lies in the free space with respect to the slowest reader and inside the buffer; mapped == beg + nbytes, the result is data + beg, a lap change is recorded as high = old head / lap + 1, write_unmap commits head = mapped, the wrap-everybody loop covers the registered readers; cursor_cmp / reader_min as in C01. R-FULL-GUARD: grants only behind the ring-full test. Which lap the slowest reader is in is carried structurally, not numerically.')



EXPLANATION += (' R-INDUCT (channelinduct.py): an inductive invariant with the lap counters as integers of the linear domain - every hold cursor is in the writer\'s lap at or below head, or one lap behind with the pending write [head, mapped) below it; a mapped reader\'s target cursor bounds committed, unconsumed bytes starting at its hold - is assumed at the entry of each of the six channel operations (one abstract entry state per disjunct, a symbolic reader J, a second symbolic reader K for frames, reader_min replaced by its specification, the wait re-establishing the invariant, the wrap-everybody loop summarised from its back edge) and proved at every return, together with a frame condition per operation (accept_writes changes only the flag, abort only mapped, write_unmap only head, reader operations only the calling reader\'s slot and object).')


def run(ctx, res):
    prog = ctx.program()
    la = LockAnalysis(prog)
    res.extra["explanation"] = EXPLANATION
    res.assumptions += [
        "readers only advance their cursors through channel_read_map/unmap (R-ENCAPS) under the lock",
        "flag values read twice within one hold of the lock are equal (used to prune contradictory branches)",
    ]
    res.guard(rule_write_guard, prog, res)
    if rule_full_guard(prog, res, la) < 2:
        from ..build import AnalysisBroken
        raise AnalysisBroken("next_write: fewer than two grant returns found")
    res.guard(rule_stale_across_wait, prog, res, la, CHANNEL_FIELDS)
    n = res.guard(rule_encaps, prog, res, la) or 0
    res.guard(LR.rule_l_pair, la, res, channel_functions(prog))
    LR.rule_l_guarded(la, res, ("channel", "lock"), CHANNEL_FIELDS,
                      exempt_fns={"video_sink_bytes_waiting": "advisory statistic, read-only, outside every property"})
    res.guard(rule_dimensions, prog, res)
    res.guard(rule_cursor_pair, prog, res, la)
    res.guard(rule_cursor_copy, prog, res, la)
    from ..channelarith import rule_linear
    res.guard(rule_linear, prog, res)
    res.require_min("R-LIN", 15)
    # the inductive cursor invariant, laps included (channelinduct.py)
    from ..channelinduct import rule_induct
    res.guard(rule_induct, prog, res, with_mapped=True)
    res.require_min("R-INDUCT", 12)
    from ..channelrules import rule_hold_bound
    res.guard(rule_hold_bound, prog, res)
    res.require_min("R-HOLD-BOUND", 5)
    # "zero-copy consumers never see a frame change under them": the sink gives its region back to the writer
    # only after storage_append has returned for it (R-CONSUME, append mode: an append lies between map and release)
    from .. import runtimerules as _RRc
    res.guard(_RRc.rule_consume_file, prog, res, "video_sink_thread", "append")
    res.require_min("R-CONSUME", 2)
    res.require_min("R-WRITE-GUARD", 1)
    res.require_min("R-ENCAPS", 5)
    res.require_min("L-GUARDED", 40)
    res.require_min("L-PAIR", 10)
    res.require_min("R-DIM", 10)
