"""C10 — frame averaging emits the exact mean of each window of consecutive
frames.  Decided clauses (DESIGN.md 4/C10): the accumulator's payload is
initialised before it is read-modified (O-INIT-RMW), accumulate handles every
integer sample type (T-EXH), the window-complete edge normalises by the frame
count, commits and resets, the emitted frame carries the first frame's id, and
the filter's reader is always unmapped (PAIR)."""
from .. import ir, paths, tables
from ..build import AnalysisBroken

EXPLANATION = (
    "Static analysis of runtime/filter.c over clang CFGs. O-INIT-RMW: memory "
    "returned by channel_write_map is indeterminate (the ring is reused); on "
    "every path from the mapping of the accumulator frame to the first call of a "
    "function that reads the payload (summary: rvalue use or compound assignment "
    "through a pointer derived from ->data) the payload must be written by "
    "memset/memcpy. T-EXH: accumulate's switch has a case for every SampleType "
    "below the sentinel except the float accumulator type itself. R-WINDOW: from "
    "the window-complete edge every path passes normalize (scaled by the frame "
    "count), channel_write_unmap of the output and the reset of both the "
    "accumulator pointer and the frame counter; the counter is set to 1 / "
    "incremented exactly where a frame was accumulated; the header's frame_id is "
    "the first frame's. PAIR: every channel_read_map of the filter's reader is "
    "followed by channel_read_unmap on every path. Numerical exactness of the "
    "mean, and the filter/sink race at end of stream, are not decided.")
EXPLANATION += (' R-KERNEL: every per-pixel loop is 0..npx-1 (linear domain loop hooks; index or pointer-walk form) with a single element update and the element type of its sample type. R-WINDOW additions: window state empty at start, exact window test, count only after accumulate, float accumulator zeroed over its payload, commit only with an own mapping. R-DRAIN: a pass follows every read of the stop flag. R-CONSUME: the packet is released only after the walk is exhausted.')



def as_update(lv, op, rhs):
    """(operator, other operand) if the store is an update of its own target:
    x op= y,  or  x = x op y / x = y op x (commutative ops)"""
    if op in ("+=", "*=", "-=", "/="):
        return op, rhs
    r0 = ir.strip(rhs) if isinstance(rhs, dict) else None
    if op == "=" and isinstance(r0, dict) and r0.get("k") == "bin" and r0.get("op") in ("+", "*", "-", "/"):
        a, b = ir.strip(r0["l"]), ir.strip(r0["r"])
        if ir.render(a) == ir.render(ir.strip(lv)):
            return r0["op"] + "=", b
        if r0["op"] in ("+", "*") and ir.render(b) == ir.render(ir.strip(lv)):
            return r0["op"] + "=", a
    return None


def reads_payload(prog, g, pidx):
    """Does g read-modify (or read) the payload of its VideoFrame* parameter
    pidx?  True if a pointer derived from param->data is used as the target of
    a compound assignment or as an rvalue."""
    p = g.params[pidx]
    derived = set()
    for b, i, s in g.all_stmts():
        for lv, op, rhs, w in ir.writes_of(s):
            if lv.get("k") == "var" and isinstance(rhs, dict):
                for y in ir.walk(rhs):
                    if y.get("k") == "mem" and y["f"] == "data":
                        root, ch = ir.field_chain(y)
                        if isinstance(root, dict) and root.get("k") == "var" and root["id"] == p["id"]:
                            derived.add(lv["id"])
    for b, i, s in g.all_stmts():
        for x in ir.walk(s):
            if x.get("k") == "asg" and as_update(x["l"], x["op"], x.get("r")) is not None:
                root, ch = ir.field_chain(x["l"])
                base = x["l"]
                while isinstance(base, dict) and base.get("k") in ("idx", "deref"):
                    base = ir.strip(base.get("b") or base.get("e"))
                if isinstance(base, dict) and base.get("k") == "var" and base["id"] in derived:
                    return True
    return False


def init_rmw(prog, res, f):
    R = "O-INIT-RMW"
    res.touched(f)
    maps = []
    for b, i, s in f.all_stmts():
        for c in ir.calls_in(s):
            if c.get("fn") == "channel_write_map":
                used = any(x.get("k") == "cast" and x.get("r") == "VideoFrame" for x in ir.walk(s))
                if used:
                    tgt = None
                    for lv, op, rhs, w in ir.writes_of(s):
                        tgt = ir.ap(lv)
                    maps.append((b.id, i, s, tgt))
    if not maps:
        raise AnalysisBroken("%s no longer maps an accumulator frame" % f.name)
    for bid, i, s, tgt in maps:
        # functions applied to the mapped frame that read its payload
        readers = []
        for bb, ii, ss in f.all_stmts():
            for c in ir.calls_in(ss):
                g = prog.resolve(c["fn"], f) if c.get("fn") else None
                if g is None:
                    continue
                for k, a in enumerate(c.get("args", [])):
                    if ir.ap(a) is not None and tgt is not None and ir.ap(a).lstrip("*") == tgt.lstrip("*") and k < len(g.params):
                        if reads_payload(prog, g, k):
                            readers.append((bb.id, ii, g.name))
        if not readers:
            raise AnalysisBroken("no payload-reading function is applied to the accumulator in %s" % f.name)

        # how many bytes were mapped for this frame (the size handed to channel_write_map)
        from .. import congr as _congr
        msize = None
        for c_ in ir.calls_in(s):
            if c_.get("fn") == "channel_write_map" and len(c_.get("args", [])) >= 2:
                msize = ir.strip(c_["args"][1])
        # the image shape stored into the frame's header ( .shape = S ): bytes_of_image(&S) is the payload
        hdr_shapes = set()
        for bb_, ii_, ss_ in f.all_stmts():
            for y_ in ir.walk(ss_):
                if isinstance(y_, dict) and y_.get("k") == "init":
                    for e_ in y_.get("elts", []):
                        if e_.get("f") == "shape" and isinstance(e_.get("v"), dict):
                            v_ = ir.strip(e_["v"])
                            if v_.get("k") == "var":
                                hdr_shapes.add(v_.get("id"))
        partial = []

        def covers_payload(c, pos):
            """size argument of the memset = mapped bytes - header, or bytes_of_image of the header's shape"""
            n_ = ir.strip(c["args"][2]) if len(c.get("args", [])) >= 3 else None
            n_ = ir.strip(_congr.resolve_at(prog, f, pos, n_)) if isinstance(n_, dict) else n_
            if isinstance(n_, dict) and n_.get("k") == "bin" and n_.get("op") == "-":
                r_ = ir.strip(n_["r"])
                l_ = ir.strip(n_["l"])
                if isinstance(r_, dict) and r_.get("k") == "int" and r_.get("sizeof_r") == "VideoFrame" and msize is not None and \
                        ir.render(_congr.inline_expr(prog, f, l_)) == ir.render(_congr.inline_expr(prog, f, msize)):
                    return True
            if isinstance(n_, dict) and n_.get("k") == "call" and n_.get("fn") == "bytes_of_image" and n_.get("args"):
                a_ = ir.strip(n_["args"][0])
                if isinstance(a_, dict) and a_.get("k") == "addr":
                    a_ = ir.strip(a_["e"])
                if isinstance(a_, dict) and a_.get("k") == "var" and a_.get("id") in hdr_shapes:
                    return True
                # the accumulator's own header:  &acc->shape
                if isinstance(a_, dict) and a_.get("k") == "mem" and a_.get("f") == "shape" and (ir.ap(a_.get("b")) or "").replace("[0]", "").lstrip("*") == tgt.lstrip("*").replace("[0]", ""):
                    return True
            return False

        def inits(ss, tgt=tgt):
            for c in ir.calls_in(ss):
                if c.get("fn") in ("memset", "memcpy"):
                    d = c["args"][0]
                    flds = [y for y in ir.walk(d) if y.get("k") == "mem" and y["f"] == "data"]
                    for y in flds:
                        base = ir.ap(y["b"])
                        if base is not None and base.replace("[0]", "").lstrip("*") == tgt.lstrip("*").replace("[0]", ""):
                            pos_ = next(((b2.id, i2) for b2, i2, s2 in f.all_stmts() if s2 is ss), None)
                            if pos_ is not None and covers_payload(c, pos_):
                                return True
                            partial.append(ss)
            return False
        dsts = {(b_, i_) for b_, i_, n_ in readers}

        def not_mapped(blk, succ, tgt=tgt):
            # the edge on which the mapping returned NULL: nothing was mapped
            c = ir.strip(blk.cond_node())
            neg = False
            while isinstance(c, dict) and c.get("k") == "un" and c.get("op") == "!":
                neg = not neg
                c = ir.strip(c["e"])
            if isinstance(c, dict) and ir.ap(c) == tgt:
                return succ.get("label") == ("true" if neg else "false")
            return False
        ok, w = paths.all_paths_pass(f, (bid, i), dsts, inits, edge_ok=not_mapped)
        names = sorted({n_ for _, _, n_ in readers})
        inst = "%s: payload of %s initialised before %s" % (f.name, tgt, "/".join(names))
        if ok:
            res.oblige(R, inst, True, "memset/memcpy of ->data on every path from the mapping to the first read-modify", f.loc(s))
        else:
            if partial:
                res.fail(R, inst, "O-INIT-RMW|%s|%s|extent" % (f.name, names[0]), f.loc(partial[0]),
                         "%s clears the accumulator's pixel data with a byte count (%s) that is neither the mapped size minus the header nor bytes_of_image of the shape stored in its header: "
                         "the accumulator is a float image, a count taken from the input frame covers a quarter or half of it and the rest of the sum starts from stale ring bytes"
                         % (f.name, ir.render([c_ for c_ in ir.calls_in(partial[0]) if c_.get("fn") in ("memset", "memcpy")][0]["args"][2])), {"path_blocks": w})
            else:
                res.fail(R, inst, "O-INIT-RMW|%s|%s" % (f.name, names[0]), f.loc(s),
                         "%s maps the accumulator frame from the output ring and passes it to %s, which adds into its pixel data, without initialising that data first: once the ring wraps the sum starts from stale bytes"
                         % (f.name, names[0]), {"path_blocks": w})


def _accumulate_for(prog, g, val):
    """constant propagation through accumulate for one sample type: (visited blocks, return values)"""
    from .. import linear as L
    f32 = dict(prog.enum_values("SampleType") or []).get("SampleType_f32")
    an = L.Analysis(prog)
    an.inline_also = {"bytes_of_type", "bits_of_type"}
    st = L.State()
    accn, inn = g.params[0]["n"], g.params[1]["n"]
    st.cells["%s->shape.type" % inn] = L.lconst(val)
    if f32 is not None:
        st.cells["%s->shape.type" % accn] = L.lconst(f32)
    rets = an.run(g, st)
    visited = {bid for (fn, bid) in an.blocks_visited if fn == g.name}
    vals = [(int(rv.get(L.ONE, 0)) if (rv is not None and L.is_const(rv)) else None) for rv, s_ in rets]
    loops = [(h, body) for h, body in paths.natural_loops(g) if h in visited and any(x in visited for x in body if x != h)]
    return visited, vals, loops


def accumulate_exhaustive(prog, res):
    """T-EXH: for every integer sample type, accumulate - evaluated by constant
    propagation with in->shape.type fixed (through switch / if chains / a
    dispatch on bytes_of_type) - runs a per-pixel loop and reports success."""
    g = prog.func("accumulate")
    res.touched(g)
    want = tables.enum_below_sentinel(prog, "SampleType")
    if not want or len(g.params) < 2:
        raise AnalysisBroken("accumulate(acc, in) / the SampleType enumerators were not found")
    for name, val in want:
        if name == "SampleType_f32":
            continue  # the accumulator's own type; not an integer input
        inst = "accumulate handles %s" % name
        visited, vals, loops = _accumulate_for(prog, g, val)
        if loops and vals and all(v not in (0, None) for v in vals):
            res.oblige("T-EXH", inst, True, "reaches %d per-pixel loop(s) and returns non-zero" % len(loops), g.loc())
        else:
            res.fail("T-EXH", inst, "T-EXH|accumulate|%s" % name, g.loc(),
                     "accumulate has no kernel for %s (no per-pixel loop is reached or it reports failure): frames of that integer type abort the averaging" % name)


def window_rules(prog, res, f):
    R = "R-WINDOW"
    # the window-complete test: *frame_count >= self->filter_window_frames
    tests = []
    for b in f.blocks.values():
        c = b.cond_node()
        if c is None:
            continue
        c0 = ir.strip(c)
        if isinstance(c0, dict) and c0.get("k") == "bin" and c0["op"] in (">=", ">", "==", "<=", "<"):
            sides = (c0["l"], c0["r"])
            has_win = [any(y.get("k") == "mem" and y["f"] == "filter_window_frames" for y in ir.walk(x)) for x in sides]
            # the window test compares a running count (an lvalue) with the window size
            if (has_win[0] and not has_win[1] and ir.ap(sides[1]) and not ir.is_const(sides[1])) or \
                    (has_win[1] and not has_win[0] and ir.ap(sides[0]) and not ir.is_const(sides[0])):
                tests.append(b)
    if not tests:
        raise AnalysisBroken("window-complete test not found in %s" % f.name)
    # names are taken from the code: the counter is what the window test
    # compares with filter_window_frames, the accumulator pointer is the target
    # of the channel_write_map that is used as a VideoFrame
    c0 = ir.strip(tests[0].cond_node())
    cnt_ap = ir.ap(c0["l"]) if not any(y.get("k") == "mem" and y["f"] == "filter_window_frames" for y in ir.walk(c0["l"])) else ir.ap(c0["r"])
    acc_ap = None
    for b_, i_, s_ in f.all_stmts():
        if any(c.get("fn") == "channel_write_map" for c in ir.calls_in(s_)) and any(x.get("k") == "cast" and x.get("r") == "VideoFrame" for x in ir.walk(s_)):
            for lv, op, rhs, w in ir.writes_of(s_):
                acc_ap = ir.ap(lv)
    if not cnt_ap or not acc_ap:
        raise AnalysisBroken("process_data: cannot identify the frame counter / accumulator pointer")
    acc_names = (acc_ap, acc_ap.lstrip("*") + "[0]")
    cnt_names = (cnt_ap, cnt_ap.lstrip("*") + "[0]")
    for b in tests:
        # the edge on which the window is complete: where count >= window size holds
        from .. import linear as L_
        an_ = L_.Analysis(prog)
        T_, F_ = an_.branch(f, b.cond_node(), L_.State())

        def complete(states):
            ok_ = bool(states)
            for s_ in states:
                k_ = an_.read(s_, "self->filter_window_frames")
                cn_ = [v for kk, v in s_.cells.items() if kk != "self->filter_window_frames"]
                ok_ = ok_ and len(cn_) == 1 and s_.entails_le(L_.lsub(k_, cn_[0]))
            return ok_
        lab_ = "true" if complete(T_) else ("false" if complete(F_) else "true")
        tsucc = [s["to"] for s in b.succs if s.get("label") == lab_ and s.get("to") is not None]
        loop = paths.innermost_loop(f, b.id)
        heads = [h for h, body in paths.natural_loops(f) if loop and body == loop]
        dst = {(heads[0], 0)} if heads and f.blocks[heads[0]].stmts else "exit"
        checks = [
            ("normalize", lambda s: any(c.get("fn") == "normalize" for c in ir.calls_in(s)),
             "the accumulated sum is not divided by the number of frames"),
            ("channel_write_unmap(out)", lambda s: any(c.get("fn") == "channel_write_unmap" for c in ir.calls_in(s)),
             "the averaged frame is never committed"),
            ("*accumulator = 0", lambda s: any(ir.ap(lv) in acc_names and ir.is_const(rhs, 0)
                                               for lv, op, rhs, w in ir.writes_of(s)),
             "the accumulator is not released: the next window adds into the emitted frame"),
            ("*frame_count = 0", lambda s: any(ir.ap(lv) in cnt_names and ir.is_const(rhs, 0)
                                               for lv, op, rhs, w in ir.writes_of(s)),
             "the frame counter is not reset: later windows are shorter / scaled wrongly"),
        ]
        for name, pred, why in checks:
            ok = True
            w = None
            for t in tsucc:
                o, w_ = paths.all_paths_pass(f, (t, -1), dst, pred)
                if not o:
                    ok, w = False, w_
            inst = "%s: window complete -> %s" % (f.name, name)
            if ok:
                res.oblige(R, inst, True, "on every path from the complete-window edge to the next frame", "%s:%s" % (f.file, b.tline))
            else:
                res.fail(R, inst, "R-WINDOW|%s|%s" % (f.name, name), "%s:%s" % (f.file, b.tline),
                         "when a window is complete %s can continue without %s: %s" % (f.name, name, why), {"path_blocks": w})
        # order: normalize before the commit
        for t in tsucc:
            commits = [(bb, ii) for bb, ii, ss in paths.reachable_after(f, (t, -1), lambda s: any(c.get("fn") == "channel_write_unmap" for c in ir.calls_in(s)))]
            ok, w = paths.all_paths_pass(f, (t, -1), set(commits), checks[0][1]) if commits else (False, None)
            inst = "%s: normalize precedes the commit" % f.name
            if ok:
                res.oblige(R, inst, True, "", "%s:%s" % (f.file, b.tline))
            else:
                res.fail(R, inst, "R-WINDOW|%s|order" % f.name, "%s:%s" % (f.file, b.tline),
                         "the averaged frame can be committed before it is normalised: readers see the sum")
    # normalisation factor is 1 / frame count
    for b_, i_, s_ in f.all_stmts():
        for c in ir.calls_in(s_):
            if c.get("fn") == "normalize":
                arg = c["args"][1]
                ok = False
                for y in ir.walk(arg):
                    if y.get("k") == "bin" and y["op"] == "/" and any(ir.ap(z) in cnt_names for z in ir.walk(y["r"])):
                        ok = True
                    if y.get("k") == "ref":
                        rs = f.resolve_ref(y)
                        if rs is not None:
                            for z in ir.walk(rs):
                                if z.get("k") == "bin" and z["op"] == "/" and any(ir.ap(q) in cnt_names for q in ir.walk(z["r"])):
                                    ok = True
                inst = "%s: normalize scales by 1 / *frame_count" % f.name
                if ok:
                    res.oblige(R, inst, True, ir.render(arg), f.loc(s_))
                else:
                    res.fail(R, inst, "R-WINDOW|%s|factor" % f.name, f.loc(s_),
                             "the normalisation factor %s is not the reciprocal of the number of accumulated frames" % ir.render(arg))
    # the counter follows the accumulate calls
    acc_calls = [(b_.id, i_, s_) for b_, i_, s_ in f.all_stmts() if any(c.get("fn") == "accumulate" for c in ir.calls_in(s_))]
    for bid, i, s in acc_calls:
        def counts(ss):
            for lv, op, rhs, w in ir.writes_of(ss):
                if ir.ap(lv) in cnt_names and (op in ("++", "+=") or ir.is_const(rhs, 1)):
                    return True
            return False
        # on the success edge of the CHECK(accumulate(..)) the counter is updated
        # before the next frame / exit
        blk = f.blocks[bid]
        okedge = [sc["to"] for sc in blk.succs if sc.get("label") == "false" and sc.get("to") is not None] \
            if ir.strip(blk.cond_node() or {}).get("k") == "un" else [sc["to"] for sc in blk.succs if sc.get("label") == "true"]
        loop = paths.innermost_loop(f, bid)
        heads = [h for h, body in paths.natural_loops(f) if loop and body == loop]
        dst = {(heads[0], 0)} if heads and f.blocks[heads[0]].stmts else "exit"
        ok = all(paths.all_paths_pass(f, (t, -1), dst, counts)[0] for t in okedge) if okedge else False
        inst = "%s: frame counter updated after accumulate (line %s)" % (f.name, s.get("line"))
        if ok:
            res.oblige(R, inst, True, "set to 1 / incremented on the success edge", f.loc(s))
        else:
            res.fail(R, inst, "R-WINDOW|%s|count" % f.name, f.loc(s),
                     "a frame is added to the accumulator without the frame counter being updated: the mean divides by the wrong count")
    # emitted frame carries the first frame's id
    for b_, i_, s_ in f.all_stmts():
        for x in ir.walk(s_):
            if x.get("k") == "init" and x.get("r") == "VideoFrame":
                flds = {e["f"]: e["v"] for e in x.get("elts", []) if "f" in e}
                fid = flds.get("frame_id")
                ok = isinstance(fid, dict) and (ir.ap(fid) or "").endswith("->frame_id") and \
                    ir.strip(fid["b"]).get("k") == "var" and ir.strip(fid["b"]).get("r") == "VideoFrame" and \
                    (ir.ap(fid["b"]) or "") not in acc_names
                inst = "%s: emitted frame_id is the window's first frame's" % f.name
                if ok:
                    res.oblige(R, inst, True, "in->frame_id at the mapping of the accumulator", f.loc(s_))
                else:
                    res.fail(R, inst, "R-WINDOW|%s|frame_id" % f.name, f.loc(s_),
                             "the averaged frame's id is %s, not the id of the first frame of its window" % ir.render(fid))


def window_init(prog, res, f, rule="R-WINDOW"):
    """The window state handed to process_data (accumulator pointer, frame
    counter) is empty when an acquisition begins: it is zero-initialised on
    every path from the worker's entry to the call (locals), or, when it lives
    in an object that outlives the worker, by every start before thread_create."""
    w = prog.func("video_filter_thread")
    res.touched(w)
    calls = [(b.id, i, c) for b, i, s in w.all_stmts() for c in ir.calls_in(s) if c.get("fn") == f.name]
    if not calls:
        raise AnalysisBroken("video_filter_thread no longer calls %s" % f.name)
    # parameters of process_data that carry state in and out: pointer params
    # that are both read and written through
    state_params = []
    for k, p in enumerate(f.params):
        if not p.get("pd"):
            continue
        wr = rd = False
        for b, i, s in f.all_stmts():
            for lv, op, rhs, w_ in ir.writes_of(s):
                root, ch = ir.field_chain(lv)
                if lv.get("k") in ("deref", "idx") and isinstance(root, dict) and root.get("k") == "var" and root.get("id") == p["id"] and not ch:
                    wr = True
        if wr:
            state_params.append(k)
    if len(state_params) < 2:
        raise AnalysisBroken("%s: window state parameters not found" % f.name)
    start = prog.func("video_filter_start")
    res.touched(start)
    for k in state_params:
        pname = f.params[k]["n"]
        objs = set()
        for bid, i, c in calls:
            a = ir.strip(c["args"][k]) if k < len(c["args"]) else None
            if isinstance(a, dict) and a.get("k") == "addr":
                objs.add(ir.ap(a["e"]))
            else:
                objs.add(None)
        inst = "video_filter_thread: window state '%s' is empty at the start of every acquisition" % pname
        if None in objs or len(objs) != 1:
            res.fail(rule, inst, "R-WINDOW|init|%s" % pname, w.loc(),
                     "cannot identify the object passed as %s's %s" % (f.name, pname))
            continue
        obj = objs.pop()

        def zero(s, obj=obj):
            for lv, op, rhs, w_ in ir.writes_of(s):
                if op != "=":
                    continue
                p_ = ir.ap(lv)
                if p_ == obj and ir.is_const(rhs, 0):
                    return True
                # the enclosing local aggregate initialised as a whole: = {0} / = {.f = 0}
                r0 = ir.strip(rhs) if isinstance(rhs, dict) else None
                if p_ and obj.startswith(p_ + ".") and isinstance(r0, dict) and r0.get("k") == "init":
                    fld = obj[len(p_) + 1:].split(".")[0]
                    named = [e for e in r0.get("elts", []) if e.get("f") == fld]
                    if all(ir.is_const(e["v"], 0) for e in named) and all("f" in e or ir.is_const(e.get("v"), 0) for e in r0.get("elts", [])):
                        return True
            for c in ir.calls_in(s):
                if c.get("fn") == "memset" and len(c.get("args", [])) == 3 and ir.is_const(c["args"][1], 0):
                    d = ir.strip(c["args"][0])
                    if isinstance(d, dict) and d.get("k") == "addr":
                        p_ = ir.ap(d["e"])
                        if p_ and (obj == p_ or obj.startswith(p_ + ".")):
                            return True
            return False
        dsts = {(bid, i) for bid, i, c in calls}
        ok, wit = paths.all_paths_pass(w, "entry", dsts, zero)
        how = "zero-initialised in the worker before the first %s" % f.name
        if not ok and "->" in obj:
            # lives in the controller object: every start must reset it
            creates = {(b.id, i) for b, i, s in start.all_stmts() if any(c.get("fn") == "thread_create" for c in ir.calls_in(s))}
            fld = obj.split("->", 1)[1]

            def zero_s(s, fld=fld):
                return any((ir.ap(lv) or "").endswith("->" + fld) and op == "=" and ir.is_const(rhs, 0) for lv, op, rhs, w_ in ir.writes_of(s))
            if creates:
                ok, wit = paths.all_paths_pass(start, "entry", creates, zero_s)
                how = "reset by video_filter_start before thread_create"
        if ok:
            res.oblige(rule, inst, True, how, w.loc())
        else:
            res.fail(rule, inst, "R-WINDOW|init|%s" % pname, w.loc(),
                     "the averaging state %s (passed as %s) is not reset when an acquisition starts: an incomplete trailing window of the previous "
                     "acquisition is continued with the first frames of the next one, so windows are shifted and a committed frame is summed into" % (obj, pname))


ELEMENT_TYPE = {  # sample type -> (bytes, signed) of the element the kernel must read
    "SampleType_u8": (1, False), "SampleType_u10": (2, False), "SampleType_u12": (2, False),
    "SampleType_u14": (2, False), "SampleType_u16": (2, False), "SampleType_i8": (1, True), "SampleType_i16": (2, True)}
CTYPE = {"uint8_t": (1, False), "unsigned char": (1, False), "uint16_t": (2, False), "unsigned short": (2, False),
         "int8_t": (1, True), "signed char": (1, True), "char": (1, True), "int16_t": (2, True), "short": (2, True)}


def _kernel_loop(prog, f, head, body, op_want, is_acc):
    """problems of one per-pixel loop; index form  x[i] op= y[i]  or pointer
    walk  *xo op= *y  with both pointers stepping by one element"""
    from .. import linear as L
    an0 = L.Analysis(prog)
    stores = [(lv, op, rhs) for b in body for s_ in f.blocks[b].stmts for lv, op, rhs, w in ir.writes_of(s_)
              if ir.strip(lv).get("k") in ("idx", "deref")]
    problems = []
    # no way out of the body except the loop condition
    for b in body:
        if b == head:
            continue
        for t in f.blocks[b].succ_ids():
            if t not in body:
                problems.append("the body can leave the loop before the last pixel")
    upd = as_update(*stores[0]) if len(stores) == 1 else None
    if upd is None or upd[0] != op_want:
        return problems + ["the body is not a single element update with %s" % op_want]
    lv, op, rhs = stores[0][0], upd[0], upd[1]
    l0 = ir.strip(lv)
    accn = f.params[0]["n"]
    inn = f.params[1]["n"] if is_acc and len(f.params) > 1 else None
    npx_of = lambda an, s_: an.read(s_, "%s->shape.strides.planes" % accn)
    if l0.get("k") == "idx":
        problems += L.counted_loop_problems(prog, f, head, body, npx_of)
        xv = ir.strip(l0["b"])
        if "float" not in (xv.get("t", "") if isinstance(xv, dict) else ""):
            problems.append("the target is not the float payload")
        ivk = an0.cellkey(f, l0["i"], L.State())
        c = f.blocks[head].cond_node()
        cvars = {an0.cellkey(f, y, L.State()) for y in ir.walk(c) if isinstance(y, dict) and y.get("k") == "var"} if c is not None else set()
        if ivk not in cvars:
            problems.append("the target is not indexed by the loop index")
        if is_acc:
            r0 = ir.strip(rhs)
            if not (isinstance(r0, dict) and r0.get("k") == "idx" and an0.cellkey(f, r0["i"], L.State()) == ivk):
                problems.append("the addend is not y[i]")
        return problems
    # pointer walk
    tgt = ir.strip(l0["e"])
    src = ir.strip(ir.strip(rhs)["e"]) if is_acc and isinstance(ir.strip(rhs), dict) and ir.strip(rhs).get("k") == "deref" else None
    if not (isinstance(tgt, dict) and tgt.get("k") == "var") or (is_acc and not (isinstance(src, dict) and src.get("k") == "var")):
        return problems + ["the element update does not go through simple pointers"]
    if "float" not in tgt.get("t", ""):
        problems.append("the target is not the float payload")
    walkers = [tgt] + ([src] if is_acc else [])
    rec = {"pre": [], "back": []}
    an = L.Analysis(prog)
    an.inline = False

    def entry(f_, h, s_):
        if f_ is f and h == head:
            for v in walkers:
                s_.cells["__0__" + v["n"]] = an.eval(f, v, s_)[0][0]
    an.on_loop_pre = lambda f_, h, s_: rec["pre"].append(s_.copy()) if (f_ is f and h == head) else None
    an.on_loop_entry = entry
    an.on_backedge = lambda f_, h, s_: rec["back"].append(s_.copy()) if (f_ is f and h == head) else None
    an.run(f, L.State())
    if not rec["pre"] or not rec["back"]:
        return problems + ["the loop body is never executed by the analysis"]
    starts = {}
    for s_ in rec["pre"]:
        for v, base in zip(walkers, ("%s->data" % accn, "%s->data" % inn)):
            val = s_.cells.get("%s:%s" % (f.name, v["n"]))
            want = s_.cells.get(base, L.lvar("ptr:" + base))
            starts[v["n"]] = val
            if val is None or not s_.entails_eq(L.lsub(val, want)):
                problems.append("the walk over %s does not start at its first element" % base)
    for s_ in rec["back"]:
        npx = npx_of(an, s_)
        for v in walkers:
            v0, v1 = s_.cells.get("__0__" + v["n"]), s_.cells.get("%s:%s" % (f.name, v["n"]))
            if v0 is None or v1 is None or not s_.entails_eq(L.lsub(v1, L.ladd(v0, L.lconst(1)))):
                problems.append("a pointer does not advance by one element per iteration")
        # some walker is bounded by start + npx
        bounded = False
        for v in walkers:
            v0, st0 = s_.cells.get("__0__" + v["n"]), starts.get(v["n"])
            if v0 is not None and st0 is not None and s_.entails_le(L.ladd(L.lsub(v0, L.ladd(st0, npx)), L.lconst(1))):
                bounded = True
        if not bounded:
            problems.append("the body runs for an element that is not below npx (out of bounds)")
    return sorted(set(problems))


def kernels(prog, res, rule="R-KERNEL"):
    """The per-pixel loops of accumulate / normalize visit exactly the pixels
    0 .. npx-1 (npx = shape.strides.planes of the accumulator) and apply one
    element update  x[i] += y[i]  /  x[i] *= factor  (or the same as a pointer
    walk) to each, with x the float payload of the accumulator and y the input
    payload read with the element type of the sample type that selected the
    loop.  Bounds by the linear domain's loop hooks."""
    for fname, op_want in (("accumulate", "+="), ("normalize", "*=")):
        f = prog.func(fname)
        res.touched(f)
        loops = paths.natural_loops(f)
        if not loops:
            raise AnalysisBroken("%s has no per-pixel loop" % fname)
        for head, body in loops:
            line = f.blocks[head].tline or f.line
            inst = "%s: loop at line %s visits pixels 0 .. npx-1" % (fname, line)
            problems = _kernel_loop(prog, f, head, body, op_want, fname == "accumulate")
            if problems:
                res.fail(rule, inst, "%s|%s|loop" % (rule, fname), "%s:%s" % (f.file, line),
                         "%s: %s: pixels are skipped, summed twice or accessed out of bounds, so the emitted frame is not the mean" % (fname, "; ".join(sorted(set(problems)))))
            else:
                res.oblige(rule, inst, True, "", "%s:%s" % (f.file, line))
    # element type per sample type: the loop reached for that type reads y with the matching element
    f = prog.func("accumulate")
    want_types = tables.enum_below_sentinel(prog, "SampleType") or []
    for name, val in want_types:
        want = ELEMENT_TYPE.get(name)
        if want is None:
            continue
        visited, vals, loops = _accumulate_for(prog, f, val)
        got = None
        for head, body in loops:
            for b_ in body:
                for st_ in f.blocks[b_].stmts:
                    for lv, op, rhs, w in ir.writes_of(st_):
                        if ir.strip(lv).get("k") not in ("idx", "deref") or not isinstance(rhs, dict):
                            continue
                        for y in ir.walk(rhs):
                            base = None
                            if isinstance(y, dict) and y.get("k") == "idx":
                                base = ir.strip(y["b"])
                            elif isinstance(y, dict) and y.get("k") == "deref":
                                base = ir.strip(y["e"])
                                while isinstance(base, dict) and base.get("k") in ("asg", "un") and "e" in base:
                                    base = ir.strip(base["e"])
                            if isinstance(base, dict) and base.get("k") == "var" and base.get("pd") and "float" not in base.get("t", ""):
                                t = base.get("t", "").replace("const", "").replace("*", "").strip()
                                got = CTYPE.get(t, t)
        inst = "accumulate: %s pixels are read with a %d-byte %s element" % (name, want[0], "signed" if want[1] else "unsigned")
        if got == want:
            res.oblige(rule, inst, True, "", f.loc())
        elif not loops:
            continue   # reported by T-EXH
        else:
            gshow = ("a %d-byte %s element" % (got[0], "signed" if got[1] else "unsigned")) if isinstance(got, tuple) else str(got)
            res.fail(rule, inst, "%s|accumulate|%s" % (rule, name), f.loc(),
                     "accumulate reads %s pixels as %s: every value of the mean is wrong" % (name, gshow))


def window_details(prog, res, f, rule="R-WINDOW"):
    """More of the window bookkeeping: the emission test is exactly
    'count has reached the window size'; a frame is counted only after it was
    accumulated; the accumulator frame is float, sized and zeroed over its whole
    payload; assert_consistent_shape demands dims and strides both equal."""
    from .. import linear as L
    from .. import congr
    # exact window test
    for b in f.blocks.values():
        c = b.cond_node()
        if c is None or not any(y.get("k") == "mem" and y.get("f") == "filter_window_frames" for y in ir.walk(c)):
            continue
        an = L.Analysis(prog)
        T, F = an.branch(f, c, L.State())
        ok = bool(T) and bool(F)
        for s_ in T + F:
            k = an.read(s_, "self->filter_window_frames")
            cnts = [v for kk, v in s_.cells.items() if kk != "self->filter_window_frames"]
            if len(cnts) != 1:
                ok = False
                continue
            cnt = cnts[0]
            if s_ in T and not s_.entails_le(L.lsub(k, cnt)):
                ok = False
            if s_ in F and not s_.entails_le(L.ladd(L.lsub(cnt, k), L.lconst(1))):
                ok = False
        inst = "%s: the window is complete exactly when the count reaches filter_window_frames" % f.name
        if ok:
            res.oblige(rule, inst, True, ir.render(c), "%s:%s" % (f.file, b.tline))
        else:
            res.fail(rule, inst, "R-WINDOW|%s|exact" % f.name, "%s:%s" % (f.file, b.tline),
                     "the window test %s does not fire exactly when the number of accumulated frames reaches the window size: windows of k+1 (or k-1) frames are averaged" % ir.render(c))
    # counted only after accumulated
    loops = paths.natural_loops(f)
    for b_, i_, s_ in f.all_stmts():
        for lv, op, rhs, w in ir.writes_of(s_):
            p_ = ir.ap(lv) or ""
            if ("frame_count" in p_ or p_.lstrip("*").startswith("frame_count")) and (op in ("++", "+=") or ir.is_const(rhs, 1)):
                loop = paths.innermost_loop(f, b_.id)
                heads = [h for h, body in loops if loop and body == loop]
                src = (heads[0], -1) if heads else "entry"
                ok, wit = paths.all_paths_pass(f, src, {(b_.id, i_)}, lambda q: any(c.get("fn") == "accumulate" for c in ir.calls_in(q)))
                inst = "%s: a frame is counted (line %s) only after it was accumulated" % (f.name, s_.get("line"))
                if ok:
                    res.oblige(rule, inst, True, "", f.loc(s_))
                else:
                    res.fail(rule, inst, "R-WINDOW|%s|count-without-sum" % f.name, f.loc(s_),
                             "the frame counter can advance for a frame that was not added to the accumulator: the mean divides by too many frames")
    # accumulator frame is float, zeroed over its payload
    for b_, i_, s_ in f.all_stmts():
        for c in ir.calls_in(s_):
            if c.get("fn") == "bytes_of_image":
                a0 = ir.strip(c["args"][0])
                if isinstance(a0, dict) and a0.get("k") == "addr" and ir.strip(a0["e"]).get("k") == "var" and "p" not in ir.strip(a0["e"]):
                    shp = ir.strip(a0["e"])["n"]

                    def sets_float(q, shp=shp):
                        return any(ir.ap(lv) == shp + ".type" and isinstance(ir.strip(rhs), dict) and str(ir.strip(rhs).get("e", "")).endswith("f32")
                                   for lv, op, rhs, w in ir.writes_of(q))
                    ok, wit = paths.all_paths_pass(f, "entry", {(b_.id, i_)}, sets_float)
                    inst = "%s: the accumulator frame is sized as a float image" % f.name
                    if ok:
                        res.oblige(rule, inst, True, "%s.type = SampleType_f32 before bytes_of_image(&%s)" % (shp, shp), f.loc(s_))
                    else:
                        res.fail(rule, inst, "R-WINDOW|%s|float" % f.name, f.loc(s_),
                                 "the accumulator frame is sized with the input's sample type instead of 32-bit float: the float sums overrun the mapped region")
    sizes = [ir.strip(c["args"][1]) for b_, i_, s_ in f.all_stmts() for c in ir.calls_in(s_) if c.get("fn") == "channel_write_map"]
    for b_, i_, s_ in f.all_stmts():
        for c in ir.calls_in(s_):
            if c.get("fn") == "memset" and any(y.get("k") == "mem" and y.get("f") == "data" for y in ir.walk(c["args"][0])):
                Lx = congr.inline_expr(prog, f, c["args"][2])
                ok = False
                L0 = ir.strip(Lx)
                for sz in sizes:
                    full = congr.inline_expr(prog, f, sz)
                    if isinstance(L0, dict) and L0.get("k") == "bin" and L0.get("op") == "-" and ir.render(L0["l"]) == ir.render(full) and \
                            ir.strip(L0["r"]).get("sizeof_r") == "VideoFrame":
                        ok = True
                if isinstance(L0, dict) and L0.get("k") == "call" and L0.get("fn") == "bytes_of_image":
                    ok = True
                inst = "%s: the accumulator's payload is zeroed over exactly the mapped size minus the header" % f.name
                if ok:
                    res.oblige(rule, inst, True, ir.render(c["args"][2]), f.loc(s_))
                else:
                    res.fail(rule, inst, "R-WINDOW|%s|zero-extent" % f.name, f.loc(s_),
                             "the accumulator is zeroed over %s bytes, which is not the mapped size minus sizeof(struct VideoFrame): part of the sum starts from stale bytes, or the memset runs past the mapped region" % ir.render(c["args"][2]))
    # assert_consistent_shape
    g = prog.func("assert_consistent_shape")
    res.touched(g)
    an = L.Analysis(prog)
    bad = None
    cmp_args = []
    for b_, i_, s_ in g.all_stmts():
        for c in ir.calls_in(s_):
            if c.get("fn") == "memcmp":
                cmp_args.append(" ".join(ir.render(a) for a in c["args"][:2]))
    for rv, s_ in an.run(g, L.State()):
        syms = [L.lvar(k + "#0") for k in ("call:memcmp",)] + [L.lvar("call:memcmp#1")]
        both = [("eq", syms[0]), ("eq", syms[1])]
        if rv is None or not L.is_const(rv):
            bad = "result not decided by the two comparisons"
        elif rv.get(L.ONE, 0) != 0:
            if not all(s_.entails_eq(x) for x in syms):
                bad = "answers 'consistent' although dims or strides differ"
        else:
            s2 = s_.copy()
            s2.cons += both
            if s2.feasible():
                bad = "answers 'inconsistent' for identical shapes"
    if not (any("dims" in a for a in cmp_args) and any("strides" in a for a in cmp_args)):
        bad = bad or "no longer compares both dims and strides"
    inst = "assert_consistent_shape: true exactly when dims and strides both agree"
    if bad:
        res.fail(rule, inst, "R-WINDOW|assert_consistent_shape", g.loc(),
                 "assert_consistent_shape %s: frames of another geometry are summed into the window (out of bounds), or every window is cut short" % bad)
    else:
        res.oblige(rule, inst, True, "", g.loc())


def commit_own(prog, res, f, rule="R-WINDOW"):
    """The filter commits (channel_write_unmap of its output) only a region it
    has mapped itself: every such call in process_data and in the worker is
    reached only through an edge on which the accumulator pointer - the
    object that receives the filter's channel_write_map result - is non-NULL.
    (The source writes into the same ring when averaging is off; committing
    without an own mapping would publish the source's half-written frame.)"""
    # the parameter of process_data that receives the mapping
    acc_p = None
    for b, i, st_ in f.all_stmts():
        if any(c.get("fn") == "channel_write_map" for c in ir.calls_in(st_)):
            for lv, op, rhs, w in ir.writes_of(st_):
                root, ch = ir.field_chain(lv)
                if lv.get("k") in ("deref", "idx") and isinstance(root, dict) and root.get("k") == "var" and "p" in root:
                    acc_p = root
    if acc_p is None:
        raise AnalysisBroken("%s: the parameter receiving the accumulator mapping was not found" % f.name)
    w = prog.func("video_filter_thread")
    k = [j for j, p in enumerate(f.params) if p["id"] == acc_p["id"]][0]
    objs = set()
    for b, i, st_ in w.all_stmts():
        for c in ir.calls_in(st_):
            if c.get("fn") == f.name and k < len(c["args"]):
                a = ir.strip(c["args"][k])
                if isinstance(a, dict) and a.get("k") == "addr":
                    objs.add(ir.ap(a["e"]))
    targets = [(f, {"*" + acc_p["n"], acc_p["n"] + "[0]"})] + ([(w, objs)] if len(objs) == 1 else [])
    for g, names in targets:
        def nonnull(cn, lab, blk, names=names, g=g):
            from .. import congr as _c
            c0 = ir.strip(_c.resolve_at(prog, g, (blk.id, blk.cond if blk.cond is not None else len(blk.stmts)), cn))
            neg = False
            while isinstance(c0, dict) and c0.get("k") == "un" and c0.get("op") == "!":
                neg = not neg
                c0 = ir.strip(c0["e"])
            if isinstance(c0, dict) and c0.get("k") == "bin" and c0.get("op") in ("!=", "==") and (ir.is_const(c0["r"], 0) or ir.is_const(c0["l"], 0)):
                x = c0["l"] if ir.is_const(c0["r"], 0) else c0["r"]
                if ir.ap(x) in names:
                    return (lab == "true") == ((c0["op"] == "!=") != neg)
                return False
            if ir.ap(c0) in names:
                return (lab == "true") != neg
            return False
        for b, i, st_ in g.all_stmts():
            if any(c.get("fn") == "channel_write_unmap" for c in ir.calls_in(st_)):
                maps = lambda q: any(c.get("fn") == "channel_write_map" for c in ir.calls_in(q))
                dom = paths.edge_dominated(g, (b.id, i), nonnull)[0]
                inst = "%s: the commit at line %s happens only with an own mapping" % (g.name, st_.get("line"))
                if dom:
                    res.oblige(rule, inst, True, "reached only where %s is non-NULL" % sorted(names)[0], g.loc(st_))
                else:
                    res.fail(rule, inst, "R-WINDOW|%s|commit-own" % g.name, g.loc(st_),
                             "%s can call channel_write_unmap on the output ring although the filter holds no mapping of its own (%s may be NULL): with averaging off the source writes into that ring, and its reserved, not yet filled frame is published"
                             % (g.name, sorted(names)[0]))


def pair_reader(prog, res, f, rule="PAIR"):
    opens = [(b.id, i, s) for b, i, s in f.all_stmts() if any(c.get("fn") == "channel_read_map" for c in ir.calls_in(s))]
    n = 0
    for bid, i, s in opens:
        c = [c for c in ir.calls_in(s) if c.get("fn") == "channel_read_map"][0]
        key = (ir.ap(c["args"][0]), ir.ap(c["args"][1]))

        def closes(ss, key=key):
            return any(cc.get("fn") == "channel_read_unmap" and (ir.ap(cc["args"][0]), ir.ap(cc["args"][1])) == key
                       for cc in ir.calls_in(ss))
        others = {(b2, i2) for b2, i2, s2 in opens if (b2, i2) != (bid, i)}
        closes_ip = paths.through_callees(prog, f, closes)
        eok = paths.tested_call_discharge(prog, f, closes)
        ok, w = paths.all_paths_pass(f, (bid, i), "exit", closes_ip, edge_ok=eok)
        ok2, w2 = paths.all_paths_pass(f, (bid, i), {(bid, i)} | others, closes_ip, edge_ok=eok)
        n += 1
        inst = "%s: channel_read_map%s -> channel_read_unmap" % (f.name, key)
        if ok and ok2:
            res.oblige(rule, inst, True, "on every path to the exit and before the next map", f.loc(s))
        else:
            res.fail(rule, inst, "%s|%s|%s" % (rule, f.name, key[1]), f.loc(s),
                     "%s can leave reader %s mapped (a path from channel_read_map reaches %s without channel_read_unmap): the next map of that reader discards everything up to the writer's head"
                     % (f.name, key[1], "the function exit" if not ok else "the next map"), {"path_blocks": w or w2})
    return n


def reset_handshake(prog, res, rule="R-RESET-HANDSHAKE"):
    """The request 'drop the open window' (filter.sig_accumulator_reset) is a handshake: whoever raises it
    waits for the filter's acknowledgement before going on, and the filter acknowledges when it clears it.
    A request that is raised and left behind (no wait) is served by whatever filter pass comes next - the
    first pass of the next acquisition, which then drops the window it has just opened: frames are skipped
    and every later window is shifted."""
    n = 0
    for f in prog.all_funcs():
        if not f.blocks:
            continue
        for b, i, s in f.all_stmts():
            for lv, op, rhs, w in ir.writes_of(s):
                if not (lv.get("k") == "mem" and lv.get("f") == "sig_accumulator_reset"):
                    continue
                res.touched(f)
                n += 1
                if op == "=" and ir.is_const(rhs, 0):
                    ok, w_ = paths.all_paths_pass(f, (b.id, i), "exit", lambda q: any(
                        c.get("fn") in ("event_notify_all",) and "accumulator_reset_event" in ir.render(c) for c in ir.calls_in(q)))
                    inst = "%s: clearing the reset request (line %s) is acknowledged on the reset event" % (f.name, s.get("line"))
                    if ok:
                        res.oblige(rule, inst, True, "", f.loc(s))
                    else:
                        res.fail(rule, inst, "%s|%s|ack" % (rule, f.name), f.loc(s),
                                 "%s clears sig_accumulator_reset without notifying accumulator_reset_event on every path: the requester waits for ever" % f.name)
                else:
                    ok, w_ = paths.all_paths_pass(f, (b.id, i), "exit", lambda q: any(
                        c.get("fn") == "event_wait" and "accumulator_reset_event" in ir.render(c) for c in ir.calls_in(q)))
                    inst = "%s: the reset request raised at line %s is awaited before the function goes on" % (f.name, s.get("line"))
                    if ok:
                        res.oblige(rule, inst, True, "event_wait(accumulator_reset_event) on every path", f.loc(s))
                    else:
                        res.fail(rule, inst, "%s|%s|raise" % (rule, f.name), f.loc(s),
                                 "%s raises filter.sig_accumulator_reset and can return without waiting for the filter's acknowledgement: the request stays pending, "
                                 "the next filter pass (the first of the next acquisition when no filter thread runs now) drops the window it has just opened - "
                                 "input frames are skipped and the following windows are shifted" % f.name)
    if n == 0:
        raise AnalysisBroken("no store to sig_accumulator_reset found")
    return n


def run(ctx, res):
    prog = ctx.program()
    res.extra["explanation"] = EXPLANATION
    res.assumptions += [
        "channel_write_map returns memory with indeterminate contents (channel_new zeroes the ring only once)",
        "float arithmetic is not modelled",
    ]
    f = prog.func("process_data")
    res.touched(f, prog.func("normalize"))
    init_rmw(prog, res, f)
    accumulate_exhaustive(prog, res)
    window_rules(prog, res, f)
    window_init(prog, res, f)
    res.guard(window_details, prog, res, f)
    res.guard(commit_own, prog, res, f)
    from .. import runtimerules as RR_
    res.guard(RR_.rule_drain_after_stop, prog, res, "video_filter_thread", {"process_data"}, passes=2)
    res.require_min("R-DRAIN", 1)
    res.guard(reset_handshake, prog, res)
    res.require_min("R-RESET-HANDSHAKE", 2)
    from .. import runtimerules as _RRe
    res.guard(_RRe.rule_register_early, prog, res)
    res.require_min("R-REGISTER-EARLY", 2)
    res.guard(kernels, prog, res)
    n = pair_reader(prog, res, f)
    from .. import runtimerules as RR
    res.guard(RR.rule_consume_file, prog, res, "process_data", "iterate")
    if n < 1:
        raise AnalysisBroken("process_data no longer maps its reader")
    res.require_min("O-INIT-RMW", 1)
    res.require_min("T-EXH", 5)
    res.require_min("R-WINDOW", 16)
    res.require_min("R-KERNEL", 9)
    res.require_min("PAIR", 1)
    from .. import runtimerules as _RR
    res.guard(_RR.rule_stop_chain, prog, res)
    res.require_min("R-STOP-CHAIN", 2)
    res.require_min("R-CONSUME", 1)
