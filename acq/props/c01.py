"""C01 — channel delivers every committed byte to each reader exactly once, in
order.  Decided clauses (DESIGN.md 4/C01): atomicity of every channel operation
(L-PAIR, L-GUARDED), 'empty means drained' (R-EMPTY-DRAINED, equality-domain
dataflow), reader registration under the lock, and dimension consistency of
the (cycle, position) cursors including the lexicographic order of cursor
comparison (R-DIM)."""
from .. import ir, paths
from .. import lockrules as LR
from ..locks import LockAnalysis, obj_key
from ..build import AnalysisBroken
from ..channelrules import (CHANNEL_FIELDS, channel_functions, rule_empty_drained,
                            rule_dimensions, rule_registration, rule_cursor_pair, rule_cursor_copy)

EXPLANATION = (
    "Static analysis of runtime/channel.c (and every other unit for field "
    "accesses) over clang CFGs. L-PAIR: every channel function returns with the "
    "lockset it was entered with, on all exits. L-GUARDED: the cursor fields of "
    "struct channel (frozen table: head, high, cycle, mapped, is_accepting_writes, "
    "holds.pos[], holds.cycles[], holds.n) are read and written only with the "
    "channel lock held, in every translation unit (constructor/destructor and "
    "one named advisory statistic exempt). R-EMPTY-DRAINED: a forward dataflow "
    "over an equality domain (classes of terms: the reader's hold position and "
    "cycle, the writer's head and cycle, the local byte count, constants) proves "
    "that at every return of channel_read_map with a zero byte count and no "
    "error status the reader's cursor equals the writer's. R-DIM: a "
    "units-of-measure inference seeded from the struct fields (position vs lap "
    "count) checks that cursors are only compared/assigned within their "
    "dimension and that every lexicographic cursor comparison decides on the lap "
    "count first. R-REGISTER: a reader is registered under the lock at the "
    "writer's current lap. The exact byte sequence over whole histories of "
    "calls (an induction over call sequences) is not decided; the per-call "
    "arithmetic is (R-LIN, below).")
EXPLANATION += (' R-LIN (linear-relations abstract interpretation of channel.c, Fourier-Motzkin entailment): cursor stores stay in [0, capacity] (inductive), non-empty slices are exactly [hold, head) or [hold, high) with the reader cursor recording end and lap, the overflow error only for an overrun reader, next-lap moves only at high, releases move the hold cursor by exactly the consumed bytes, registration/map/unmap address one valid slot, the mapped/unmapped state follows map/unmap, cursor_cmp is lexicographic, reader_min is the running minimum over all readers. R-CURSOR-COPY: lap and position are copied together.')



EXPLANATION += (' R-INDUCT (channelinduct.py): an inductive invariant with the lap counters as integers of the linear domain - every hold cursor is in the writer\'s lap at or below head, or one lap behind with the pending write [head, mapped) below it; a mapped reader\'s target cursor bounds committed, unconsumed bytes starting at its hold - is assumed at the entry of each of the six channel operations (one abstract entry state per disjunct, a symbolic reader J, a second symbolic reader K for frames, reader_min replaced by its specification, the wait re-establishing the invariant, the wrap-everybody loop summarised from its back edge) and proved at every return, together with a frame condition per operation (accept_writes changes only the flag, abort only mapped, write_unmap only head, reader operations only the calling reader\'s slot and object).')


def run(ctx, res):
    prog = ctx.program()
    la = LockAnalysis(prog)
    res.extra["explanation"] = EXPLANATION
    res.assumptions += [
        "lock/field identity by (record, field path); channel_new / channel_release run with no concurrent user",
        "video_sink_bytes_waiting is an advisory statistic outside every property (reads cursors unlocked)",
    ]
    fns = channel_functions(prog)
    res.guard(LR.rule_l_pair, la, res, fns)
    n = LR.rule_l_guarded(la, res, ("channel", "lock"), CHANNEL_FIELDS,
                          exempt_fns={"video_sink_bytes_waiting": "advisory statistic, read-only, outside every property"})
    res.guard(rule_empty_drained, prog, res)
    res.guard(rule_registration, prog, la, res)
    res.guard(rule_dimensions, prog, res)
    res.guard(rule_cursor_pair, prog, res, la)
    res.guard(rule_cursor_copy, prog, res, la)
    from ..channelarith import rule_linear
    res.guard(rule_linear, prog, res)
    res.require_min("R-LIN", 15)
    # the inductive cursor invariant, laps included (channelinduct.py)
    from ..channelinduct import rule_induct
    res.guard(rule_induct, prog, res, with_mapped=True)
    res.require_min("R-INDUCT", 12)
    res.require_min("R-CURSOR-PAIR", 3)
    res.require_min("L-PAIR", 10)
    res.require_min("L-GUARDED", 40)
    res.require_min("R-EMPTY-DRAINED", 2)
    res.require_min("R-DIM", 10)
