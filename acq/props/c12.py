"""C12 — device selection agrees with enumeration; bad input gives errors, not
crashes (DESIGN.md 4/C12)."""
import re
from .. import ir, paths, tables
from ..exc import rule_x_barrier
from ..build import AnalysisBroken

EXPLANATION = (
    "Static analysis. (1) Exception-barrier rule over the lexical try/throw "
    "structure of device.manager.cpp: nothrow summaries as a greatest fixpoint; "
    "every function with C linkage (and every destructor / noexcept function) "
    "must enclose each potentially throwing site (throw, std::regex "
    "construction, regex_match, vector::at, failed CHECKs) in a catch(...) "
    "barrier, so malformed patterns and out-of-range indices become error codes. "
    "(2) Matching semantics by resolved callee and folded constants: whole-string "
    "regex_match (never regex_search) with the icase flag, empty pattern "
    "short-circuits to 'any', kind test and forward first-hit return; externally "
    "indexed containers only through at(). (3) The identifier's driver_id is the "
    "driver's slot index: the counter advances on every iteration of the driver "
    "loop, also for absent libraries. (4) Sibling tables of the common driver "
    "(describe table, open switch, close switch, constructor table, device "
    "count) partition BasicDeviceKind identically and completely. (5) Every "
    "failure exit of driver_load releases the library and the loader object. "
    "Regex semantics over all byte strings is library behaviour and not decided.")
EXPLANATION += (' R-BOUNDED (array sizes, literal lengths), R-INDEX (constructor and name tables), name-input guard, cache-order clause of R-SELECT.')



def select_semantics(prog, res):
    f = prog.func("(anonymous namespace)::DeviceManagerV0::select", required=False) or prog.func("DeviceManagerV0::select")
    res.touched(f)
    R = "R-SELECT"
    calls = [(b, i, s, c) for b, i, s in f.all_stmts() for c in ir.calls_in(s)]
    names = [c.get("fn") or "" for _, _, _, c in calls]
    # (a) whole-string match
    rm = [(b, i, s, c) for b, i, s, c in calls if (c.get("fn") or "").startswith("std::regex_match")]
    rs = [n for n in names if n.startswith("std::regex_search")]
    if rm and not rs:
        res.oblige(R, "whole-name match: std::regex_match", True, "%d call(s), no regex_search" % len(rm), f.loc(rm[0][2]))
    else:
        res.fail(R, "whole-name match: std::regex_match", "R-SELECT|regex_match", f.loc(),
                 "select does not use std::regex_match for the name (%s): a pattern matching part of a name would select the device"
                 % (rs or "no regex_match call"))
    # subject of the match is the identifier's name
    from .. import congr as _congr

    def resolve_local(bid, i, n, depth=0):
        n0 = ir.strip(n)
        if isinstance(n0, dict) and n0.get("k") == "var" and "p" not in n0 and depth < 4:
            d = _congr.reaching_def(f, (bid, i), n0["id"])
            if d is not None:
                return resolve_local(bid, i, d, depth + 1)
        return n0
    for b, i, s, c in rm:
        subj = c["args"][0] if c.get("args") else None
        subj = resolve_local(b.id, i, subj)
        flds = [y["f"] for y in ir.walk(subj) if y.get("k") == "mem"]
        ok = "name" in flds
        (res.oblige(R, "match subject is the enumerated name", True, ir.render(subj), f.loc(s)) if ok else
         res.fail(R, "match subject is the enumerated name", "R-SELECT|subject", f.loc(s),
                  "regex_match is applied to %s, not to the device name" % ir.render(subj)))
    # (a') nothing but regex_match compares the enumerated name
    OKAY = ("std::regex_match", "std::char_traits", "aq_logger", "strlen", "strnlen", "snprintf")
    for b, i, s, c in calls:
        fn = c.get("fn") or ""
        if fn.startswith(OKAY) or not c.get("args"):
            continue
        takes_name = False
        for a in c["args"]:
            a0 = resolve_local(b.id, i, a)
            if any(isinstance(y, dict) and y.get("k") == "mem" and y.get("f") == "name" and
                   any(isinstance(z, dict) and z.get("k") == "mem" and z.get("f") in ("identifier_", "identifier") for z in ir.walk(y))
                   for y in ir.walk(a0)):
                takes_name = True
        if takes_name:
            res.fail(R, "only regex_match compares the enumerated name", "R-SELECT|other-matcher|%s" % fn.split("<")[0], f.loc(s),
                     "select hands the enumerated device name to %s: a comparison other than std::regex_match over the whole name takes part in the selection "
                     "(a prefix / substring / case-sensitive test selects devices the pattern does not match, or rejects ones it matches)" % fn.split("<")[0])
    # (b) icase
    def from_name(c):
        prm = [p for p in f.params if "string" in p.get("t", "") or p.get("n") == "name"]
        ids = {p["id"] for p in prm}
        return any(y.get("k") == "var" and y.get("id") in ids for a in c.get("args", []) for y in ir.walk(a))
    ctor = [(b, i, s, c) for b, i, s, c in calls
            if ((c.get("fn") or "").startswith("std::basic_regex<char>::basic_regex") or (c.get("fn") or "").startswith("std::basic_regex<char>::assign"))
            and from_name(c)]
    # the compilation may live in a helper of this file that receives the
    # pattern: the call to the helper is then the compilation point in select,
    # and the helper's constructor call carries the flags
    flag_of = {}
    if not ctor:
        def is_rx(fn):
            return fn.startswith("std::basic_regex<char>::basic_regex") or fn.startswith("std::basic_regex<char>::assign")
        for b, i, s, c in calls:
            g = prog.func(c.get("fn") or "", required=False) if c.get("fn") else None
            if g is None or g is f or not from_name(c) or g.file != f.file:
                continue
            gids = {p_["id"] for p_ in g.params if "string" in p_.get("t", "") or "char" in p_.get("t", "")}
            for gb, gi, gs in g.all_stmts():
                for gc in ir.calls_in(gs):
                    if is_rx(gc.get("fn") or "") and any(y.get("k") == "var" and y.get("id") in gids for a in gc.get("args", []) for y in ir.walk(a)):
                        ctor.append((b, i, s, c))
                        flag_of[id(c)] = (g, gs, gc)
    if not ctor:
        res.fail(R, "regex built with icase", "R-SELECT|no-regex", f.loc(), "select no longer compiles a std::regex from the pattern")
    # a remembered pattern (cache key) is stored only after the pattern it names
    # was compiled: otherwise a pattern whose compilation throws is remembered
    # as compiled, and the next identical request is answered with the
    # previous, valid regex instead of an error
    prm_ids = {p["id"] for p in f.params if "string" in p.get("t", "") or p.get("n") == "name"}
    keys = set()
    for b, i, s in f.all_stmts():
        for c in ir.calls_in(s):
            fn = c.get("fn") or ""
            if ("operator!=" in fn or "operator==" in fn or fn.endswith("::compare")) and len(c.get("args", [])) >= 2:
                a0, a1 = c["args"][0], c["args"][1]
                for x, y in ((a0, a1), (a1, a0)):
                    if any(z.get("k") == "var" and z.get("id") in prm_ids for z in ir.walk(x)):
                        k_ = [z for z in ir.walk(y) if z.get("k") == "mem" and ir.strip(z.get("b") or {}).get("k") == "this"]
                        if k_:
                            keys.add(k_[0]["f"])
    for key in sorted(keys):
        stores = [(b.id, i) for b, i, s in f.all_stmts() for c in ir.calls_in(s)
                  if (c.get("fn") or "").endswith("operator=") and c.get("args") and
                  any(z.get("k") == "mem" and z.get("f") == key for z in ir.walk(c["args"][0]))]
        stores += [(b.id, i) for b, i, s in f.all_stmts() for lv, op, rhs, w in ir.writes_of(s) if lv.get("k") == "mem" and lv.get("f") == key]
        cpos = {(b.id, i) for b, i, s, c in ctor}
        ok = bool(stores) and all(paths.all_paths_pass(f, "entry", {p_}, lambda q: any(id(c_) == id(c) for (_, _, _, c) in ctor for c_ in ir.calls_in(q)))[0] for p_ in stores)
        inst = "the remembered pattern '%s' is updated only after it was compiled" % key
        if ok:
            res.oblige(R, inst, True, "", f.loc())
        else:
            res.fail(R, inst, "R-SELECT|cache-order|%s" % key, f.loc(),
                     "select stores the requested pattern in '%s' before compiling it: if the pattern is malformed the compilation throws (error status), but the next "
                     "identical request finds it remembered, skips the compilation and matches with the previously compiled regex - a malformed pattern selects a device" % key)
    for b, i, s, c in ctor:
        if id(c) in flag_of:
            g_, s, c = flag_of[id(c)]
            floc = g_.loc(s)
        else:
            floc = f.loc(s)
        flags = [a for a in c.get("args", []) if isinstance(a, dict) and a.get("k") == "int"]
        nm = set()
        for a in flags:
            nm |= set(a.get("names", []))
            if a.get("e"):
                nm.add(a["e"])
        ok = "icase" in nm
        if ok:
            res.oblige(R, "regex built with icase", True, "flags %s" % sorted(nm), floc)
        else:
            res.fail(R, "regex built with icase", "R-SELECT|icase", floc,
                     "the pattern is compiled without std::regex_constants::icase (flags: %s): matching is case-sensitive" % sorted(nm))
    # (c) empty pattern short-circuit: regex_match only on the false edge of empty()
    for b, i, s, c in rm:
        def empty_false(cn, lab, blk):
            from .. import congr
            cc = ir.strip(congr.resolve_at(prog, f, (blk.id, blk.cond if blk.cond is not None else len(blk.stmts)), cn))
            neg = False
            while isinstance(cc, dict) and cc.get("k") == "un" and cc.get("op") == "!":
                neg = not neg
                cc = ir.strip(cc["e"])
            return isinstance(cc, dict) and cc.get("k") == "call" and (cc.get("fn") or "").endswith("::empty") and \
                lab == ("true" if neg else "false")
        dom, _ = paths.edge_dominated(f, (b.id, i), empty_false)
        if dom:
            res.oblige(R, "empty pattern selects any device", True, "regex_match evaluated only when !name.empty()", f.loc(s))
        else:
            res.fail(R, "empty pattern selects any device", "R-SELECT|empty", f.loc(s),
                     "the empty pattern is not short-circuited before regex_match")
        # (e) kind test dominates
        def kind_true(cn, lab, blk):
            cc = ir.strip(cn)
            if isinstance(cc, dict) and cc.get("k") == "bin" and cc.get("op") == "==" and lab == "true":
                return any(y.get("k") == "mem" and y["f"] == "kind" for y in ir.walk(cc))
            return False
        dom, _ = paths.edge_dominated(f, (b.id, i), kind_true)
        if dom:
            res.oblige(R, "kind filter precedes the name match", True, "", f.loc(s))
        else:
            res.fail(R, "kind filter precedes the name match", "R-SELECT|kind", f.loc(s),
                     "a device can be selected without its kind having been compared with the requested kind")
    # (d) first hit returns from inside the loop, iteration is begin()..end() forward
    rets = [(b, i, s) for b, i, s in f.all_stmts() if s.get("k") == "ret" and not ir.is_const(s.get("e"), 0)]
    loops = paths.natural_loops(f)
    preds = f.preds()
    inloop = [r for r in rets if any(r[0].id in body or any(p in body for p in preds.get(r[0].id, []))
                                     for h, body in loops)]
    fwd = any((c.get("fn") or "").endswith("::begin") for _, _, _, c in calls) and \
        not any((c.get("fn") or "").endswith(("::rbegin", "::crbegin")) for _, _, _, c in calls)
    if inloop and fwd:
        res.oblige(R, "first enumerated hit wins", True, "forward iteration, return inside the loop", f.loc(inloop[0][2]))
    else:
        res.fail(R, "first enumerated hit wins", "R-SELECT|first", f.loc(),
                 "select does not return the first matching identifier in enumeration order")
    # (f) externally indexed containers through at()
    bad = []
    for g in prog.all_funcs():
        if not g.file.endswith("device.manager.cpp"):
            continue
        for b, i, s in g.all_stmts():
            for c in ir.calls_in(s):
                if (c.get("fn") or "").startswith("std::vector<") and (c.get("fn") or "").endswith("::operator[]"):
                    # only an index that comes from outside (a parameter or a
                    # field of one) needs the checked accessor; a loop counter
                    # bounded by size() does not
                    idx = c["args"][-1] if c.get("args") else None
                    external = any((y.get("k") == "var" and "p" in y) for y in ir.walk(idx))
                    if external:
                        bad.append((g, s))
    if not bad:
        res.oblige(R, "containers indexed through at()", True, "no operator[] with an externally supplied index in device.manager.cpp", f.file)
    for g, s in bad:
        res.fail(R, "containers indexed through at()", "R-SELECT|operator[]|%s" % g.name, g.loc(s),
                 "%s indexes a vector with operator[]: an out-of-range index is undefined behaviour instead of an error" % g.name)


def slot_index(prog, res):
    f = prog.func("(anonymous namespace)::DeviceManagerV0::init", required=False) or prog.func("DeviceManagerV0::init")
    res.touched(f)
    R = "R-SLOT-INDEX"
    stores = []
    for b, i, s in f.all_stmts():
        for lv, op, rhs, whole in ir.writes_of(s):
            if lv.get("k") == "mem" and lv["f"] == "driver_id" and ir.strip(rhs).get("k") == "var":
                stores.append((b.id, i, s, ir.strip(rhs)))
    if not stores:
        raise AnalysisBroken("init no longer stores driver_id from a counter")
    for bid, i, s, v in stores:
        loops = [(h, body) for h, body in paths.natural_loops(f) if bid in body]
        if not loops:
            raise AnalysisBroken("driver_id store is not inside the driver loop")
        h, body = max(loops, key=lambda x: len(x[1]))

        def incr(ss, v=v):
            for lv, op, rhs, whole in ir.writes_of(ss):
                if lv.get("k") == "var" and lv["id"] == v["id"] and op in ("++", "+="):
                    return True
            return False
        ok = True
        wit = None
        for t in [b for b in body if h in f.blocks[b].succ_ids()]:
            seen = set()
            st = [(x, [h, x]) for x in f.blocks[h].succ_ids() if x in body]
            while st:
                b, path = st.pop()
                if b in seen:
                    continue
                seen.add(b)
                if any(incr(x) for x in f.blocks[b].stmts):
                    continue
                if b == t:
                    ok, wit = False, path
                    break
                for x in f.blocks[b].succ_ids():
                    if x in body and x != h:
                        st.append((x, path + [x]))
            if not ok:
                break
        inst = "driver_id counter '%s' advances once per driver slot" % v["n"]
        if ok:
            res.oblige(R, inst, True, "every iteration of the loop over drivers_ increments it", f.loc(s))
        else:
            res.fail(R, inst, "R-SLOT-INDEX|%s" % v["n"], f.loc(s),
                     "an iteration of the driver loop (an absent library) can skip the increment of '%s': driver_id no longer equals the index get_driver() uses into drivers_" % v["n"],
                     {"path_blocks": wit})
    # get_driver indexes drivers_ with identifier->driver_id
    g = prog.func("(anonymous namespace)::DeviceManagerV0::get_driver", required=False) or prog.func("DeviceManagerV0::get_driver")
    res.touched(g)
    ok = False
    for b, i, s in g.all_stmts():
        for c in ir.calls_in(s):
            if (c.get("fn") or "").endswith("::at"):
                if any(y.get("k") == "mem" and y["f"] == "driver_id" for a in c.get("args", []) for y in ir.walk(a)):
                    ok = True
    if ok:
        res.oblige(R, "get_driver: drivers_.at(identifier->driver_id)", True, "", g.loc())
    else:
        res.fail(R, "get_driver: drivers_.at(identifier->driver_id)", "R-SLOT-INDEX|get_driver", g.loc(),
                 "get_driver does not index drivers_ with the identifier's driver_id through at()")


def basics_tables(prog, res):
    R = "T-SIB"
    want = tables.enum_below_sentinel(prog, "BasicDeviceKind")
    if not want:
        raise AnalysisBroken("enum BasicDeviceKind vanished")
    kinds = dict(prog.enum_values("DeviceKind"))
    desc = prog.func("basic_device_describe")
    opn = prog.func("basic_device_open")
    cls = prog.func("basic_device_close")
    mk = prog.func("basics_make_storage")
    cnt = prog.func("basic_device_count")
    res.touched(desc, opn, cls, mk, cnt)
    # describe table
    t = tables.array_tables(desc)
    if len(t) != 1:
        raise AnalysisBroken("describe table not found")
    tab = list(t.values())[0]
    dkind = {}
    for name, val in want:
        inst = "describe[%s]" % name
        e = tab["entries"].get(val)
        if e is None or e.get("k") != "init":
            res.fail(R, inst, "T-SIB|describe|%s" % name, desc.loc(),
                     "the describe table has no entry for %s: enumerating it yields an empty identifier" % name)
            continue
        flds = {x["f"]: x["v"] for x in e.get("elts", []) if "f" in x}
        did = ir.strip(flds.get("device_id"))
        knd = ir.strip(flds.get("kind"))
        nm = ir.strip(flds.get("name"))
        probs = []
        if not (ir.is_const(did) and did["v"] == val):
            probs.append("device_id is %s" % ir.render(did))
        if not (ir.is_const(knd) and knd["v"] in (kinds["DeviceKind_Camera"], kinds["DeviceKind_Storage"])):
            probs.append("kind is %s" % ir.render(knd))
        else:
            dkind[val] = knd["v"]
        if not (isinstance(nm, dict) and nm.get("k") == "str" and nm["len"] > 1):
            probs.append("name is empty")
        if probs:
            res.fail(R, inst, "T-SIB|describe|%s" % name, desc.loc(), "describe table entry for %s: %s" % (name, "; ".join(probs)))
        else:
            res.oblige(R, inst, True, "device_id=%d kind=%s name=\"%s\"" % (val, knd.get("e"), nm["v"]), desc.loc())
    # open / close partitions
    groups = {}
    for fn, callees in ((opn, {"simcam_make_camera": "Camera", "basics_make_storage": "Storage"}),
                        (cls, {"simcam_close_camera": "Camera", "->destroy": "Storage"})):
        sws = tables.switches(fn)
        if len(sws) != 1:
            raise AnalysisBroken("%s: expected exactly one switch" % fn.name)
        sw = sws[0]
        for name, val in want:
            inst = "%s handles %s" % (fn.name, name)
            if val not in sw["cases"]:
                res.fail(R, inst, "T-SIB|%s|%s" % (fn.name, name), "%s:%s" % (fn.file, sw["line"]),
                         "%s has no case for %s" % (fn.name, name))
                continue
            got = tables.first_calls_from(prog, fn, sw["targets"][val], set(callees))
            ks = {callees[g] for g in got}
            groups[(fn.name, val)] = ks
            exp = "Camera" if dkind.get(val) == kinds["DeviceKind_Camera"] else "Storage"
            if ks == {exp}:
                res.oblige(R, inst, True, "routes to the %s implementation (%s)" % (exp, sorted(got)), "%s:%s" % (fn.file, sw["line"]))
            else:
                res.fail(R, inst, "T-SIB|%s|%s" % (fn.name, name), "%s:%s" % (fn.file, sw["line"]),
                         "%s treats %s as %s but describe says it is a %s" % (fn.name, name, sorted(ks) or "nothing", exp))
    # constructor table covers exactly the storage kinds
    t = tables.array_tables(mk)
    impl = [v for k, v in t.items() if v["kind"] == "init"]
    if len(impl) != 1:
        raise AnalysisBroken("constructor table of basics_make_storage not found")
    impl = impl[0]
    for name, val in want:
        is_storage = dkind.get(val) == kinds["DeviceKind_Storage"]
        has = val in impl["entries"] and ir.strip(impl["entries"][val]).get("k") in ("fn", "addr")
        inst = "constructors[%s]" % name
        if is_storage == has:
            res.oblige(R, inst, True, "constructor present" if has else "no constructor (camera kind)", mk.loc())
        else:
            res.fail(R, inst, "T-SIB|constructors|%s" % name, mk.loc(),
                     "storage kind %s has no constructor in basics_make_storage" % name if is_storage else
                     "camera kind %s has a storage constructor" % name)
    sentinel = [v for n, v in prog.enum_values("BasicDeviceKind") if n.endswith("Count")]
    if impl["size"] is not None and sentinel and impl["size"] != sentinel[0]:
        res.fail(R, "constructor table size", "T-SIB|constructors|size", mk.loc(),
                 "the constructor table has %d slots but %d device kinds are copied out of it (memcpy reads past the array)" % (impl["size"], sentinel[0]))
    else:
        res.oblige(R, "constructor table size", True, "%s slots = BasicDeviceKindCount" % impl["size"], mk.loc())
    rets = [s for b, i, s in cnt.all_stmts() if s.get("k") == "ret"]
    ok = rets and all(ir.is_const(r.get("e")) and ir.strip(r["e"])["v"] == sentinel[0] for r in rets)
    if ok:
        res.oblige(R, "device_count == BasicDeviceKindCount", True, "", cnt.loc())
    else:
        res.fail(R, "device_count == BasicDeviceKindCount", "T-SIB|count", cnt.loc(),
                 "basic_device_count does not return the number of device kinds")


def rule_range_reject(prog, res, rule="R-RANGE-REJECT"):
    """'Out-of-range indices produce an error status': in the driver's describe /
    open entry points every return of Device_Ok entails 0 <= index < number of
    device kinds for the index AS RECEIVED (64 bits).  Linear domain with
    narrowing conversions modelled: a copy of the index in a narrower type is an
    unknown unless the value was already proven to fit, so a range test (or a
    switch) on the narrowed copy says nothing about the parameter."""
    from .. import linear as L
    sentinel = [v for n, v in (prog.enum_values("BasicDeviceKind") or []) if n.endswith("Count")]
    ok_v = dict(prog.enum_values("DeviceStatusCode") or []).get("Device_Ok", 0)
    if not sentinel:
        raise AnalysisBroken("enum BasicDeviceKind has no ...Count sentinel")
    count = sentinel[0]
    n = 0
    for fname in ("basic_device_describe", "basic_device_open"):
        f = prog.func(fname)
        res.touched(f)
        idx = [p_ for p_ in f.params if not p_.get("pd") and not p_.get("r") and ("long" in p_.get("t", "") or "int" in p_.get("t", ""))]
        if len(idx) != 1:
            raise AnalysisBroken("%s: expected one integer index parameter" % fname)
        an = L.Analysis(prog)
        an.model_narrowing = True
        st = L.State()
        key = "%s:%s" % (fname, idx[0]["n"])
        sym = L.lvar("index")
        st.cells[key] = sym
        st.cons.append(("le", L.lscale(sym, -1)))
        rets = an.run(f, st)
        oks = bad = 0
        for rv, s_ in rets:
            if rv is None:
                continue
            if not s_.copy().feasible():
                continue
            may_ok = True
            if L.is_const(rv):
                may_ok = rv.get(L.ONE, 0) == ok_v
            else:
                s2 = s_.copy()
                s2.cons.append(("eq", L.lsub(rv, L.lconst(ok_v))))
                may_ok = s2.feasible()
            if not may_ok:
                continue
            oks += 1
            if not s_.entails_le(L.ladd(L.lsub(sym, L.lconst(count)), L.lconst(1))):
                bad += 1
        n += 1
        inst = "%s: Device_Ok only for 0 <= %s < %d" % (fname, idx[0]["n"], count)
        if oks == 0:
            raise AnalysisBroken("%s never returns Device_Ok in the analysis" % fname)
        if bad:
            res.fail(rule, inst, "%s|%s" % (rule, fname), f.loc(),
                     "%s can return Device_Ok although its index parameter %s (as received, 64 bits) is not known to be below %d: "
                     "the range test / dispatch works on a narrowed copy, so an out-of-range index whose low bits are in range selects a device instead of producing an error"
                     % (fname, idx[0]["n"], count))
        else:
            res.oblige(rule, inst, True, "%d successful return state(s)" % oks, f.loc())
    return n


def format_taint(prog, res, rule="R-FMT-TAINT"):
    """The catch handlers of device.manager.cpp hand e.what() to the logger as the printf FORMAT.  That is
    harmless as long as no exception text carries caller-controlled bytes.  Taint rule: where such a sink
    exists in the translation unit, no `throw` in it builds its message from a string-typed parameter of
    the function that throws (the selection pattern, an identifier name handed in by the caller) - directly,
    through operator+, or through a local derived from it.  ('%s' / '%n' in a malformed pattern would be
    interpreted by vsnprintf: a crash instead of an error status.)"""
    sinks = []
    throws = []
    for g in prog.all_funcs():
        if not g.file.endswith("device.manager.cpp") or not g.blocks:
            continue
        for b, i, s_ in g.all_stmts():
            for c in ir.calls_in(s_):
                if c.get("fn") == "aq_logger" and len(c.get("args", [])) >= 5:
                    fmt = ir.strip(c["args"][4])
                    if not (isinstance(fmt, dict) and fmt.get("k") == "str"):
                        sinks.append((g, s_, fmt))
            for y in ir.walk(s_):
                if isinstance(y, dict) and y.get("k") == "throw" and isinstance(y.get("e"), dict):
                    throws.append((g, b.id, i, s_, y))
    inst = "device.manager.cpp: no caller-controlled text reaches a printf format through an exception message"
    if not sinks:
        res.oblige(rule, inst, True, "no handler passes a computed string as the format", "acquire-core-libs/src/acquire-device-hal/device/hal/device.manager.cpp")
        return 0
    bad = []
    for g, bid, i, s_, th in throws:
        sparams = {p_["id"] for p_ in g.params if "basic_string" in p_.get("t", "") or ("char" in p_.get("t", "") and p_.get("pd"))}
        if not sparams:
            continue
        derived = set(sparams)
        changed = True
        while changed:
            changed = False
            for b2, i2, s2 in g.all_stmts():
                if s2.get("k") == "decl" and isinstance(s2.get("init"), dict) and s2["var"]["id"] not in derived and \
                        any(isinstance(z, dict) and z.get("k") == "var" and z.get("id") in derived for z in ir.walk(s2["init"])):
                    derived.add(s2["var"]["id"])
                    changed = True
                for lv, op, rhs, w in ir.writes_of(s2):
                    if lv.get("k") == "var" and lv["id"] not in derived and isinstance(rhs, dict) and \
                            any(isinstance(z, dict) and z.get("k") == "var" and z.get("id") in derived for z in ir.walk(rhs)):
                        derived.add(lv["id"])
                        changed = True
                # snprintf(buf, n, fmt, tainted...) taints buf
                for c in ir.calls_in(s2):
                    if c.get("fn") in ("snprintf", "sprintf", "strncpy", "strcpy", "memcpy") and c.get("args"):
                        dst = ir.strip(c["args"][0])
                        if isinstance(dst, dict) and dst.get("k") == "var" and dst["id"] not in derived and \
                                any(isinstance(z, dict) and z.get("k") == "var" and z.get("id") in derived for a in c["args"][1:] for z in ir.walk(a)):
                            derived.add(dst["id"])
                            changed = True
        if any(isinstance(z, dict) and z.get("k") == "var" and z.get("id") in derived for z in ir.walk(th["e"])):
            bad.append((g, s_))
    if bad:
        g, s_ = bad[0]
        res.fail(rule, inst, "%s|%s" % (rule, g.name.split("::")[-1]), g.loc(s_),
                 "%s throws an exception whose message is built from its string parameter, and the handlers of this file pass e.what() to the logger as the printf format (%d such site(s)): "
                 "'%%s' / '%%n' in the caller's text is interpreted by vsnprintf - a crash instead of an error status" % (g.name.split("::")[-1], len(sinks)))
    else:
        res.oblige(rule, inst, True, "%d handler(s) use e.what() as the format; %d throw site(s), none carries a string parameter" % (len(sinks), len(throws)),
                   "acquire-core-libs/src/acquire-device-hal/device/hal/device.manager.cpp")
    return 1


def loader_cleanup(prog, res):
    f = prog.func("driver_load")
    res.touched(f)
    R = "R-LOAD-CLEANUP"
    allocs = [(b, i, s) for b, i, s in paths.calls_to(prog, f, {"malloc"})]
    if not allocs:
        raise AnalysisBroken("driver_load no longer allocates the loader")
    ab, ai, astmt = allocs[0]
    var = None
    for lv, op, rhs, whole in ir.writes_of(astmt):
        if lv.get("k") == "var":
            var = lv
    fails = [(b.id, i) for b, i, s in f.all_stmts() if s.get("k") == "ret" and ir.is_const(s.get("e"), 0)]
    if not fails or var is None:
        raise AnalysisBroken("driver_load: failure returns not found")

    def null_edge(blk, succ):
        c = ir.strip(blk.cond_node())
        lab = succ.get("label")
        neg = False
        while isinstance(c, dict) and c.get("k") == "un" and c.get("op") == "!":
            neg = not neg
            c = ir.strip(c["e"])
        if isinstance(c, dict) and c.get("k") == "var" and c["id"] == var["id"]:
            return lab == ("true" if neg else "false")
        return False
    for callee in ("free", "lib_close"):
        def rel(s, callee=callee):
            return any(c.get("fn") == callee for c in ir.calls_in(s))
        # lib_close is only required once the library may have been opened
        src = (ab, ai)
        ok, w = paths.all_paths_pass(f, src, set(fails), rel, edge_ok=null_edge)
        inst = "driver_load: every failure exit calls %s" % callee
        if ok:
            res.oblige(R, inst, True, "all paths from the allocation to 'return 0' (allocation failure excepted)", f.loc())
        else:
            res.fail(R, inst, "R-LOAD-CLEANUP|%s" % callee, f.loc(),
                     "driver_load can return 0 for an absent or broken library without calling %s" % callee, {"path_blocks": w})
    # null slots: enumeration and get_driver tolerate absent drivers
    g = prog.func("driver_open_device")
    res.touched(g)

    def drv_nonnull(c, lab, blk):
        cc = ir.strip(c)
        neg = False
        while isinstance(cc, dict) and cc.get("k") == "un" and cc.get("op") == "!":
            neg = not neg
            cc = ir.strip(cc["e"])
        return isinstance(cc, dict) and cc.get("k") == "var" and cc.get("n") == "driver" and lab == ("false" if neg else "true")
    uses = [(b.id, i) for b, i, s in g.all_stmts() for y in ir.walk(s)
            if y.get("k") == "mem" and y.get("arrow") and ir.strip(y["b"]).get("k") == "var" and ir.strip(y["b"]).get("n") == "driver"]
    bad = [u for u in uses if not paths.edge_dominated(g, u, drv_nonnull)[0]]
    if uses and not bad:
        res.oblige(R, "driver_open_device: driver tested before use", True, "%d dereference(s) guarded" % len(uses), g.loc())
    else:
        res.fail(R, "driver_open_device: driver tested before use", "R-LOAD-CLEANUP|null-driver", g.loc(),
                 "driver_open_device dereferences the driver of an absent library without a null test")


def bounded_and_literals(prog, res, rule="R-BOUNDED"):
    """In device.manager.cpp: a size handed together with a local character
    array to a formatting / copying function does not exceed the array (folded
    constants), and a (string literal, length) pair passes the literal's own
    length (without the terminator)."""
    n = 0
    for f in prog.all_funcs():
        if not f.file.endswith("device.manager.cpp") or not f.blocks:
            continue
        arrays = {}
        for b, i, st_ in f.all_stmts():
            if st_.get("k") == "decl":
                m = re.match(r"^(?:const )?char\[(\d+)\]$", st_["var"].get("t", ""))
                if m:
                    arrays[st_["var"]["id"]] = int(m.group(1))
        for b, i, st_ in f.all_stmts():
            for c in ir.calls_in(st_):
                args = c.get("args", [])
                for k in range(len(args) - 1):
                    a0, a1 = ir.strip(args[k]), ir.strip(args[k + 1])
                    if isinstance(a0, dict) and a0.get("k") == "var" and a0.get("id") in arrays and isinstance(a1, dict) and a1.get("k") == "int":
                        n += 1
                        res.touched(f)
                        inst = "%s: %s is given '%s' with a size within the array" % (f.short, c.get("fn"), a0["n"])
                        if 0 <= a1["v"] <= arrays[a0["id"]]:
                            res.oblige(rule, inst, True, "%d <= %d" % (a1["v"], arrays[a0["id"]]), f.loc(st_))
                        else:
                            res.fail(rule, inst, "%s|%s|%s" % (rule, f.short, a0["n"]), f.loc(st_),
                                     "%s passes the %d-byte array '%s' with size %d to %s: the callee may write past it" % (f.short, arrays[a0["id"]], a0["n"], a1["v"], c.get("fn")))
                    g_ = prog.resolve(c["fn"], f) if c.get("fn") else None
                    is_len = g_ is not None and k + 1 < len(g_.params) and "long" in g_.params[k + 1].get("t", "") and \
                        re.search(r"bytes|len|size", g_.params[k + 1].get("n", ""))
                    if is_len and isinstance(a0, dict) and a0.get("k") == "str" and isinstance(a1, dict) and a1.get("k") == "int" and "len" in a0:
                        n += 1
                        res.touched(f)
                        inst = "%s: the literal \"%s\" is passed with its own length" % (f.short, a0.get("v"))
                        if a1["v"] == a0["len"] - 1:
                            res.oblige(rule, inst, True, "%d" % a1["v"], f.loc(st_))
                        else:
                            res.fail(rule, inst, "%s|%s|literal-%s" % (rule, f.short, a0.get("v")), f.loc(st_),
                                     "%s passes the pattern \"%s\" with length %d (the literal has %d characters): the terminator becomes part of the pattern, or the pattern is cut" % (f.short, a0.get("v"), a1["v"], a0["len"] - 1))
    return n


def name_input_guard(prog, res, rule="R-SELECT"):
    """device_manager_select_inner_: the caller's (name, length) pair is turned
    into a std::string and its last character inspected only when both the
    pointer and the length are non-zero (assign from NULL and rbegin() of an
    empty string are undefined behaviour, i.e. a crash instead of an error)."""
    f = prog.func("device_manager_select_inner_")
    res.touched(f)
    ptr_p = [p for p in f.params if p.get("pd") and "char" in p.get("t", "")]
    len_p = [p for p in f.params if not p.get("pd") and "long" in p.get("t", "")]
    if not ptr_p or not len_p:
        raise AnalysisBroken("device_manager_select_inner_: (name, length) parameters not found")
    pn, ln = ptr_p[0]["n"], len_p[0]["n"]
    sites = [(b.id, i, c.get("fn")) for b, i, s_ in f.all_stmts() for c in ir.calls_in(s_)
             if (c.get("fn") or "").endswith(("::assign", "::rbegin"))]
    if not sites:
        raise AnalysisBroken("device_manager_select_inner_: name handling not found")
    bad = []
    for bid, i, fn in sites:
        for k in paths.knowledge_at(f, (bid, i)):
            if k.get(pn) is not True or k.get(ln) is not True:
                bad.append(fn.split("::")[-1])
    for bid, i, fn in sites:
        if fn.endswith("::rbegin"):
            ok_, w_ = paths.all_paths_pass(f, "entry", {(bid, i)}, lambda q: any((c.get("fn") or "").endswith("::assign") for c in ir.calls_in(q)))
            if not ok_:
                bad.append("rbegin (of a string that may be empty: nothing was assigned to it)")
    inst = "device_manager_select_inner_: the name is copied / inspected only when pointer and length are non-zero"
    if bad:
        res.fail(rule, inst, "R-SELECT|name-guard", f.loc(),
                 "device_manager_select_inner_ can reach std::string::%s with a NULL name or a zero length: undefined behaviour (a crash) instead of an error status" % sorted(set(bad))[0])
    else:
        res.oblige(rule, inst, True, "%d site(s) reached only with %s and %s known non-zero" % (len(sites), pn, ln), f.loc())


def run(ctx, res):
    prog = ctx.program()
    res.extra["explanation"] = EXPLANATION
    res.assumptions += [
        "allocation failure (std::bad_alloc) is outside the fault model; the table of allocation-only standard operations is in acq/exc.py",
        "a C function (no body in a C++ unit) cannot throw; calls through function pointers of extern \"C\" records are C calls",
        "regex semantics of the standard library are trusted",
    ]
    n, ea = rule_x_barrier(prog, res, tus=["device.manager.cpp"])
    res.extra["throwing_internal_functions"] = sorted(k[1] for k, v in ea.nothrow.items()
                                                      if not v and ea.fns[k].file.endswith("device.manager.cpp"))
    select_semantics(prog, res)
    slot_index(prog, res)
    basics_tables(prog, res)
    res.guard(rule_range_reject, prog, res)
    res.guard(format_taint, prog, res)
    res.require_min("R-FMT-TAINT", 1)
    res.require_min("R-RANGE-REJECT", 2)
    loader_cleanup(prog, res)
    res.guard(bounded_and_literals, prog, res)
    res.guard(name_input_guard, prog, res)
    from ..indexguard import rule_index_guards
    cnt = dict(prog.enum_values("BasicDeviceKind") or {}).get("BasicDeviceKindCount")
    res.guard(rule_index_guards, prog, res, ["basics_make_storage", "device_kind_as_string", "device_state_as_string"],
              {("basics_make_storage", "globals.constructors"): cnt})
    res.require_min("R-INDEX", 3)
    res.require_min("R-BOUNDED", 4)
    res.require_min("X-BARRIER", 6)
    res.require_min("R-SELECT", 7)
    res.require_min("R-SLOT-INDEX", 2)
    res.require_min("T-SIB", 20)
    res.require_min("R-LOAD-CLEANUP", 3)
