"""C15 — TIFF writers produce valid BigTIFF files that round-trip every frame.
Decided clauses (DESIGN.md 4/C15): finalisation typestate (the IFD chain is
terminated last and the file closed whenever the device leaves the running
state, for tiff and for the composite tiff-json), exhaustive sample-format
table, header/IFD constant agreement, iteration by the frame's size field, and
that every per-frame tag is computed from the frame being written."""
from .. import ir, paths, tables
from ..build import AnalysisBroken
from .c16 import run_storage_rules

EXPLANATION = (
    "Static analysis. (1) Typestate simulation of the tiff and tiff-json "
    "devices through the real HAL over all life-cycle sequences with failing "
    "file operations: whenever storage_stop takes the device out of the running "
    "state its file is closed, a file that received frames is closed only after "
    "the last write came from the IFD-chain terminator, and nothing is left open "
    "at destroy - for the top-level writer and for the inner writer driven by "
    "the composite device. (2) Table rules: sample_format's switch covers every "
    "SampleType below the sentinel explicitly; header().first_ifd equals "
    "sizeof(header_t); bits-per-sample comes from the shared bytes_of_type table. "
    "(3) Tiff::append advances by the current frame's bytes_of_frame only, and "
    "every tag argument that describes the frame reads the frame being written. "
    "File layout arithmetic (offsets inside the file, non-overlap, JSON text) is "
    "numeric and is not decided.")
EXPLANATION += (' R-TIFF-LAYOUT: directory / pixel / string sections ordered, aligned, non-overlapping (linear lower bounds, congruences); tags and bookkeeping agree with the writes; packet walk, write_ extent, metadata on the first frame, terminator, metadata.json extent, StringSection reserve/reset (linear domain with allocation ghost). STALE-CURSOR as in C14.')



def sample_format_exhaustive(prog, res):
    f = prog.func("sample_format")
    res.touched(f)
    want = tables.enum_below_sentinel(prog, "SampleType")
    if not want:
        raise AnalysisBroken("enum SampleType vanished")
    sws = [s for s in tables.switches(f) if s["enum"] == "SampleType"]
    if not sws:
        raise AnalysisBroken("sample_format no longer switches over SampleType")
    for sw in sws:
        for name, val in want:
            inst = "sample_format handles %s" % name
            if val in sw["cases"]:
                res.oblige("T-EXH", inst, True, "explicit case", "%s:%s" % (f.file, sw["line"]))
            else:
                res.fail("T-EXH", inst, "T-EXH|sample_format|%s" % name, "%s:%s" % (f.file, sw["line"]),
                         "sample_format has no case for %s: frames of that type are tagged with the 'unknown' sample format" % name)


def header_constants(prog, res):
    f = prog.func("header")
    res.touched(f)
    rec = prog.record("(anonymous namespace)::header_t") or prog.record("header_t")
    if rec is None:
        for k, r in prog.records.items():
            if k.endswith("header_t"):
                rec = r
    if rec is None:
        raise AnalysisBroken("record header_t vanished")
    found = False
    for b, i, s in f.all_stmts():
        for x in ir.walk(s):
            if x.get("k") == "init":
                for e in x.get("elts", []):
                    if e.get("f") == "first_ifd":
                        found = True
                        v = ir.strip(e["v"])
                        ok = ir.is_const(v) and v["v"] == rec["size"]
                        if ok:
                            res.oblige("T-CONST", "header().first_ifd == sizeof(header_t)", True,
                                       "both %d" % rec["size"], f.loc(s))
                        else:
                            res.fail("T-CONST", "header().first_ifd == sizeof(header_t)",
                                     "T-CONST|header|first_ifd", f.loc(s),
                                     "the header points the first IFD at %s but the header occupies %d bytes"
                                     % (ir.render(v), rec["size"]))
                    if e.get("f") == "sizeof_offset":
                        v = ir.strip(e["v"])
                        ok = ir.is_const(v, 8)
                        (res.oblige if ok else lambda *a, **k: res.fail("T-CONST", a[1], "T-CONST|header|sizeof_offset", a[4] if len(a) > 4 else "", "BigTIFF offsets are 8 bytes"))(
                            "T-CONST", "header().sizeof_offset == 8", ok, "BigTIFF offset size", f.loc(s))
    if not found:
        raise AnalysisBroken("header() no longer initialises first_ifd")
    # Tiff::start advances last_offset_ past the header it wrote
    st = prog.func("(anonymous namespace)::Tiff::start", required=False) or prog.func("Tiff::start")
    res.touched(st)
    ok = False
    for b, i, s in st.all_stmts():
        for lv, op, rhs, whole in ir.writes_of(s):
            if lv.get("k") == "mem" and lv["f"] == "last_offset_" and ir.is_const(rhs, rec["size"]):
                ok = True
    if ok:
        res.oblige("T-CONST", "Tiff::start: last_offset_ = sizeof(header)", True, "", st.loc())
    else:
        res.fail("T-CONST", "Tiff::start: last_offset_ = sizeof(header)", "T-CONST|start|last_offset", st.loc(),
                 "Tiff::start does not place the first IFD directly after the header")


def append_iteration(prog, res):
    """The frame cursor of Tiff::append advances by cur->bytes_of_frame; tag
    arguments read the frame being written."""
    f = prog.func("(anonymous namespace)::Tiff::append", required=False) or prog.func("Tiff::append")
    res.touched(f)
    lam = None
    for g in prog.all_funcs():
        if g.d.get("lambda") and g.name.startswith(f.name):
            lam = g
    if lam is None:
        raise AnalysisBroken("the frame-stepping lambda of Tiff::append vanished")
    res.touched(lam)
    steps = []
    for b, i, s in lam.all_stmts():
        for x in ir.walk(s):
            if x.get("k") == "bin" and x.get("op") == "+" and x.get("pd"):
                r = ir.strip(x["r"])
                if isinstance(r, dict) and r.get("k") == "mem":
                    steps.append((s, r))
    good = [r for s, r in steps if r["f"] == "bytes_of_frame"]
    if good and len(good) == len(steps):
        res.oblige("R-STEP", "Tiff::append steps by cur->bytes_of_frame", True,
                   "%d pointer advance(s), all by the size field" % len(steps), lam.loc())
    else:
        res.fail("R-STEP", "Tiff::append steps by cur->bytes_of_frame", "R-STEP|Tiff::append", lam.loc(),
                 "Tiff::append's frame iteration does not advance by the current frame's bytes_of_frame: %s"
                 % [ir.render(r) for s, r in steps])
    # per-frame tags read `cur`
    per_frame = {"image_width": "width", "image_length": "height", "rows_per_strip": "height",
                 "sample_format": "type", "strip_byte_counts": None}
    seen = 0
    # the frame cursor: the local VideoFrame pointer that is initialised from
    # the `frames` parameter and re-assigned from the stepping lambda
    frames_p = f.params[0]["id"] if f.params else None
    cursor = None
    for b, i, s in f.all_stmts():
        for lv, op, rhs, w in ir.writes_of(s):
            r0 = ir.strip(rhs)
            if lv.get("k") == "var" and lv.get("r") == "VideoFrame" and isinstance(r0, dict) and \
                    r0.get("k") == "var" and r0.get("id") == frames_p:
                cursor = lv
    if cursor is None:
        raise AnalysisBroken("Tiff::append: frame cursor (initialised from the frames parameter) not found")
    for b, i, s in f.all_stmts():
        for c in ir.calls_in(s):
            nm = (c.get("fn") or "").split("::")[-1]
            if nm in per_frame and per_frame[nm]:
                seen += 1
                arg = c["args"][0] if c.get("args") else None
                roots = [y for y in ir.walk(arg) if y.get("k") == "var"]
                fields = [y["f"] for y in ir.walk(arg) if y.get("k") == "mem"]
                ok = any(v["id"] == cursor["id"] for v in roots) and per_frame[nm] in fields
                inst = "Tiff::append: %s(<frame cursor>->...%s)" % (nm, per_frame[nm])
                if ok:
                    res.oblige("R-FRAME-TAGS", inst, True, ir.render(arg), f.loc(s))
                else:
                    res.fail("R-FRAME-TAGS", inst, "R-FRAME-TAGS|%s" % nm, f.loc(s),
                             "the %s tag is not computed from the %s of the frame being written (got %s)"
                             % (nm, per_frame[nm], ir.render(arg)))
    if seen < 4:
        raise AnalysisBroken("Tiff::append no longer builds the per-frame tags the rule knows (%d found)" % seen)


FORMAT_SINKS = {"vsnprintf": 2, "snprintf": 2, "vsprintf": 1, "sprintf": 1, "printf": 0, "vprintf": 0}


def tiff_layout(prog, res, rule="R-TIFF-LAYOUT"):
    """Structure of one directory entry as Tiff::append lays it out (a necessary
    condition of "all offsets inside the file, no structure overlapping another,
    the chain links the directories in order"):
      * three writes per frame: the directory at O1, the pixels at O2, the
        strings at O3, where O2 >= O1 + sizeof(directory) and O3 >= O2 +
        (bytes of the image) - linear lower bounds of the defining expressions,
        with the alignment helper proven to round up to a multiple of 8;
      * the strip tags carry O2 and the pixel byte count, which is
        bytes_of_frame - sizeof(struct VideoFrame); the string section is reset
        to O3 before the tags are built; the directory's `next` is at or after
        the end of the strings;
      * after the writes: last_ifd_next_offset_ = O1 + offsetof(next),
        last_offset_ = the directory's next, frame count advanced;
      * terminate_ifd_list writes sizeof(next) zero bytes at
        last_ifd_next_offset_; start leaves last_offset_ = sizeof(header)."""
    from .. import congr
    fs = [g for g in prog.all_funcs() if g.name.endswith("Tiff::append") and not g.d.get("lambda")]
    if not fs:
        raise AnalysisBroken("Tiff::append not found")
    f = fs[0]
    res.touched(f)
    defs = congr.single_defs(f)

    def var_of(e):
        e = ir.strip(e)
        return e if isinstance(e, dict) and e.get("k") == "var" else None

    def same_var(a, b):
        a, b = var_of(a), var_of(b)
        return a is not None and b is not None and a["id"] == b["id"]
    writes = []
    for b, i, st_ in f.all_stmts():
        for c in ir.calls_in(st_):
            if (c.get("fn") or "").endswith("::write_"):
                writes.append((b.id, i, st_, c))
    writes.sort(key=lambda w: w[2].get("line", 0))
    problems = []
    if len(writes) != 3:
        raise AnalysisBroken("Tiff::append: expected three writes per frame (directory, pixels, strings), found %d" % len(writes))
    (O1, B1, N1), (O2, B2, N2), (O3, B3, N3) = [tuple(w[3]["args"][-3:]) for w in writes]
    for nm, o in (("directory", O1), ("pixel", O2), ("string", O3)):
        if var_of(o) is None or var_of(o)["id"] not in defs:
            problems.append(("offsets", "the %s write's offset is not a single-definition local" % nm))
    if problems:
        for t, m in problems:
            res.fail(rule, "Tiff::append layout", "%s|%s" % (rule, t), f.loc(), m)
        return

    anchors = {var_of(x)["id"] for x in (O1, O2, O3, N2) if var_of(x) is not None}

    def body(v):
        """defining expression of a local: helper calls and auxiliary locals
        inlined, the three section offsets and the pixel count kept as atoms"""
        keep = {k: d for k, d in defs.items() if k not in anchors}
        return congr.inline_expr(prog, f, defs[var_of(v)["id"]], defs=keep)

    def check(tag, inst, ok, msg):
        if ok:
            res.oblige(rule, inst, True, "", f.loc())
        else:
            res.fail(rule, inst, "%s|%s" % (rule, tag), f.loc(), "Tiff::append: " + msg)
    ok, lb = congr.covers(body(O2), [O1, N1])
    check("data-after-ifd", "pixels start at or after the end of the directory", ok,
          "the pixel section offset (%s) is not provably >= directory offset + sizeof(directory): the strip overlaps the directory" % ir.render(defs[var_of(O2)["id"]]))
    ok, lb = congr.covers(body(O3), [O2, N2])
    check("strings-after-data", "strings start at or after the end of the pixels", ok,
          "the string section offset (%s) is not provably >= pixel offset + pixel bytes: the description overlaps the strip" % ir.render(defs[var_of(O3)["id"]]))
    for nm, o in (("directory", O1), ("pixel", O2), ("string", O3)):
        cg = congr.congruence(body(o), {})
        check("align-" + nm, "%s offset is a multiple of 8" % nm, cg[0] % 8 == 0 and cg[1] % 8 == 0 and cg != (0, 0),
              "the %s section offset %s is not provably 8-byte aligned (congruence %s)" % (nm, ir.render(defs[var_of(o)["id"]]), cg))
    # pixel count
    n2 = var_of(N2)
    d = ir.strip(defs.get(n2["id"])) if n2 is not None else None
    okn = isinstance(d, dict) and d.get("k") == "bin" and d.get("op") == "-" and \
        ir.strip(d["l"]).get("k") == "mem" and ir.strip(d["l"]).get("f") == "bytes_of_frame" and \
        ir.strip(d["r"]).get("k") == "int" and ir.strip(d["r"]).get("sizeof_r") == "VideoFrame"
    check("pixel-count", "pixel bytes = bytes_of_frame - sizeof(struct VideoFrame)", okn,
          "the number of pixel bytes written per frame is %s, not bytes_of_frame minus the frame header" % (ir.render(d) if d else "?"))
    okb = isinstance(ir.strip(B2), dict) and any(y.get("k") == "mem" and y.get("f") == "data" for y in ir.walk(B2))
    check("pixel-source", "the pixel write takes the frame's data", okb, "the pixel write does not read cur->data")
    # tags
    tags = {}
    resets = []
    for b, i, st_ in f.all_stmts():
        for c in ir.calls_in(st_):
            fn = (c.get("fn") or "").split("::")[-1]
            if fn in ("strip_offsets", "strip_byte_counts") and c.get("args"):
                tags[fn] = c["args"][-1]
            if fn == "reset" and c.get("args"):
                resets.append(((b.id, i), c["args"][-1]))
    check("strip-offset", "the strip-offsets tag is the pixel write's offset", "strip_offsets" in tags and same_var(tags["strip_offsets"], O2),
          "the StripOffsets tag does not carry the offset the pixels are written to")
    check("strip-count", "the strip-byte-counts tag is the pixel write's length", "strip_byte_counts" in tags and same_var(tags["strip_byte_counts"], N2),
          "the StripByteCounts tag does not carry the number of pixel bytes written")
    loops0 = paths.natural_loops(f)
    wl0 = paths.innermost_loop(f, writes[2][0])
    hs0 = [h for h, bd in loops0 if wl0 and bd == wl0]
    heads0 = hs0[0] if hs0 else None
    okr = bool(resets) and all(same_var(a, O3) for p, a in resets) and \
        paths.all_paths_pass(f, (heads0, -1) if heads0 is not None else "entry", {(writes[2][0], writes[2][1])},
                             lambda q: any((c.get("fn") or "").endswith("::reset") for c in ir.calls_in(q)))[0]
    check("strings-reset", "the string section is rebased to the string write's offset for every frame", okr,
          "the string section is not reset to the offset the strings are written to: the description tag points elsewhere")
    # the directory's next link: last element of the directory initialiser
    nxt = None
    for b, i, st_ in f.all_stmts():
        for x in ir.walk(st_):
            if x.get("k") in ("init", "construct") and "ifd_t" in str(x.get("t", "")) + str(x.get("r", "")):
                el = x.get("elts") or x.get("args") or []
                if el:
                    last = el[-1]
                    nxt = last.get("v") if isinstance(last, dict) and "v" in last else last
    if nxt is not None:
        e = congr.inline_expr(prog, f, nxt, defs={})
        okx, lb = congr.covers(e, [y for y in ir.walk(e) if y.get("k") == "mem" and y.get("f") == "offset"][:1] or [nxt])
        okx = okx and any(y.get("k") == "mem" and y.get("f") == "offset" for y in ir.walk(e))
        cg = congr.congruence(e, {})
        check("next", "the next directory starts at or after the end of the strings, 8-byte aligned", okx and cg[0] % 8 == 0 and cg[1] % 8 == 0,
              "the directory's next link (%s) is not provably >= the end of the string section and aligned" % ir.render(nxt))
    else:
        check("next", "the next directory starts at or after the end of the strings, 8-byte aligned", False, "the directory initialiser was not found")
    # bookkeeping after the writes
    loops = paths.natural_loops(f)
    wl = paths.innermost_loop(f, writes[2][0])
    heads = [h for h, bd in loops if wl and bd == wl]
    dst = {(heads[0], 0)} if heads and f.blocks[heads[0]].stmts else ({(heads[0], -1)} if heads else "exit")
    succ = [sc["to"] for sc in f.blocks[writes[2][0]].succs if sc.get("label") == "false" and sc.get("to") is not None]

    def stores(field, pred):
        def p_(q):
            for lv, op, rhs, w in ir.writes_of(q):
                if (ir.ap(lv) or "").endswith(field) and pred(op, rhs):
                    return True
            return False
        return p_

    def link_ok(op, rhs):
        r0 = ir.strip(rhs) if isinstance(rhs, dict) else None
        return op == "=" and isinstance(r0, dict) and r0.get("k") == "bin" and r0.get("op") == "+" and same_var(r0["l"], O1) and \
            ir.strip(r0["r"]).get("k") == "int" and ir.strip(N1).get("k") == "int" and ir.strip(r0["r"])["v"] == ir.strip(N1)["v"] - 8
    for field, pred, what in (
            ("last_ifd_next_offset_", link_ok, "last_ifd_next_offset_ = directory offset + offsetof(next)"),
            ("last_offset_", lambda op, rhs: op == "=" and isinstance(ir.strip(rhs), dict) and ir.strip(rhs).get("k") == "mem" and ir.strip(rhs).get("f") == "next",
             "last_offset_ = the directory's next"),
            ("frame_count_", lambda op, rhs: op in ("++", "+="), "the frame count advances")):
        okf = bool(succ) and dst != "exit" and all(paths.all_paths_pass(f, (t, -1), dst, stores(field, pred))[0] for t in succ)
        check("book-" + field, "after the three writes: " + what, okf,
              "after a frame was written the bookkeeping '%s' is skipped or different: the next directory is placed or linked wrongly" % what)
    # the packet walk ends at the packet's end
    from .. import linear as L
    for g in prog.all_funcs():
        if g.d.get("lambda") and "Tiff::append" in g.name:
            res.touched(g)
            an = L.Analysis(prog)
            okw = True
            nn = 0
            for rv, st_ in an.run(g, L.State()):
                if rv is None or (L.is_const(rv) and rv.get(L.ONE, 0) == 0):
                    continue
                nn += 1
                o = [v for k, v in st_.cells.items() if k.endswith(":o")]
                n_ = [v for k, v in st_.cells.items() if k.endswith(":nbytes")]
                if len(o) != 1 or len(n_) != 1 or not st_.entails_le(L.ladd(L.lsub(o[0], n_[0]), L.lconst(1))):
                    okw = False
            check("walk-end", "the packet walk yields a next frame only while its offset is below the packet size", okw and nn > 0,
                  "the walk over the frames of a packet can step to an offset that is not below the packet size: a header is read past the packet")
    # write_ hands exactly [buf, buf + nbytes) at the given offset to file_write
    for g in prog.all_funcs():
        if g.name.endswith("Tiff::write_"):
            res.touched(g)
            fw = [(b.id, i, c) for b, i, st_ in g.all_stmts() for c in ir.calls_in(st_) if c.get("fn") == "file_write"]
            okx = len(fw) == 1 and len(g.params) >= 3
            if okx:
                a = fw[0][2]["args"]
                po, pb, pn = g.params[-3:]
                e3 = ir.strip(a[3])
                okx = var_of(a[1]) is not None and var_of(a[1])["id"] == po["id"] and var_of(a[2]) is not None and var_of(a[2])["id"] == pb["id"] and \
                    isinstance(e3, dict) and e3.get("k") == "bin" and e3.get("op") == "+" and var_of(e3["l"]) is not None and var_of(e3["l"])["id"] == pb["id"] and \
                    var_of(e3["r"]) is not None and var_of(e3["r"])["id"] == pn["id"]
                trues = {(b.id, i) for b, i, st_ in g.all_stmts() if st_.get("k") == "ret" and not ir.is_const(st_.get("e"), 0)}
                okx = okx and bool(trues) and paths.all_paths_pass(g, "entry", trues, lambda q: any(c.get("fn") == "file_write" for c in ir.calls_in(q)))[0]
            check("write-extent", "write_ passes (offset, buf, buf + nbytes) to file_write on every successful path", okx,
                  "Tiff::write_ does not hand exactly [buf, buf + nbytes) at the given offset to file_write (or reports success without writing)")
    # the user's metadata goes on the first frame of an acquisition
    def is_first(cn):
        c0 = ir.strip(cn)
        return isinstance(c0, dict) and c0.get("k") == "bin" and c0.get("op") == "==" and \
            any((ir.ap(x) or "").endswith("frame_count_") for x in (c0["l"], c0["r"])) and any(ir.is_const(x, 0) for x in (c0["l"], c0["r"]))

    def has_meta_len(cn):
        return any(y.get("k") == "call" and (y.get("fn") or "").endswith("::length") for y in ir.walk(cn))
    with_meta, without = [], []
    for b, i, st_ in f.all_stmts():
        for c in ir.calls_in(st_):
            if (c.get("fn") or "").endswith("image_description"):
                (with_meta if any("external_metadata_" in (ir.render(a) or "") for a in c.get("args", [])) else without).append((b.id, i))
    okm = bool(with_meta) and bool(without)
    for p_ in with_meta:
        okm = okm and paths.edge_dominated(f, p_, lambda cn, lab, blk: is_first(cn) and lab == "true")[0]
    for p_ in without:
        okm = okm and paths.edge_dominated(f, p_, lambda cn, lab, blk: (is_first(cn) or has_meta_len(cn)) and lab == "false")[0]
    check("metadata-first", "the user's metadata is written with the first frame of an acquisition and only with it", okm,
          "the description carrying the user's metadata is not selected exactly for frame_count_ == 0 (with non-empty metadata)")
    # terminate / start
    for g in prog.all_funcs():
        if g.name.endswith("Tiff::terminate_ifd_list"):
            res.touched(g)
            ws = [c for b, i, st_ in g.all_stmts() for c in ir.calls_in(st_) if (c.get("fn") or "").endswith("::write_")]
            okt = len(ws) == 1 and (ir.ap(ws[0]["args"][-3]) or "").endswith("last_ifd_next_offset_") and ir.is_const(ws[0]["args"][-1], 8)
            check("terminate", "terminate_ifd_list zeroes the 8-byte link at last_ifd_next_offset_", okt,
                  "terminate_ifd_list does not write 8 bytes at last_ifd_next_offset_: the chain does not end in a zero link")
        if g.name.endswith("Tiff::start"):
            res.touched(g)
            oks = any((ir.ap(lv) or "").endswith("last_offset_") and isinstance(ir.strip(rhs), dict) and ir.strip(rhs).get("k") == "int"
                      and ir.strip(rhs).get("v") == 16 for b, i, st_ in g.all_stmts() for lv, op, rhs, w in ir.writes_of(st_))
            check("start", "start places the first directory right after the 16-byte header", oks,
                  "Tiff::start does not set last_offset_ to sizeof(header): the first directory is not where the header's first_ifd points")


def metadata_file(prog, res, rule="R-TIFF-LAYOUT"):
    """tiff-json: metadata.json receives the user's JSON without its
    terminator: the write is [s.str, s.str + s.nbytes - 1) for one String s,
    at offset 0, and the file is closed on every path after it was created."""
    from .. import linear as L
    f = prog.func("side_by_side_tiff_start")
    res.touched(f)
    fw = [(b.id, i, c) for b, i, st_ in f.all_stmts() for c in ir.calls_in(st_) if c.get("fn") == "file_write"]
    inst = "side_by_side_tiff_start: metadata.json is the metadata string without its terminator"
    ok = len(fw) == 1
    why = "expected one file_write for metadata.json"
    if ok:
        a = fw[0][2]["args"]
        beg, end = ir.strip(a[2]), ir.strip(a[3])
        sb = [y for y in ir.walk(beg) if y.get("k") == "mem" and y.get("f") == "str"]
        an = L.Analysis(prog)
        an.inline = False
        st0 = L.State()
        vb = an.eval(f, beg, st0)[0][0]
        ve = an.eval(f, end, st0)[0][0]
        owner = ir.ap(sb[0]["b"]) if sb else None
        nb = None
        for y in ir.walk(end):
            if y.get("k") == "mem" and y.get("f") == "nbytes" and ir.ap(y["b"]) == owner:
                nb = an.eval(f, y, st0)[0][0]
        ok = owner is not None and nb is not None and L.lsub(L.lsub(ve, vb), L.lsub(nb, L.lconst(1))) == {} and ir.is_const(a[1], 0)
        why = "the bytes written are not [str, str + nbytes - 1) of one string at offset 0 (extent %s)" % L.lshow(L.lsub(ve, vb))
    if ok:
        res.oblige(rule, inst, True, "", f.loc())
    else:
        res.fail(rule, inst, "%s|metadata-json" % rule, f.loc(),
                 "side_by_side_tiff_start: %s: metadata.json ends in a NUL byte or loses its last character and is not valid JSON" % why)


def string_section(prog, res, rule="R-TIFF-LAYOUT"):
    """StringSection::reserve (the buffer the TIFF description strings are
    built in) by the linear domain with the allocation ghost: assuming the
    buffer holds `capacity` bytes and size <= capacity on entry, the n bytes
    handed out start at data + old size inside a live allocation, and on return
    size and offset both grew by n and size <= capacity again."""
    from .. import linear as L, allocghost as G
    fs = [g for g in prog.all_funcs() if g.name.endswith("StringSection::reserve")]
    if not fs:
        raise AnalysisBroken("StringSection::reserve not found")
    f = fs[0]
    res.touched(f)
    problems = []

    def m_memset(an, f_, e, st):
        p_ = an.eval(f_, e["args"][0], st)[0][0]
        n_ = an.eval(f_, e["args"][2], st)[0][0]
        why = G.check_access(st, p_, n_)
        if why:
            problems.append("memset: " + why)
        return [(L.lconst(0), st)]
    an = L.Analysis(prog)
    an.models.update({"malloc": G.m_malloc, "realloc": G.m_realloc, "free": G.m_free, "memset": m_memset})
    st0 = L.State()
    data0 = an.eval(f, {"k": "mem", "arrow": True, "b": {"k": "this"}, "f": "data", "pd": 1}, st0)[0][0]
    cap0 = an.read(st0, "this->capacity", False)
    size0 = an.read(st0, "this->size", False)
    off0 = an.read(st0, "this->offset", False)
    st0.assume_le(L.lscale(size0, -1))
    st0.assume_le(L.lsub(size0, cap0))
    G.adopt(st0, list(data0)[0], cap0)
    nparam = f.params[0]["n"]
    good = 0
    for rv, st in an.run(f, st0):
        if rv is None or (L.is_const(rv) and rv.get(L.ONE, 0) == 0):
            continue
        good += 1
        n_ = an.read(st, "%s:%s" % (f.name, nparam))
        data1 = st.cells.get("this->data", data0)
        size1, off1, cap1 = st.cells.get("this->size", size0), st.cells.get("this->offset", off0), st.cells.get("this->capacity", cap0)
        if not st.entails_eq(L.lsub(rv, L.ladd(data1, size0))):
            problems.append("the region handed out does not start at data + (old) size")
        why = G.check_access(st, rv, n_)
        if why:
            problems.append("the region handed out: " + why)
        if not st.entails_eq(L.lsub(size1, L.ladd(size0, n_))):
            problems.append("size does not grow by the reserved byte count")
        if not st.entails_eq(L.lsub(off1, L.ladd(off0, n_))):
            problems.append("the file offset of the section does not advance by the reserved byte count")
        sym, o_ = G.sym_of(data1)
        a_ = st.tags.get("alloc", {}).get(sym) if sym else None
        if a_ is None or not a_[1] or not st.entails_le(L.lsub(cap1, a_[0])) or not st.entails_le(L.lsub(size1, cap1)):
            problems.append("on return the recorded capacity / size exceed the live allocation")
    for g in prog.all_funcs():
        if g.name.endswith("StringSection::reset") and g.params:
            res.touched(g)
            an2 = L.Analysis(prog)
            okr = False
            for rv, st in an2.run(g, L.State()):
                o_ = an2.read(st, "%s:%s" % (g.name, g.params[0]["n"]), False)
                okr = "this->offset" in st.cells and st.entails_eq(L.lsub(st.cells["this->offset"], o_)) and \
                    "this->size" in st.cells and st.entails_eq(st.cells["this->size"])
            if not okr:
                problems.append("reset does not rebase the section (offset := argument, size := 0)")
    inst = "StringSection::reserve hands out n zeroed bytes at data + size inside the buffer and keeps size <= capacity"
    if good == 0:
        problems.append("reserve never succeeds")
    if problems:
        for m in sorted(set(problems)):
            res.fail(rule, inst, "%s|string-section" % rule, f.loc(), "StringSection::reserve: %s: description strings overwrite each other or run past the buffer" % m)
    else:
        res.oblige(rule, inst, True, "%d successful return state(s)" % good, f.loc())


def format_literals(prog, res):
    """Description strings: whatever reaches the format parameter of the
    printf family in tiff.cpp is a string literal; frame ids, timestamps and the
    user's metadata are only ever passed as arguments."""
    R = "R-FMT-LITERAL"
    fns = [f for f in prog.all_funcs() if f.file.endswith("storage/tiff.cpp")]
    sinks = dict(FORMAT_SINKS)
    changed = True
    while changed:
        changed = False
        for f in fns:
            for b, i, s in f.all_stmts():
                for c in ir.calls_in(s):
                    k = sinks.get(c.get("fn"))
                    if k is None or k >= len(c.get("args", [])):
                        continue
                    a = ir.strip(c["args"][k])
                    if isinstance(a, dict) and a.get("k") == "var" and "p" in a and f.name not in sinks:
                        sinks[f.name] = a["p"]
                        changed = True
    n = 0
    for f in fns:
        for b, i, s in f.all_stmts():
            for c in ir.calls_in(s):
                k = sinks.get(c.get("fn"))
                if k is None or k >= len(c.get("args", [])):
                    continue
                a = ir.strip(c["args"][k])
                if isinstance(a, dict) and a.get("k") == "var" and "p" in a and sinks.get(f.name) == a["p"]:
                    continue  # forwarding its own format parameter
                n += 1
                res.touched(f)
                lit = isinstance(a, dict) and (a.get("k") == "str" or ir.is_const(a, 0))
                inst = "%s: format of %s is a literal" % (f.name.split("::")[-1], (c.get("fn") or "").split("::")[-1])
                if lit:
                    res.oblige(R, inst, True, "\"%s...\"" % a.get("v", "")[:30], f.loc(s))
                else:
                    res.fail(R, inst, "R-FMT-LITERAL|%s|%s" % (f.name, c.get("fn")), f.loc(s),
                             "%s passes a computed string (%s) as the printf format of %s: a '%%' in the user's metadata is interpreted as a conversion and corrupts (or crashes) the description"
                             % (f.name, ir.render(a), c.get("fn")))
    return n


def tag_table(prog, res, rule="T-TAGS"):
    """A (Big)TIFF directory is a table of entries with unique tags in ascending order.
    (a) every tag builder of tiff.cpp (a function that returns tag_t::as_*(ID, ..)) uses ONE tag id on
        all of its return paths, and no two builders share an id (sibling agreement: x_/y_resolution);
    (b) the initialiser of the directory in Tiff::append lists its builders in strictly ascending
        order of those ids (both arms of a conditional entry carry the same id)."""
    ids = {}
    for g in prog.all_funcs():
        if not g.file.endswith("storage/tiff.cpp") or not g.blocks:
            continue
        found = set()
        if "tag_t::" in g.name:
            continue     # the constructors themselves
        for b, i, s_ in g.all_stmts():
            for c in ir.calls_in(s_):
                fn = c.get("fn") or ""
                if "tag_t::as_" in fn and c.get("args"):
                    consts = [ir.strip(a)["v"] for a in c["args"][:2] if ir.is_const(a)]
                    if consts:
                        found.add(consts[0])
        if found:
            ids[g.name] = found
    if len(ids) < 10:
        raise AnalysisBroken("tiff.cpp: tag builders not found (%d)" % len(ids))
    bad = {n: v for n, v in ids.items() if len(v) != 1}
    for n, v in sorted(bad.items()):
        g = prog.func(n)
        res.fail(rule, "%s uses one tag id" % n.split("::")[-1], "%s|builder|%s" % (rule, n.split("::")[-1]), g.loc(),
                 "%s returns entries with different tag ids %s on different paths: the directory carries one tag twice and lacks the other" % (n.split("::")[-1], sorted(v)))
    single = {n: list(v)[0] for n, v in ids.items() if len(v) == 1}
    seen = {}
    for n, v in sorted(single.items()):
        if v in seen:
            g = prog.func(n)
            res.fail(rule, "tag %d has one builder" % v, "%s|shared|%d" % (rule, v), g.loc(),
                     "%s and %s both produce tag %d" % (seen[v].split("::")[-1], n.split("::")[-1], v))
        seen.setdefault(v, n)
    if not bad:
        res.oblige(rule, "every tag builder uses one id, ids are unique", True, "%d builders" % len(ids), "acquire-driver-common/src/storage/tiff.cpp")
    # (b) order in the directory initialiser
    apps = [g for g in prog.all_funcs() if g.name.endswith("Tiff::append")]
    if not apps:
        raise AnalysisBroken("Tiff::append not found")
    f = apps[0]

    from .. import congr as _congr

    def builder_ids(n, depth=0, pos=None):
        n = ir.strip(n)
        if not isinstance(n, dict) or depth > 8:
            return set()
        if n.get("k") == "ref":
            t = f.resolve_ref(n)
            return builder_ids(t, depth + 1, pos) if t is not None else set()
        if n.get("k") == "cond":
            return builder_ids(n.get("t"), depth + 1, pos) | builder_ids(n.get("f"), depth + 1, pos)
        if n.get("k") in ("construct", "cinit") and n.get("args"):
            out_ = set()
            for a_ in n["args"]:
                out_ |= builder_ids(a_, depth + 1, pos)
            return out_
        if n.get("k") == "var" and "p" not in n and pos is not None:
            # a tag built once (outside the frame loop) and kept in a local
            d_ = _congr.reaching_def(f, pos, n["id"])
            if d_ is None:
                for b_, i_, s2 in f.all_stmts():
                    if s2.get("k") == "decl" and s2["var"].get("id") == n["id"] and "init" in s2:
                        d_ = s2["init"]
            return builder_ids(d_, depth + 1, pos) if d_ is not None else set()
        if n.get("k") == "call":
            g = prog.resolve(n.get("fn"), f) if n.get("fn") else None
            if g is not None and g.name in ids:
                return set(ids[g.name])
        out = set()
        for y in ir.calls_in(n):
            g = prog.resolve(y.get("fn"), f) if y.get("fn") else None
            if g is not None and g.name in ids:
                out |= ids[g.name]
        return out
    tables = []
    for b, i, s_ in f.all_stmts():
        if s_.get("k") == "decl" and isinstance(s_.get("init"), dict) and s_["init"].get("k") == "init":
            for el in s_["init"].get("elts", []):
                v = el.get("v")
                if isinstance(v, dict) and v.get("k") == "init" and "tag_t" in str(v.get("t", "")):
                    tables.append((s_, [builder_ids(e.get("v"), 0, (b.id, i)) for e in v.get("elts", [])]))
    if not tables:
        raise AnalysisBroken("Tiff::append: the directory's tag table was not found")
    for s_, seq in tables:
        inst = "Tiff::append: directory entries in ascending tag order"
        flat = []
        probs = []
        for k, idset in enumerate(seq):
            if len(idset) != 1:
                probs.append("entry %d carries tag ids %s" % (k, sorted(idset) or "unknown"))
                flat.append(None)
            else:
                flat.append(list(idset)[0])
        known = [x for x in flat if x is not None]
        if any(a >= b for a, b in zip(known, known[1:])):
            probs.append("the order is %s" % known)
        if probs:
            res.fail(rule, inst, "%s|order" % rule, f.loc(s_),
                     "the directory written per frame is not a valid TIFF directory: %s (entries must have unique tags in ascending order)" % "; ".join(probs))
        else:
            res.oblige(rule, inst, True, "%d entries: %s" % (len(known), known), f.loc(s_))


def run(ctx, res):
    prog = ctx.program()
    res.extra["explanation"] = EXPLANATION
    res.assumptions += [
        "one thread drives a storage device at a time (HAL protocol)",
        "allocation failure is outside the fault model",
        "file_close completes; pwrite writes what it reports",
    ]
    run_storage_rules(prog, res, ("TIFF-FINALISE", "STOP-CLOSES", "FD-TYPESTATE", "STALE-CURSOR"), "FINALISE-SIM",
                      kinds=("tiff", "tiff-json"))
    sample_format_exhaustive(prog, res)
    header_constants(prog, res)
    append_iteration(prog, res)
    if format_literals(prog, res) < 1:
        raise AnalysisBroken("no format-string call sites found in tiff.cpp")
    from .. import adopt
    sets = [g for g in prog.all_funcs() if g.name.endswith("Tiff::set")]
    if not sets:
        raise AnalysisBroken("Tiff::set not found")
    for g in sets:
        adopt.rule_set_adopts(prog, res, g)
        res.guard(adopt.rule_set_adopts_all, prog, res, g)
    for g in prog.all_funcs():
        if g.name.split("::")[-1] == "side_by_side_tiff_set":
            res.guard(adopt.rule_set_adopts_all, prog, res, g)
    res.guard(tiff_layout, prog, res)
    res.guard(tag_table, prog, res)
    res.require_min("T-TAGS", 2)
    res.guard(metadata_file, prog, res)
    res.guard(string_section, prog, res)
    res.require_min("R-TIFF-LAYOUT", 18)
    res.require_min("R-SET-ADOPTS", 5)
    res.require_min("FINALISE-SIM", 2)
    res.require_min("T-EXH", 6)
    res.require_min("T-CONST", 2)
    from ..filecreate import rule_file_create
    res.guard(rule_file_create, prog, res, ("TRUNC",))
    res.require_min("R-CREATE", 1)
    res.require_min("R-FRAME-TAGS", 4)
