"""C15 — TIFF writers produce valid BigTIFF files that round-trip every frame.
Decided clauses (DESIGN.md 4/C15): finalisation typestate (the IFD chain is
terminated last and the file closed whenever the device leaves the running
state, for tiff and for the composite tiff-json), exhaustive sample-format
table, header/IFD constant agreement, iteration by the frame's size field, and
that every per-frame tag is computed from the frame being written."""
from .. import ir, paths, tables
from ..build import AnalysisBroken
from .c16 import run_storage_rules

EXPLANATION = (
    "Static analysis. (1) Typestate simulation of the tiff and tiff-json "
    "devices through the real HAL over all life-cycle sequences with failing "
    "file operations: whenever storage_stop takes the device out of the running "
    "state its file is closed, a file that received frames is closed only after "
    "the last write came from the IFD-chain terminator, and nothing is left open "
    "at destroy - for the top-level writer and for the inner writer driven by "
    "the composite device. (2) Table rules: sample_format's switch covers every "
    "SampleType below the sentinel explicitly; header().first_ifd equals "
    "sizeof(header_t); bits-per-sample comes from the shared bytes_of_type table. "
    "(3) Tiff::append advances by the current frame's bytes_of_frame only, and "
    "every tag argument that describes the frame reads the frame being written. "
    "File layout arithmetic (offsets inside the file, non-overlap, JSON text) is "
    "numeric and is not decided.")


def sample_format_exhaustive(prog, res):
    f = prog.func("sample_format")
    res.touched(f)
    want = tables.enum_below_sentinel(prog, "SampleType")
    if not want:
        raise AnalysisBroken("enum SampleType vanished")
    sws = [s for s in tables.switches(f) if s["enum"] == "SampleType"]
    if not sws:
        raise AnalysisBroken("sample_format no longer switches over SampleType")
    for sw in sws:
        for name, val in want:
            inst = "sample_format handles %s" % name
            if val in sw["cases"]:
                res.oblige("T-EXH", inst, True, "explicit case", "%s:%s" % (f.file, sw["line"]))
            else:
                res.fail("T-EXH", inst, "T-EXH|sample_format|%s" % name, "%s:%s" % (f.file, sw["line"]),
                         "sample_format has no case for %s: frames of that type are tagged with the 'unknown' sample format" % name)


def header_constants(prog, res):
    f = prog.func("header")
    res.touched(f)
    rec = prog.record("(anonymous namespace)::header_t") or prog.record("header_t")
    if rec is None:
        for k, r in prog.records.items():
            if k.endswith("header_t"):
                rec = r
    if rec is None:
        raise AnalysisBroken("record header_t vanished")
    found = False
    for b, i, s in f.all_stmts():
        for x in ir.walk(s):
            if x.get("k") == "init":
                for e in x.get("elts", []):
                    if e.get("f") == "first_ifd":
                        found = True
                        v = ir.strip(e["v"])
                        ok = ir.is_const(v) and v["v"] == rec["size"]
                        if ok:
                            res.oblige("T-CONST", "header().first_ifd == sizeof(header_t)", True,
                                       "both %d" % rec["size"], f.loc(s))
                        else:
                            res.fail("T-CONST", "header().first_ifd == sizeof(header_t)",
                                     "T-CONST|header|first_ifd", f.loc(s),
                                     "the header points the first IFD at %s but the header occupies %d bytes"
                                     % (ir.render(v), rec["size"]))
                    if e.get("f") == "sizeof_offset":
                        v = ir.strip(e["v"])
                        ok = ir.is_const(v, 8)
                        (res.oblige if ok else lambda *a, **k: res.fail("T-CONST", a[1], "T-CONST|header|sizeof_offset", a[4] if len(a) > 4 else "", "BigTIFF offsets are 8 bytes"))(
                            "T-CONST", "header().sizeof_offset == 8", ok, "BigTIFF offset size", f.loc(s))
    if not found:
        raise AnalysisBroken("header() no longer initialises first_ifd")
    # Tiff::start advances last_offset_ past the header it wrote
    st = prog.func("(anonymous namespace)::Tiff::start", required=False) or prog.func("Tiff::start")
    res.touched(st)
    ok = False
    for b, i, s in st.all_stmts():
        for lv, op, rhs, whole in ir.writes_of(s):
            if lv.get("k") == "mem" and lv["f"] == "last_offset_" and ir.is_const(rhs, rec["size"]):
                ok = True
    if ok:
        res.oblige("T-CONST", "Tiff::start: last_offset_ = sizeof(header)", True, "", st.loc())
    else:
        res.fail("T-CONST", "Tiff::start: last_offset_ = sizeof(header)", "T-CONST|start|last_offset", st.loc(),
                 "Tiff::start does not place the first IFD directly after the header")


def append_iteration(prog, res):
    """The frame cursor of Tiff::append advances by cur->bytes_of_frame; tag
    arguments read the frame being written."""
    f = prog.func("(anonymous namespace)::Tiff::append", required=False) or prog.func("Tiff::append")
    res.touched(f)
    lam = None
    for g in prog.all_funcs():
        if g.d.get("lambda") and g.name.startswith(f.name):
            lam = g
    if lam is None:
        raise AnalysisBroken("the frame-stepping lambda of Tiff::append vanished")
    res.touched(lam)
    steps = []
    for b, i, s in lam.all_stmts():
        for x in ir.walk(s):
            if x.get("k") == "bin" and x.get("op") == "+" and x.get("pd"):
                r = ir.strip(x["r"])
                if isinstance(r, dict) and r.get("k") == "mem":
                    steps.append((s, r))
    good = [r for s, r in steps if r["f"] == "bytes_of_frame"]
    if good and len(good) == len(steps):
        res.oblige("R-STEP", "Tiff::append steps by cur->bytes_of_frame", True,
                   "%d pointer advance(s), all by the size field" % len(steps), lam.loc())
    else:
        res.fail("R-STEP", "Tiff::append steps by cur->bytes_of_frame", "R-STEP|Tiff::append", lam.loc(),
                 "Tiff::append's frame iteration does not advance by the current frame's bytes_of_frame: %s"
                 % [ir.render(r) for s, r in steps])
    # per-frame tags read `cur`
    per_frame = {"image_width": "width", "image_length": "height", "rows_per_strip": "height",
                 "sample_format": "type", "strip_byte_counts": None}
    seen = 0
    # the frame cursor: the local VideoFrame pointer that is initialised from
    # the `frames` parameter and re-assigned from the stepping lambda
    frames_p = f.params[0]["id"] if f.params else None
    cursor = None
    for b, i, s in f.all_stmts():
        for lv, op, rhs, w in ir.writes_of(s):
            r0 = ir.strip(rhs)
            if lv.get("k") == "var" and lv.get("r") == "VideoFrame" and isinstance(r0, dict) and \
                    r0.get("k") == "var" and r0.get("id") == frames_p:
                cursor = lv
    if cursor is None:
        raise AnalysisBroken("Tiff::append: frame cursor (initialised from the frames parameter) not found")
    for b, i, s in f.all_stmts():
        for c in ir.calls_in(s):
            nm = (c.get("fn") or "").split("::")[-1]
            if nm in per_frame and per_frame[nm]:
                seen += 1
                arg = c["args"][0] if c.get("args") else None
                roots = [y for y in ir.walk(arg) if y.get("k") == "var"]
                fields = [y["f"] for y in ir.walk(arg) if y.get("k") == "mem"]
                ok = any(v["id"] == cursor["id"] for v in roots) and per_frame[nm] in fields
                inst = "Tiff::append: %s(<frame cursor>->...%s)" % (nm, per_frame[nm])
                if ok:
                    res.oblige("R-FRAME-TAGS", inst, True, ir.render(arg), f.loc(s))
                else:
                    res.fail("R-FRAME-TAGS", inst, "R-FRAME-TAGS|%s" % nm, f.loc(s),
                             "the %s tag is not computed from the %s of the frame being written (got %s)"
                             % (nm, per_frame[nm], ir.render(arg)))
    if seen < 4:
        raise AnalysisBroken("Tiff::append no longer builds the per-frame tags the rule knows (%d found)" % seen)


FORMAT_SINKS = {"vsnprintf": 2, "snprintf": 2, "vsprintf": 1, "sprintf": 1, "printf": 0, "vprintf": 0}


def format_literals(prog, res):
    """Description strings: whatever reaches the format parameter of the
    printf family in tiff.cpp is a string literal; frame ids, timestamps and the
    user's metadata are only ever passed as arguments."""
    R = "R-FMT-LITERAL"
    fns = [f for f in prog.all_funcs() if f.file.endswith("storage/tiff.cpp")]
    sinks = dict(FORMAT_SINKS)
    changed = True
    while changed:
        changed = False
        for f in fns:
            for b, i, s in f.all_stmts():
                for c in ir.calls_in(s):
                    k = sinks.get(c.get("fn"))
                    if k is None or k >= len(c.get("args", [])):
                        continue
                    a = ir.strip(c["args"][k])
                    if isinstance(a, dict) and a.get("k") == "var" and "p" in a and f.name not in sinks:
                        sinks[f.name] = a["p"]
                        changed = True
    n = 0
    for f in fns:
        for b, i, s in f.all_stmts():
            for c in ir.calls_in(s):
                k = sinks.get(c.get("fn"))
                if k is None or k >= len(c.get("args", [])):
                    continue
                a = ir.strip(c["args"][k])
                if isinstance(a, dict) and a.get("k") == "var" and "p" in a and sinks.get(f.name) == a["p"]:
                    continue  # forwarding its own format parameter
                n += 1
                res.touched(f)
                lit = isinstance(a, dict) and (a.get("k") == "str" or ir.is_const(a, 0))
                inst = "%s: format of %s is a literal" % (f.name.split("::")[-1], (c.get("fn") or "").split("::")[-1])
                if lit:
                    res.oblige(R, inst, True, "\"%s...\"" % a.get("v", "")[:30], f.loc(s))
                else:
                    res.fail(R, inst, "R-FMT-LITERAL|%s|%s" % (f.name, c.get("fn")), f.loc(s),
                             "%s passes a computed string (%s) as the printf format of %s: a '%%' in the user's metadata is interpreted as a conversion and corrupts (or crashes) the description"
                             % (f.name, ir.render(a), c.get("fn")))
    return n


def run(ctx, res):
    prog = ctx.program()
    res.extra["explanation"] = EXPLANATION
    res.assumptions += [
        "one thread drives a storage device at a time (HAL protocol)",
        "allocation failure is outside the fault model",
        "file_close completes; pwrite writes what it reports",
    ]
    run_storage_rules(prog, res, ("TIFF-FINALISE", "STOP-CLOSES", "FD-TYPESTATE"), "FINALISE-SIM",
                      kinds=("tiff", "tiff-json"))
    sample_format_exhaustive(prog, res)
    header_constants(prog, res)
    append_iteration(prog, res)
    if format_literals(prog, res) < 1:
        raise AnalysisBroken("no format-string call sites found in tiff.cpp")
    from .. import adopt
    sets = [g for g in prog.all_funcs() if g.name.endswith("Tiff::set")]
    if not sets:
        raise AnalysisBroken("Tiff::set not found")
    for g in sets:
        adopt.rule_set_adopts(prog, res, g)
    res.require_min("R-SET-ADOPTS", 1)
    res.require_min("FINALISE-SIM", 2)
    res.require_min("T-EXH", 6)
    res.require_min("T-CONST", 2)
    res.require_min("R-FRAME-TAGS", 4)
