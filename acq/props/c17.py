"""C17 — simulated cameras are memory-safe and honour the shape they report
(DESIGN.md 3.4/O-PROV, 4/C17)."""
from .. import ir, paths, tables, congr
from .. import lockrules as LR
from ..locks import LockAnalysis, obj_key
from ..build import AnalysisBroken

EXPLANATION = (
    "Static analysis of simulated.camera.c over clang CFGs. O-PROV: for the two "
    "heap buffers im.frame_data / im.render_data the shape object that sizes "
    "each (re)allocation and the shape object handed, together with the buffer, "
    "to every writer are classified by provenance (reported = im.shape, full = "
    "output of compute_full_resolution_shape_and_offset) and by extent function "
    "(aligned_bytes_of_image vs bytes_of_image); a writer needs an allocation of "
    "provenance >= its own and of an extent function >= its own. The rounding "
    "function is checked in the congruence domain (result = 0 mod 32, built as "
    "n + 31 shifted). GUARD-DOM: the copy into the caller's buffer is dominated "
    "by a size test on the same expression; the properties are stored only after "
    "the binning was normalised to >= 1 and tested to be a power of two. "
    "L-GUARDED: the buffers are reallocated under im.lock by set, which the HAL "
    "allows on a running camera, so every other use must hold im.lock or run "
    "with the streamer not alive. T-SIB: the advertised pixel-type mask equals "
    "the cases the pattern generator handles. Read-back: the clamped shape is "
    "stored into the properties on every path of set. In-bounds indexing inside "
    "bin2 / the pattern fill for all widths is numeric and not decided.")

REC = "SimulatedCamera"
BUFS = ("im.frame_data", "im.render_data")
EXPLANATION += (' R-SHAPE: strides are the running products of the dims and recomputed whenever dims are assigned; the full-resolution shape carries the pixel type; the binning loop halves counter, width and height together; close stops the streamer first. R-INDEX on the type tables.')



def shape_provenance(prog, f, arg):
    """Classify a `struct ImageShape*` argument inside f."""
    a = ir.strip(arg)
    if isinstance(a, dict) and a.get("k") == "addr":
        a = ir.strip(a["e"])
    if isinstance(a, dict) and a.get("k") == "var" and a.get("pd"):
        # pointer variable: look at its single definition
        d = congr.single_defs(f).get(a["id"])
        if d is not None:
            return shape_provenance(prog, f, d)
        if "p" in a:
            return "param"
    if isinstance(a, dict) and a.get("k") == "mem":
        k = obj_key(a)
        if k == (REC, "im.shape"):
            return "reported"
    if isinstance(a, dict) and a.get("k") == "var":
        # a local shape filled by compute_full_resolution_shape_and_offset
        for b, i, s in f.all_stmts():
            for c in ir.calls_in(s):
                if c.get("fn") == "compute_full_resolution_shape_and_offset" and len(c["args"]) > 1:
                    t = ir.strip(c["args"][1])
                    if t.get("k") == "addr" and ir.strip(t["e"]).get("k") == "var" and ir.strip(t["e"])["id"] == a["id"]:
                        return "full"
        if "p" in a:
            return "param"
    return "unknown"


RANK = {"reported": 1, "full": 2}
EXT_RANK = {"bytes_of_image": 1, "dims": 1, "aligned_bytes_of_image": 2}


def extent_of_size_expr(prog, f, n):
    """(extent function, provenance) of a byte-count expression."""
    # follow single-definition locals, without entering the extent functions
    defs = congr.single_defs(f)
    seen = set()
    st = [n]
    while st:
        e = st.pop()
        for x in ir.walk(e):
            if x.get("k") == "call" and x.get("fn") in ("aligned_bytes_of_image", "bytes_of_image"):
                return x["fn"], shape_provenance(prog, f, x["args"][0])
            if x.get("k") == "var" and x["id"] in defs and x["id"] not in seen:
                seen.add(x["id"])
                st.append(defs[x["id"]])
    return None, "unknown"


def writer_extent(prog, g):
    """Extent function a buffer-writing helper bounds its loop with."""
    for b, i, s in g.all_stmts():
        for c in ir.calls_in(s):
            if c.get("fn") == "aligned_bytes_of_image":
                return "aligned_bytes_of_image"
    for b, i, s in g.all_stmts():
        for c in ir.calls_in(s):
            if c.get("fn") == "bytes_of_image":
                return "bytes_of_image"
    return "dims"


def o_prov(prog, res):
    R = "O-PROV"
    fset = prog.func("simcam_set")
    res.touched(fset)
    allocs = {}
    for b, i, s in fset.all_stmts():
        for lv, op, rhs, w in ir.writes_of(s):
            k = obj_key(lv) if lv.get("k") == "mem" else None
            if k and k[0] == REC and k[1] in BUFS:
                rhs = congr.inline_expr(prog, fset, rhs, ptrs=True)
                for c in ir.calls_in(rhs):
                    if c.get("fn") in ("checked_realloc", "realloc", "malloc"):
                        size = c["args"][-1]
                        ext, prov = extent_of_size_expr(prog, fset, size)
                        allocs[k[1]] = (ext, prov, s)
    for bname in BUFS:
        if bname not in allocs:
            raise AnalysisBroken("simcam_set no longer (re)allocates %s" % bname)
    res.extra["allocations"] = {k: {"extent": v[0], "provenance": v[1]} for k, v in allocs.items()}
    # writers / readers that receive the buffer together with a shape or size
    n = 0
    for f in prog.all_funcs():
        if not f.file.endswith("simulated.camera.c"):
            continue
        for b, i, s in f.all_stmts():
            for c in ir.calls_in(s):
                name = c.get("fn")
                if not name or name in ("checked_realloc", "realloc", "free"):
                    continue
                bufargs = []
                for k, a in enumerate(c.get("args", [])):
                    key = obj_key(ir.strip(a)) if ir.strip(a).get("k") == "mem" else None
                    if key and key[0] == REC and key[1] in BUFS:
                        bufargs.append((k, key[1]))
                if not bufargs:
                    continue
                res.touched(f)
                for k, bname in bufargs:
                    n += 1
                    aext, aprov, astmt = allocs[bname]
                    # the shape/size that bounds this use
                    uext, uprov = None, "unknown"
                    g = prog.resolve(name, f)
                    for a in c["args"]:
                        a0 = ir.strip(a)
                        if isinstance(a0, dict) and (a0.get("r") == "ImageShape" and (a0.get("pd") or a0.get("k") == "addr")):
                            uprov = shape_provenance(prog, f, a)
                            uext = writer_extent(prog, g) if g is not None else "dims"
                        elif isinstance(a0, dict) and a0.get("k") == "addr" and ir.strip(a0["e"]).get("r") == "ImageShape":
                            uprov = shape_provenance(prog, f, a)
                            uext = writer_extent(prog, g) if g is not None else "dims"
                    if uext is None and name == "memcpy":
                        uext, uprov = extent_of_size_expr(prog, f, c["args"][2])
                    if uext is None and name == "bin2":
                        # width/height arguments: where do they come from?
                        defs = congr.single_defs(f)
                        provs = set()
                        for a in c["args"][1:]:
                            a0 = ir.strip(a)
                            d = defs.get(a0["id"]) if a0.get("k") == "var" else a0
                            # w, h are re-assigned in the loop; use any definition
                            for bb, ii, ss in f.all_stmts():
                                for lv, op, rhs, w in ir.writes_of(ss):
                                    if lv.get("k") == "var" and a0.get("k") == "var" and lv["id"] == a0["id"] and op == "=":
                                        for y in ir.walk(rhs):
                                            if y.get("k") == "mem" and y["f"] in ("width", "height"):
                                                root, ch = ir.field_chain(y)
                                                provs.add(shape_provenance(prog, f, {"k": "addr", "e": root}) if root.get("k") == "var" else "unknown")
                        uprov = provs.pop() if len(provs) == 1 else "unknown"
                        uext = "dims"
                    inst = "%s: %s(%s) bounded by %s/%s" % (f.name, name, bname, uext, uprov)
                    if uprov in ("unknown", "param") or uext is None:
                        res.fail(R, inst, "O-PROV|%s|%s|%s|unknown" % (f.name, name, bname), f.loc(s),
                                 "cannot determine which shape bounds the access of %s by %s in %s" % (bname, name, f.name))
                        continue
                    ok = RANK.get(aprov, 0) >= RANK.get(uprov, 9) and EXT_RANK.get(aext, 0) >= EXT_RANK.get(uext, 9)
                    if ok:
                        res.oblige(R, inst, True, "allocation sized by %s of the %s shape" % (aext, aprov), f.loc(s))
                    else:
                        res.fail(R, inst, "O-PROV|%s|%s|%s" % (f.name, name, bname), f.loc(s),
                                 "%s passes %s to %s, which writes %s of the %s-resolution shape, but simcam_set sized that buffer with %s of the %s shape: the access runs past the allocation"
                                 % (f.name, bname, name, uext, uprov, aext, aprov))
    # binning >= 1 makes full >= reported: checked by GUARD-DOM below
    return n


def realloc_covers(prog, res):
    """Every successful path of set that stores new properties (binning and
    shape) also re-sizes both buffers: an early-out that keeps the old buffers
    keeps a size computed for the old binning."""
    g = prog.func("simcam_set")
    stores = [(b.id, i, s) for b, i, s in g.all_stmts() for lv, op, rhs, w in ir.writes_of(s)
              if lv.get("k") == "mem" and obj_key(lv) == (REC, "properties")]
    if not stores:
        raise AnalysisBroken("simcam_set no longer stores the properties")

    def to_error(blk, succ):
        t = succ.get("to")
        return t is not None and g.blocks[t].label == "Error"
    for bid, i, s in stores:
        for bname in BUFS:
            def resizes(ss, bname=bname):
                for lv, op, rhs, w in ir.writes_of(ss):
                    if lv.get("k") == "mem" and obj_key(lv) == (REC, bname) and \
                            any(c.get("fn") in ("checked_realloc", "realloc", "malloc")
                                for c in ir.calls_in(congr.inline_expr(prog, g, rhs, ptrs=True))):
                        return True
                return False
            ok, w = paths.all_paths_pass(g, (bid, i), "exit", resizes, edge_ok=to_error)
            inst = "simcam_set: %s re-sized on every successful path that stores new properties" % bname
            if ok:
                res.oblige("R-REALLOC-COVERS", inst, True, "", g.loc(s))
            else:
                res.fail("R-REALLOC-COVERS", inst, "R-REALLOC-COVERS|simcam_set|%s" % bname, g.loc(s),
                         "simcam_set can store new properties (binning, shape, pixel type) and return success without re-sizing %s: the buffer keeps the size computed for the previous configuration while the streamer renders the new one"
                         % bname, {"path_blocks": w})


def rounding_function(prog, res):
    g = prog.func("aligned_bytes_of_image")
    res.touched(g)
    rets = [s for b, i, s in g.all_stmts() if s.get("k") == "ret"]
    if len(rets) != 1:
        raise AnalysisBroken("aligned_bytes_of_image: expected one return")
    e = rets[0]["e"]
    defs = congr.single_defs(g)
    cg = congr.congruence(e, defs)
    up = False
    for x in ir.walk(e):
        if x.get("k") == "bin" and x["op"] == "+" and ir.is_const(x["r"]) and cg[0] and ir.strip(x["r"])["v"] == cg[0] - 1:
            up = True
    uses_plain = any(c.get("fn") == "bytes_of_image" for b, i, s in g.all_stmts() for c in ir.calls_in(s))
    inst = "aligned_bytes_of_image rounds bytes_of_image up to a multiple of 32"
    if cg[0] and cg[0] % 32 == 0 and cg[1] == 0 and up and uses_plain:
        res.oblige("T-CONGR", inst, True, "congruence %s, adds %d before truncating" % (cg, cg[0] - 1), g.loc())
    else:
        res.fail("T-CONGR", inst, "T-CONGR|aligned_bytes_of_image", g.loc(),
                 "aligned_bytes_of_image is not bytes_of_image rounded UP to a multiple of 32 (congruence %s, round-up %s): im_fill_rand writes whole 32-byte groups past the buffer"
                 % (cg, up))
    h = prog.func("im_fill_rand")
    res.touched(h)


def guards(prog, res):
    R = "GUARD-DOM"
    f = prog.func("simcam_get_frame")
    res.touched(f)
    for b, i, s in f.all_stmts():
        for c in ir.calls_in(s):
            if c.get("fn") != "memcpy":
                continue
            size = ir.render(ir.strip(c["args"][2]))
            dstbuf = ir.ap(c["args"][0])

            def size_test(cn, lab, blk, size=size):
                c0 = ir.strip(cn)
                neg = False
                while isinstance(c0, dict) and c0.get("k") == "un" and c0.get("op") == "!":
                    neg = not neg
                    c0 = ir.strip(c0["e"])
                if isinstance(c0, dict) and c0.get("k") == "bin" and c0["op"] in (">=", ">") and ir.render(ir.strip(c0["r"])) == size:
                    return lab == ("false" if neg else "true")
                if isinstance(c0, dict) and c0.get("k") == "bin" and c0["op"] in ("<=", "<") and ir.render(ir.strip(c0["l"])) == size:
                    return lab == ("false" if neg else "true")
                return False
            dom, _ = paths.edge_dominated(f, (b.id, i), size_test)
            inst = "simcam_get_frame: copy of %s into the caller's buffer guarded by its size" % size
            if dom:
                res.oblige(R, inst, True, "dominated by *nbytes >= %s" % size, f.loc(s))
            else:
                res.fail(R, inst, "GUARD-DOM|simcam_get_frame|memcpy", f.loc(s),
                         "simcam_get_frame copies %s bytes into the caller's buffer without having compared the caller's size with that same byte count" % size)
    g = prog.func("simcam_set")
    stores = [(b.id, i, s) for b, i, s in g.all_stmts() for lv, op, rhs, w in ir.writes_of(s)
              if lv.get("k") == "mem" and obj_key(lv) == (REC, "properties")]
    if not stores:
        raise AnalysisBroken("simcam_set no longer stores the properties")
    for bid, i, s in stores:
        def pow2(cn, lab, blk):
            c0 = ir.strip(cn)
            if isinstance(c0, dict) and c0.get("k") == "bin" and c0["op"] in ("!=", "==") and ir.is_const(c0["r"], 1) and \
                    any(cc.get("fn") == "popcount_u8" for cc in ir.calls_in(c0["l"])):
                return lab == ("false" if c0["op"] == "!=" else "true")
            return False
        dom, _ = paths.edge_dominated(g, (bid, i), pow2)
        inst = "simcam_set: properties stored only for a power-of-two binning"
        if dom:
            res.oblige(R, inst, True, "dominated by popcount_u8(binning) == 1 (hence binning >= 1)", g.loc(s))
        else:
            res.fail(R, inst, "GUARD-DOM|simcam_set|binning", g.loc(s),
                     "simcam_set can store a binning factor that is zero or not a power of two: the full-resolution shape is then smaller than (or unrelated to) the reported one")
    # the pixel type is one the size computation knows: bytes_of_type() answers 0 for a value outside the
    # enumeration, the buffer size becomes 0, realloc(p, 0) releases p and returns NULL, and the allocation
    # wrapper's failure branch frees p a second time
    for bid, i, s in stores:
        def known_type(cn, lab, blk):
            if lab not in ("true", "false"):
                return False
            c0 = ir.strip(congr.resolve_at(prog, g, (blk.id, blk.cond if blk.cond is not None else len(blk.stmts)), cn))
            neg = False
            while isinstance(c0, dict) and c0.get("k") == "un" and c0.get("op") == "!":
                neg = not neg
                c0 = ir.strip(c0["e"])
            if not isinstance(c0, dict):
                return False
            mentions = lambda e: any(isinstance(y, dict) and y.get("k") == "mem" and y.get("f") == "pixel_type" for y in ir.walk(e))
            nz = None    # label on which the type is known
            if c0.get("k") == "bin" and c0["op"] in ("==", "!=") and ir.is_const(c0["r"], 0):
                inner = ir.strip(c0["l"])
                if c0["op"] == "==":
                    neg = not neg
                c0 = inner
            if c0.get("k") == "call" and c0.get("fn") == "bytes_of_type" and mentions(c0):
                nz = "true"
            elif c0.get("k") == "bin" and c0["op"] == "&" and mentions(c0):
                nz = "true"
            elif c0.get("k") == "bin" and c0["op"] in ("<", "<=") and mentions(c0["l"]) and ir.is_const(c0["r"]):
                nz = "true"
            elif c0.get("k") == "bin" and c0["op"] in (">=", ">") and mentions(c0["l"]) and ir.is_const(c0["r"]):
                nz = "false"
            if nz is None:
                return False
            if neg:
                nz = "false" if nz == "true" else "true"
            return lab == nz
        dom, _ = paths.edge_dominated(g, (bid, i), known_type)
        inst = "simcam_set: properties stored only for a pixel type with a known size"
        if dom:
            res.oblige(R, inst, True, "dominated by a test of the requested pixel type", g.loc(s))
        else:
            res.fail(R, inst, "GUARD-DOM|simcam_set|pixel_type", g.loc(s),
                     "simcam_set stores and sizes its buffers for any pixel type value: for one outside the enumeration bytes_of_type() is 0, the buffer size is 0, "
                     "realloc(p, 0) releases the buffer and returns NULL, and checked_realloc's failure branch frees it again (double free); the rejected value also stays in properties")
    # read-back: clamped shape stored on every path after the struct copy
    for bid, i, s in stores:
        def shape_store(ss):
            return any(lv.get("k") == "mem" and obj_key(lv) == (REC, "properties.shape") for lv, op, rhs, w in ir.writes_of(ss))
        ok, w = paths.all_paths_pass(g, (bid, i), "exit", shape_store)
        inst = "simcam_set: clamped shape written back to properties.shape"
        if ok:
            res.oblige("R-READBACK", inst, True, "on every path after the settings are copied in", g.loc(s))
        else:
            res.fail("R-READBACK", inst, "R-READBACK|simcam_set|shape", g.loc(s),
                     "simcam_set can return with properties.shape still holding the requested (unclamped) shape: get reports values that are not in effect")
    # the value written back is the clamped im.shape
    for b, i, s in g.all_stmts():
        for lv, op, rhs, w in ir.writes_of(s):
            if lv.get("k") == "mem" and obj_key(lv) == (REC, "properties.shape") and isinstance(rhs, dict) and rhs.get("k") == "init":
                flds = {e["f"]: e["v"] for e in rhs.get("elts", []) if "f" in e}
                okx = ir.ap(flds.get("x")) in ("shape->dims.width", "self->im.shape.dims.width")
                oky = ir.ap(flds.get("y")) in ("shape->dims.height", "self->im.shape.dims.height")
                inst = "simcam_set: properties.shape = (im.shape width, height)"
                if okx and oky:
                    res.oblige("R-READBACK", inst, True, "", g.loc(s))
                else:
                    res.fail("R-READBACK", inst, "R-READBACK|simcam_set|values", g.loc(s),
                             "properties.shape is written back from %s / %s, not from the clamped image shape"
                             % (ir.render(flds.get("x")), ir.render(flds.get("y"))))


def pixel_type_mask(prog, res):
    f = prog.func("simcam_get_meta")
    g = prog.func("im_fill_pattern")
    res.touched(f, g)
    mask = None
    for b, i, s in f.all_stmts():
        for x in ir.walk(s):
            if x.get("k") == "init":
                for e in x.get("elts", []):
                    if e.get("f") == "supported_pixel_types" and ir.is_const(e.get("v")):
                        mask = ir.strip(e["v"])["v"]
    if mask is None:
        raise AnalysisBroken("supported_pixel_types is no longer a constant in simcam_get_meta")
    sws = [s for s in tables.switches(g) if s["enum"] == "SampleType"]
    if not sws:
        raise AnalysisBroken("im_fill_pattern no longer switches over SampleType")
    handled = 0
    for v in sws[0]["cases"]:
        handled |= 1 << v
    inst = "supported_pixel_types mask == cases of im_fill_pattern"
    if mask == handled:
        res.oblige("T-SIB", inst, True, "mask %#x" % mask, f.loc())
    else:
        names = dict((v, n) for n, v in prog.enum_values("SampleType"))
        extra = [names.get(i) for i in range(16) if (mask >> i) & 1 and not (handled >> i) & 1]
        missing = [names.get(i) for i in range(16) if (handled >> i) & 1 and not (mask >> i) & 1]
        res.fail("T-SIB", inst, "T-SIB|supported_pixel_types", f.loc(),
                 "the camera advertises pixel types the pattern generator does not render (%s) or hides ones it does (%s)" % (extra, missing))


def buffers_guarded(prog, res):
    la = LockAnalysis(prog)
    lock = (REC, "im.lock")

    def extra(f, a):
        # after the streamer was joined in the same function
        joins = paths.calls_to(prog, f, {"thread_join"})
        if joins or any(prog.reaches(prog.resolve(n, f), {"thread_join"}) for n in prog.direct_callees(f)
                        if prog.resolve(n, f) is not None):
            def joined(s):
                return paths.stmt_reaches(prog, f, s, {"thread_join"})
            ok, _ = paths.all_paths_pass(f, "entry", {(a.block, a.idx)}, joined)
            if ok:
                return "runs after the streamer thread was joined"
        return None
    n = LR.rule_l_guarded(la, res, lock, ["im.frame_data", "im.render_data"], extra_exempt=extra)
    return n


def shape_rules(prog, res, rule="R-SHAPE"):
    """After mutation analysis of simulated.camera.c:
    * compute_strides: strides[0] = 1 and strides[i] = strides[i-1] * dims[i-1]
      for i = 1..3 (index forms by the linear domain, loop canonical);
    * every function that assigns the dims of an ImageShape and reports it
      recomputes the strides afterwards (compute_strides on every path from the
      dims store to the exit);
    * the in-place binning loop halves b, w and h together on every iteration
      and hands the current (w, h) to bin2;
    * simcam_close_camera stops the streamer before it frees the buffers."""
    from .. import linear as L
    f = prog.func("compute_strides")
    res.touched(f)
    loops = paths.natural_loops(f)
    problems = []
    an = L.Analysis(prog)
    an.inline = False
    st0 = L.State()
    idx_stores = [(bb.id, lv, op, rhs) for bb, i, st_ in f.all_stmts() for lv, op, rhs, w in ir.writes_of(st_)
                  if ir.strip(lv).get("k") == "idx" and op == "="]

    def product_form(l0, rhs):
        """rhs == strides[k-1] * dims[k-1] for the store strides[k] (k as a linear form)"""
        r0 = ir.strip(rhs)
        if not (isinstance(r0, dict) and r0.get("k") == "bin" and r0.get("op") == "*"):
            return False
        iv = an.eval(f, l0["i"], st0)[0][0]
        a, c = ir.strip(r0["l"]), ir.strip(r0["r"])

        def idx_is(x, delta):
            return isinstance(x, dict) and x.get("k") == "idx" and L.lsub(an.eval(f, x["i"], st0)[0][0], iv) == L.lconst(delta)
        same = lambda x: ir.render(ir.strip(x["b"])) == ir.render(ir.strip(l0["b"]))
        for x, y in ((a, c), (c, a)):
            if idx_is(x, -1) and idx_is(y, -1) and same(x) and not same(y):
                return True
        return False
    if len(loops) == 1:
        head, body = loops[0]
        problems += L.counted_loop_problems(prog, f, head, body, lambda an_, s_: L.lconst(4), start=1)
        pre_ok = any(bid not in body and ir.is_const(ir.strip(lv)["i"], 0) and ir.is_const(rhs, 1) for bid, lv, op, rhs in idx_stores)
        body_ok = any(bid in body and product_form(ir.strip(lv), rhs) for bid, lv, op, rhs in idx_stores)
    elif not loops:
        # unrolled: one store per element
        by_k = {}
        for bid, lv, op, rhs in idx_stores:
            l0 = ir.strip(lv)
            if ir.is_const(l0["i"]):
                by_k[ir.strip(l0["i"])["v"]] = (l0, rhs)
        pre_ok = 0 in by_k and ir.is_const(by_k[0][1], 1)
        body_ok = all(k in by_k and product_form(*by_k[k]) for k in (1, 2, 3)) and set(by_k) <= {0, 1, 2, 3}
    else:
        raise AnalysisBroken("compute_strides: unexpected loop structure")
    if not pre_ok:
        problems.append("strides[0] is not set to 1")
    if not body_ok:
        problems.append("strides[i] is not strides[i-1] * dims[i-1] for i = 1..3")
    inst = "compute_strides: strides[0] = 1, strides[i] = strides[i-1] * dims[i-1] for i = 1..3"
    if problems:
        res.fail(rule, inst, "%s|compute_strides" % rule, f.loc(),
                 "compute_strides: %s: the strides reported with a shape do not match its dimensions (or are written out of bounds)" % "; ".join(sorted(set(problems))))
    else:
        res.oblige(rule, inst, True, "", f.loc())
    # dims assigned => strides recomputed
    for g in prog.all_funcs():
        if not g.file.endswith("simulated.camera.c") or not g.blocks or g.name == "compute_strides":
            continue
        for b, i, st_ in g.all_stmts():
            for lv, op, rhs, w in ir.writes_of(st_):
                p_ = ir.ap(lv) or ""
                if p_.endswith("->dims") or p_.endswith(".dims"):
                    ok, wit = paths.all_paths_pass(g, (b.id, i), "exit",
                                                   paths.through_callees(prog, g, lambda q: any(c.get("fn") == "compute_strides" for c in ir.calls_in(q))))
                    res.touched(g)
                    inst = "%s: strides are recomputed after %s is assigned" % (g.name, p_)
                    if ok:
                        res.oblige(rule, inst, True, "", g.loc(st_))
                    else:
                        res.fail(rule, inst, "%s|%s|strides-after-dims" % (rule, g.name), g.loc(st_),
                                 "%s assigns %s and can return without compute_strides: the shape is reported with the strides of the previous dimensions" % (g.name, p_))
    # the full-resolution shape carries the pixel type of the reported shape
    cf = prog.func("compute_full_resolution_shape_and_offset")
    res.touched(cf)
    shp = [p for p in cf.params if p.get("r") == "ImageShape" and p.get("pd")]
    okt = bool(shp) and paths.all_paths_pass(cf, "entry", "exit", lambda q: any(
        lv.get("k") == "mem" and lv.get("f") == "type" and isinstance(ir.strip(lv["b"]), dict) and ir.strip(lv["b"]).get("id") == shp[0]["id"] and
        isinstance(rhs, dict) and any(y.get("k") == "mem" and y.get("f") in ("type", "pixel_type") for y in ir.walk(rhs))
        for lv, op, rhs, w in ir.writes_of(q)))[0]
    inst = "compute_full_resolution_shape_and_offset sets the pixel type of the full-resolution shape"
    if okt:
        res.oblige(rule, inst, True, "", cf.loc())
    else:
        res.fail(rule, inst, "%s|compute_full|type" % rule, cf.loc(),
                 "the full-resolution shape that sizes both buffers is left without the camera's pixel type: the buffers are sized for 1-byte pixels while wider ones are rendered")
    # binning loop
    st = prog.func("simulated_camera_streamer_thread")
    res.touched(st)
    binc = [(b.id, i, c) for b, i, s_ in st.all_stmts() for c in ir.calls_in(s_) if c.get("fn") == "bin2"]
    if not binc:
        raise AnalysisBroken("the streamer no longer bins in place (bin2)")
    for bid, i, c in binc:
        loop = paths.innermost_loop(st, bid)
        heads = [h for h, bd in paths.natural_loops(st) if loop and bd == loop]
        problems = []
        if not heads:
            problems.append("bin2 is not called in a loop")
        else:
            hd = heads[0]
            cn = st.blocks[hd].cond_node()
            cvars = {y["id"] for y in ir.walk(cn) if isinstance(y, dict) and y.get("k") == "var"} if cn is not None else set()
            dims = [ir.strip(a) for a in c["args"][1:3]]
            ids = [d_["id"] for d_ in dims if isinstance(d_, dict) and d_.get("k") == "var"]
            if len(ids) != 2:
                problems.append("bin2 is not given the loop's current width and height")
            for vid, what in [(v, "the loop counter") for v in cvars] + [(v, "a dimension passed to bin2") for v in ids]:
                def halves(q, vid=vid):
                    for lv, op, rhs, w in ir.writes_of(q):
                        if lv.get("k") == "var" and lv["id"] == vid and (op == ">>=" and ir.is_const(rhs, 1) or
                                                                       op == "/=" and ir.is_const(rhs, 2)):
                            return True
                    return False
                dst = {(hd, 0)} if st.blocks[hd].stmts else {(hd, -1)}
                ok, wit = paths.all_paths_pass(st, (bid, i), dst, halves)
                if not ok:
                    problems.append("%s is not halved on every iteration" % what)
        inst = "streamer: the binning loop halves its counter, width and height together"
        if problems:
            res.fail(rule, inst, "%s|streamer|bin-loop" % rule, st.loc(),
                     "the in-place binning loop: %s: bin2 runs with the wrong extent or the loop does not end" % "; ".join(sorted(set(problems))))
        else:
            res.oblige(rule, inst, True, "", st.loc())
    # close stops first
    cl = prog.func("simcam_close_camera")
    res.touched(cl)
    frees = {(b.id, i) for b, i, s_ in cl.all_stmts() if any(c.get("fn") == "free" for c in ir.calls_in(s_))}
    ok = bool(frees) and paths.all_paths_pass(cl, "entry", frees, paths.through_callees(prog, cl, lambda q: any(c.get("fn") == "simcam_stop" for c in ir.calls_in(q))))[0]
    inst = "simcam_close_camera stops the streamer before releasing the buffers"
    if ok:
        res.oblige(rule, inst, True, "", cl.loc())
    else:
        res.fail(rule, inst, "%s|simcam_close_camera|stop-first" % rule, cl.loc(),
                 "simcam_close_camera can free the image buffers while the streamer thread is still rendering into them")


def rule_bin2_pitch(prog, res, rule="R-BIN2-PITCH"):
    """The vectorised 2x2 binning kernel addresses the image as rows of blocks:
    element (row y, block x) is block x + y * PITCH.  Rows are packed at w
    bytes (that is how the renderer wrote them and how the buffer was sized), so
    PITCH blocks may not be longer than a row:  blocksize * PITCH <= w  for every
    w.  Decided with a linear upper bound of PITCH's defining expression
    (floor(w / c) <= w / c; a round-up pitch comes out as w + c - 1).  A necessary
    condition of in-bounds access (with a longer pitch row h-1 ends past the
    buffer for large h); the full in-bounds proof of the kernel is not decided."""
    import re
    from fractions import Fraction as Fr
    from .. import congr
    fs = [g for g in prog.all_funcs() if g.name == "bin2" and g.blocks]
    if not fs:
        raise AnalysisBroken("bin2 not found")
    n = 0
    for f in fs:
        res.touched(f)
        ints = [p_ for p_ in f.params if not p_.get("pd") and "int" in p_.get("t", "")]
        if len(ints) < 2:
            raise AnalysisBroken("bin2(im, w, h): parameters not found")
        wname = ints[0]["n"]
        loops = paths.natural_loops(f)
        loopvars = set()
        for head, body in loops:
            c = f.blocks[head].cond_node()
            for y in (ir.walk(c) if c is not None else []):
                if isinstance(y, dict) and y.get("k") == "var" and not y.get("p"):
                    loopvars.add(y["id"])
        # products  <loop index> * PITCH  inside indices of block pointers
        pitches = {}
        for b, i, s_ in f.all_stmts():
            for y in ir.walk(s_):
                if not (isinstance(y, dict) and y.get("k") == "bin" and y.get("op") == "*"):
                    continue
                l, r = ir.strip(y["l"]), ir.strip(y["r"])
                for a_, o in ((l, r), (r, l)):
                    has_loopvar = any(isinstance(z, dict) and z.get("k") == "var" and z.get("id") in loopvars for z in ir.walk(a_))
                    if has_loopvar and isinstance(o, dict) and o.get("k") == "var" and o.get("id") not in loopvars and not o.get("pd"):
                        pitches[o["id"]] = o
        if not pitches:
            res.notes.append("R-BIN2-PITCH: %s (%s) has no row-of-blocks indexing (no <loop index> * pitch product)" % (f.name, f.file))
            continue
        # block size from the element type of the pointers that are indexed
        bs = None
        for b, i, s_ in f.all_stmts():
            for y in ir.walk(s_):
                if isinstance(y, dict) and y.get("k") == "idx":
                    t = ir.strip(y["b"]).get("t", "") if isinstance(ir.strip(y["b"]), dict) else ""
                    m = re.search(r"__vector_size__\((\d+)(?: \* sizeof\(([a-z ]+)\))?\)", t)
                    if m:
                        unit = {"long long": 8, "long": 8, "int": 4, "short": 2, "char": 1, "float": 4, "double": 8}.get((m.group(2) or "char").strip(), 1) if m.group(2) else 1
                        bs = int(m.group(1)) * unit
        if bs is None:
            raise AnalysisBroken("bin2: block size of the vector type not recognised")
        for vid, v in sorted(pitches.items()):
            n += 1
            pos = None
            for b, i, s_ in f.all_stmts():
                if s_.get("k") == "decl" and s_["var"].get("id") == vid and "init" in s_:
                    pos = s_
            inst = "%s: %d-byte blocks, row pitch %s: %d * %s <= %s" % (f.name, bs, v["n"], bs, v["n"], wname)
            if pos is None:
                res.fail(rule, inst, "%s|bin2|pitch-undefined" % rule, f.loc(), "the row pitch %s of bin2 has no single defining expression" % v["n"])
                continue
            ub = congr.upper_bound(pos["init"])
            if ub is None:
                raise AnalysisBroken("bin2: no linear upper bound for the row pitch %s = %s" % (v["n"], ir.render(pos["init"])))
            ok = ub is not None and set(ub[0]) <= {wname} and ub[0].get(wname, Fr(0)) * bs <= 1 and ub[1] * bs <= 0
            if ok:
                res.oblige(rule, inst, True, "%s = %s is at most %s / %d" % (v["n"], ir.render(pos["init"]), wname, bs), f.loc(pos))
            else:
                shown = "unknown" if ub is None else " + ".join(["%s*%s" % (c_ * bs, a_) for a_, c_ in ub[0].items()] + [str(ub[1] * bs)])
                res.fail(rule, inst, "%s|bin2|pitch" % rule, f.loc(pos),
                         "bin2 steps from one image row to the next by %s = %s blocks of %d bytes; the best upper bound of that pitch in bytes is %s, which is not <= %s: "
                         "rows are packed at %s bytes, so for widths that are not a multiple of %d the kernel reads and writes past the end of the render buffer"
                         % (v["n"], ir.render(pos["init"]), bs, shown, wname, wname, bs))
    return n


def rule_clamp_fresh(prog, res, la, rule="R-CLAMP-FRESH"):
    """simcam_set clamps the requested shape against limits that depend on the settings themselves (the
    sensor size divided by the binning): a helper whose summary reads the camera's stored properties and
    whose result (an out-parameter local) is used afterwards must run after the new settings were adopted
    (self->properties = *settings) on every path, otherwise the limits are those of the PREVIOUS
    configuration and the reported shape exceeds (or needlessly shrinks below) what the new one allows."""
    f = prog.func("simcam_set")
    res.touched(f)
    sp = [p_ for p_ in f.params if p_.get("r") == "CameraProperties" and p_.get("pd")]
    if not sp:
        raise AnalysisBroken("simcam_set: settings parameter not found")
    sp = sp[0]

    def adopts(s_):
        for lv, op, rhs, w in ir.writes_of(s_):
            p_ = ir.ap(lv) or ""
            if op == "=" and p_.endswith("->properties") and isinstance(rhs, dict) and \
                    any(isinstance(y, dict) and y.get("k") == "var" and y.get("id") == sp["id"] for y in ir.walk(rhs)):
                return True
        return False
    n = 0
    for b, i, s_ in f.all_stmts():
        for c in ir.calls_in(s_):
            g = prog.resolve(c.get("fn"), f) if c.get("fn") else None
            if g is None or not g.blocks:
                continue
            outs = [ir.strip(a) for a in c.get("args", []) if isinstance(ir.strip(a), dict) and ir.strip(a).get("k") == "addr"
                    and ir.strip(ir.strip(a)["e"]).get("k") == "var" and "p" not in ir.strip(ir.strip(a)["e"])]
            if not outs:
                continue
            reads_props = sorted(k[1] for (k, m) in la.effects(g) if m == "r" and k[0] == "SimulatedCamera" and str(k[1]).startswith("properties"))
            if not reads_props:
                continue
            n += 1
            ok, w = paths.all_paths_pass(f, "entry", {(b.id, i)}, adopts)
            inst = "simcam_set: %s (reads %s) runs on the adopted settings" % (g.name, ", ".join(reads_props[:3]))
            if ok:
                res.oblige(rule, inst, True, "self->properties = *settings on every path before the call", f.loc(s_))
            else:
                res.fail(rule, inst, "%s|simcam_set|%s" % (rule, g.name), f.loc(s_),
                         "simcam_set calls %s, which derives its result from the camera's stored %s, before the new settings are stored: the requested shape is clamped against the limits "
                         "of the previous configuration (a larger binning than before yields a region beyond the sensor; a smaller one is shrunk for no reason)"
                         % (g.name, ", ".join(reads_props[:3])), {"path_blocks": w})
    if n == 0:
        raise AnalysisBroken("simcam_set no longer derives limits from a helper that reads the stored properties")
    return n


def rule_vec_align(prog, res, rule="R-VEC-ALIGN"):
    """The vectorised kernel reads and writes the image through pointers to a vector
    type; an access through such a pointer assumes the alignment of the pointee type
    (32 for __m256i - the compiler emits aligned moves -, 1 for the unaligned variant
    __m256i_u).  The buffers it is given come from the allocator the camera uses
    (realloc / malloc: aligned to 16 bytes; aligned_alloc(N): N).  Every vector-typed
    pointer variable and cast in the kernel must assume no more than the allocator
    guarantees, otherwise the first access faults on a buffer that happens to sit at
    an address that is 16 mod 32."""
    fs = [g for g in prog.all_funcs() if g.name == "bin2" and g.blocks]
    if not fs:
        raise AnalysisBroken("bin2 not found")
    # what the allocator of the image buffers guarantees
    guarantee = None
    alloc_fn = None
    for g in prog.all_funcs():
        if not g.file.endswith("simulated.camera.c") or not g.blocks:
            continue
        for b, i, s_ in g.all_stmts():
            for lv, op, rhs, w in ir.writes_of(s_):
                p_ = ir.ap(lv) or ""
                if p_.endswith("render_data") or p_.endswith("frame_data"):
                    rhs_ = congr.inline_expr(prog, g, rhs, ptrs=True) if isinstance(rhs, dict) else None   # through locals
                    top_ = ir.strip(rhs_) if isinstance(rhs_, dict) else None
                    while isinstance(top_, dict) and top_.get("k") in ("cast", "paren"):
                        top_ = ir.strip(top_["e"])
                    if isinstance(top_, dict) and top_.get("k") == "asg":
                        top_ = ir.strip(top_.get("r"))
                    if isinstance(top_, dict) and top_.get("k") == "call" and top_.get("fn"):
                        alloc_fn = top_["fn"]       # the call whose result is stored, not a call among its arguments
    def guarantee_of(name, depth=0):
        if name in ("malloc", "realloc", "calloc"):
            return 16
        if name in ("aligned_alloc", "memalign"):
            return None
        g = prog.func(name, required=False) if name else None
        if g is None or not g.blocks or depth > 3:
            return None
        vals = []
        for b, i, s_ in g.all_stmts():
            for c in ir.calls_in(s_):
                if c.get("fn") in ("aligned_alloc", "memalign") and c.get("args") and ir.is_const(c["args"][0]):
                    vals.append(ir.strip(c["args"][0])["v"])
                elif c.get("fn") == "posix_memalign" and len(c.get("args", [])) > 1 and ir.is_const(c["args"][1]):
                    vals.append(ir.strip(c["args"][1])["v"])
                else:
                    v = guarantee_of(c.get("fn"), depth + 1) if c.get("fn") in ("malloc", "realloc", "calloc") or (c.get("fn") and prog.func(c.get("fn"), required=False) is not None and c.get("fn") != name) else None
                    if v:
                        vals.append(v)
        return min(vals) if vals else None
    guarantee = guarantee_of(alloc_fn) if alloc_fn else None
    if guarantee is None:
        raise AnalysisBroken("the allocator of the simulated camera's image buffers was not recognised (%s)" % alloc_fn)
    n = 0
    for f in fs:
        res.touched(f)
        worst = None
        for b, i, s_ in f.all_stmts():
            for y in ir.walk(s_):
                if isinstance(y, dict) and y.get("vec_size") and y.get("k") in ("var", "cast"):
                    if worst is None or y.get("vec_align", 0) > worst[0]:
                        worst = (y.get("vec_align", 0), y, s_)
            if s_.get("k") == "decl" and isinstance(s_.get("var"), dict) and s_["var"].get("vec_size"):
                y = s_["var"]
                if worst is None or y.get("vec_align", 0) > worst[0]:
                    worst = (y.get("vec_align", 0), y, s_)
        if worst is None:
            res.notes.append("R-VEC-ALIGN: %s (%s) uses no vector-typed pointers" % (f.name, f.file))
            continue
        n += 1
        inst = "%s: vector accesses assume no more alignment than %s() gives (%d bytes)" % (f.name, alloc_fn, guarantee)
        if worst[0] <= guarantee:
            res.oblige(rule, inst, True, "largest alignment assumed by a vector-typed pointer: %d" % worst[0], f.loc(worst[2]))
        else:
            res.fail(rule, inst, "%s|bin2|%s" % (rule, worst[1].get("n", "cast")), f.loc(worst[2]),
                     "bin2 accesses the image through %s, a pointer to a %d-byte vector type that assumes %d-byte alignment (aligned vector moves), but the render buffer comes from %s(), "
                     "which aligns to %d bytes only: with binning > 1 the streamer thread faults as soon as the buffer sits at an address that is not a multiple of %d"
                     % (worst[1].get("n", "a cast"), worst[1].get("vec_size"), worst[0], alloc_fn, guarantee, worst[0]))
    return n


def run(ctx, res):
    prog = ctx.program()
    res.extra["explanation"] = EXPLANATION
    res.assumptions += [
        "binning >= 1 makes the full-resolution shape at least as large as the reported one (binning guard checked)",
        "the HAL allows set on a running camera (camera_set keeps Running), so set can run concurrently with the streamer",
        "constructor/destructor functions run with no concurrent user",
    ]
    n = o_prov(prog, res)
    if n < 4:
        raise AnalysisBroken("expected at least 4 buffer uses with a shape, found %d" % n)
    realloc_covers(prog, res)
    rounding_function(prog, res)
    guards(prog, res)
    pixel_type_mask(prog, res)
    m = buffers_guarded(prog, res)
    res.guard(shape_rules, prog, res)
    from ..indexguard import rule_index_guards
    res.guard(rule_index_guards, prog, res, ["sample_type_to_string", "bytes_of_type"])
    res.require_min("R-INDEX", 2)
    res.require_min("R-SHAPE", 6)
    res.guard(rule_bin2_pitch, prog, res)
    res.guard(rule_vec_align, prog, res)
    res.guard(rule_clamp_fresh, prog, res, LockAnalysis(prog))
    from ..freelive import rule_free_live
    res.guard(rule_free_live, prog, res, "simulated.camera.c")
    res.require_min("O-FREE-LIVE", 2)
    res.require_min("R-CLAMP-FRESH", 1)
    res.require_min("R-VEC-ALIGN", 1)
    res.require_min("O-PROV", 4)
    res.require_min("R-REALLOC-COVERS", 2)
    res.require_min("GUARD-DOM", 2)
    res.require_min("R-READBACK", 2)
    res.require_min("L-GUARDED", 6)
