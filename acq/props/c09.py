"""C09 — a failing camera or storage winds the acquisition down cleanly.
Decided (DESIGN.md 4/C09): the HAL summaries for failing get_frame / append
(typestate simulation against the abstract driver), the sink's and the
source's error paths, worker exit flags, flag re-initialisation at start."""
from .. import runtimerules as RR
from .c11 import run_kind, C09_RULES
from ..build import AnalysisBroken

EXPLANATION = (
    "Static analysis. (1) Typestate simulation of the camera and storage HAL "
    "wrappers against an abstract driver (as C11), reading off the failure "
    "summaries: when the driver's get_frame fails on a started camera the "
    "wrapper has called the driver's stop, leaves a non-Running state and "
    "returns an error; when the driver's append answers a non-Running state the "
    "wrapper adopts it and returns an error. (2) CFG path rules: from the "
    "failure edge of storage_append in the sink no further storage_append is "
    "reachable and every path to the exit signals the source, unmaps the "
    "reader, stops the storage and clears is_running; from the failure edge of "
    "camera_get_frame in the source no further frame call or commit is "
    "reachable and every path signals filter and sink, stops the camera and "
    "clears is_running; R-THREAD-EXIT and R-START-RESET as in C07 (the next, "
    "fault-free acquisition must not inherit a stop request). That stop (as "
    "opposed to abort) returns when the source is blocked on a full ring at the "
    "moment the sink dies depends on fill level and on which release mechanism "
    "exists; it is not decided (observation in DESIGN.md section 5).")


def run(ctx, res):
    prog = ctx.program()
    res.extra["explanation"] = EXPLANATION
    res.assumptions += ["one thread drives a device's HAL calls at a time",
                        "a driver slot may return any enumerator of its declared type"]
    total = 0
    for kind in ("Camera", "Storage"):
        model, it, ex, ndev, checked = run_kind(prog, res, kind)
        total += len(ex.states)
        mine = {k: r for k, r in it.reports.items()
                if r["rule"] in C09_RULES or "get_frame" in k or "storage_append" in k}
        for key, r in sorted(mine.items()):
            res.fail("HAL-FAIL-SUMMARY", "%s: %s" % (kind, key.split("|", 2)[-1]), key, "%s.c" % kind.lower(),
                     r["message"], r["witness"])
        wrapper = "camera_get_frame" if kind == "Camera" else "storage_append"
        res.oblige("HAL-FAIL-SUMMARY", "%s under every driver answer, from every reachable HAL state" % wrapper,
                   not mine, "%d abstract states, %d transitions explored" % (len(ex.states), ex.transitions),
                   prog.func(wrapper).loc())
        res.touched(prog.func(wrapper))
    res.extra["states"] = total
    res.guard(RR.rule_sink_error_path, prog, res)
    # the refusal the failing sink raises (R-SINK-ERROR / refuse-writes) releases a writer only if the
    # writer's wait loop leaves on it
    from ..locks import LockAnalysis
    from .. import lockrules as LR
    la_ = LockAnalysis(prog)
    sites_ = [s_ for s_ in la_.wait_sites() if s_["fn"].name == "channel_write_map"]
    if not sites_:
        from ..build import AnalysisBroken
        raise AnalysisBroken("no wait site in channel_write_map")
    for s_ in sites_:
        LR.rule_refusal_ends_wait(la_, res, s_)
    res.require_min("L-REFUSE-WAKES", 1)
    res.guard(RR.rule_start_unwind, prog, res)
    res.require_min("R-START-UNWIND", 9)
    res.guard(RR.rule_source_error_path, prog, res)
    res.guard(RR.rule_thread_exit, prog, res)
    res.guard(RR.rule_start_reset, prog, res)
    # what the failing sink discards is the whole rest of its input, in a loop until empty
    res.guard(RR.rule_consume_file, prog, res, "video_sink_thread", "append")
    res.guard(RR.rule_loop_until_empty, prog, res, "video_sink_thread", "last")
    # a failed / not yet filled reservation of the source is never published by the filter
    from .c10 import commit_own
    res.guard(commit_own, prog, res, prog.func("process_data"), "R-COMMIT-OWN")
    res.require_min("R-COMMIT-OWN", 2)
    res.require_min("HAL-FAIL-SUMMARY", 2)
    res.require_min("R-SINK-ERROR", 12)
    res.require_min("R-SOURCE-ERROR", 5)
    res.require_min("R-THREAD-EXIT", 9)
    res.require_min("R-START-RESET", 6)
