"""C03 — a blocked writer always resumes when space is released or writes are
refused.  Decided: lost-wake-up freedom (L-CV), notify after the anchored
release operations (L-NOTIFY), re-check loop (L-RECHECK) for the wait site of
channel_write_map.  See DESIGN.md 4/C03."""
from ..locks import LockAnalysis
from .. import lockrules as LR
from ..build import AnalysisBroken

EXPLANATION = (
    "Static lockset + condition-variable discipline over the clang CFG of every "
    "production translation unit. For the wait site in channel_write_map the "
    "checker computes R(P), the channel fields its predicate reads (through "
    "next_write and reader_min), finds every store to those fields in the whole "
    "program and requires each to be ordered with the waiter's check by the "
    "channel lock (store under the lock, or lock hand-off before the notify); "
    "release operations must notify on every path; the wait must sit in a "
    "re-check loop. Decides the structural necessary conditions of 'a wake-up "
    "can never be lost', for every schedule; does not decide the ring arithmetic "
    "(that readers reach the drained state in a bounded number of calls). "
    "Hold moves without a mapping (the lap advance of channel_read_map with an "
    "empty new lap) must notify themselves, since no unmap will follow. "
    "R-PLATFORM: lock_acquire / lock_release / condition_variable_wait / "
    "condition_variable_notify_all reach, on every path, the pthread primitive "
    "they stand for on the object embedded in their own parameter (wait on the "
    "caller's mutex, broadcast rather than signal).")


def run(ctx, res):
    res.require_min("L-REFUSE-WAKES", 1)
    prog = ctx.program()
    la = LockAnalysis(prog)
    res.extra["explanation"] = EXPLANATION
    res.assumptions += [
        "pthread_cond_wait atomically releases the mutex and re-acquires it (the pthread primitive is trusted; the repository's wrappers around it are checked by R-PLATFORM)",
        "a lock/field is identified by (owning record, field path); two objects of one type in one function are not distinguished",
        "constructor/destructor functions (lock_init / free of an owned buffer) run with no concurrent user",
        "OS scheduling fairness is not modelled",
    ]
    wm = prog.func("channel_write_map")
    sites = [s for s in la.wait_sites() if s["fn"].name == "channel_write_map"]
    if len(sites) < 1:
        raise AnalysisBroken("no condition_variable_wait found in channel_write_map")
    for site in sites:
        res.extra.setdefault("wait_sites", []).append({
            "function": site["fn"].name, "cv": LR.key_str(site["cv"]),
            "lock": LR.key_str(site["lock"]),
            "predicate_reads": sorted(LR.key_str(k) for k in site["reads"]),
            "loop_blocks": sorted(site["loop"]),
        })
        must = {("channel", "is_accepting_writes")}
        missing = must - set(site["reads"])
        if not site["loop"]:
            LR.rule_l_recheck(la, res, site)   # reports the missing loop
            continue
        if missing:
            raise AnalysisBroken("R(P) of the writer's wait lost fields %s" %
                                 sorted(map(LR.key_str, missing)))
        LR.rule_l_recheck(la, res, site)
        LR.rule_l_recheck_nested(la, res, site)
        LR.rule_refusal_ends_wait(la, res, site)
        # the predicate is what the whole loop nest around the wait evaluates
        site = dict(site, reads=LR.full_reads(site))
        LR.rule_l_cv(la, res, site)
        cv = site["cv"]
        for name in ("channel_read_unmap", "channel_accept_writes"):
            f = prog.func(name)
            n = LR.rule_l_notify(la, res, f, cv, site["reads"])
            if n == 0:
                raise AnalysisBroken("release operation %s no longer stores to any field of the writer's predicate" % name)
    # a reader operation that moves a hold without mapping must announce it itself
    for site in sites:
        if site["loop"]:
            nh = LR.rule_hold_notify(la, res, prog.func("channel_read_map"), site["cv"], LR.full_reads(site))
            if nh == 0:
                raise AnalysisBroken("channel_read_map no longer moves a hold cursor (lap advance)")
    # "readers that keep reading reach the drained state": a read that reports 'empty' while committed
    # bytes remain stalls that reader's hold for ever, and with it the writer blocked on it
    from .c01 import CHANNEL_FIELDS
    from ..channelrules import rule_empty_drained
    res.guard(rule_empty_drained, prog, res)
    LR.rule_l_guarded(la, res, ("channel", "lock"), CHANNEL_FIELDS,
                      exempt_fns={"video_sink_bytes_waiting": "advisory statistic, read-only, outside every property"})
    res.require_min("R-EMPTY-DRAINED", 2)
    res.require_min("L-GUARDED", 40)
    # the wrappers the rules above treat as primitives (linux/platform.c)
    from .. import platformrules as PR
    PR.run_all(prog, la, res, thread=False, event=False)
    res.require_min("R-PLATFORM", 4)
    res.require_min("L-CV", 12)
    res.require_min("L-NOTIFY", 5)
    res.require_min("L-RECHECK", 1)
