"""C13 — StorageProperties copies are deep, complete and independent
(DESIGN.md 3.4, 4/C13): ownership rules over the CFGs of props/storage.c."""
from .. import ir, paths
from ..build import AnalysisBroken

EXPLANATION = (
    "Static ownership analysis of device/props/storage.c over clang CFGs. "
    "O-SHALLOW: the owning fields of struct StorageProperties are computed from "
    "the record layout (pointer members reachable through by-value nested "
    "records); at the whole-object overwrite in storage_properties_copy each "
    "must be saved before and restored after on every path (or released "
    "before), otherwise the destination aliases the source's allocation. "
    "O-FIELDCOV: every String member and every dimension element is re-copied "
    "from the same member of the source on every success path; the per-element "
    "copy mentions every field of struct StorageDimension; the destroy functions "
    "release every owning field. O-FREE-NULL: after free of a field of a "
    "surviving object the field is overwritten before the function returns. "
    "copy_string: every success return is preceded by the store of the recorded "
    "length and of the terminating NUL (only the zero-length edge may skip it), "
    "a newly installed buffer is marked owned, and the source is never written. "
    "Content equality (that memcpy moved the right bytes) and dst == src are not "
    "decided.")

T = "StorageProperties"
EXPLANATION += (' R-STRBUF: copy_string on the linear domain with an allocation ghost (live, owned allocation of sufficient capacity; result owned, length fits). R-DIMS: owned frees, dimension loops 0..size-1, setter coverage; alias clause after a whole-record copy.')



def owning_fields(prog, rec, prefix=""):
    """Pointer members reachable through nested by-value records."""
    out = []
    r = prog.record(rec)
    if not r:
        raise AnalysisBroken("record %s vanished" % rec)
    for f in r["fields"]:
        p = prefix + f["n"]
        if f.get("fnptr"):
            continue
        if f.get("ptr"):
            out.append(p)
        elif f.get("r") and not f.get("pd"):
            out += owning_fields(prog, f["r"], p + ".")
    return out


def string_members(prog, rec):
    r = prog.record(rec)
    return [f["n"] for f in r["fields"] if f.get("r") == "String" and not f.get("pd")]


def param(f, idx):
    return f.params[idx]


def is_param_path(n, pid):
    """ap string of n relative to parameter pid ('' for the object itself,
    'uri', 'acquisition_dimensions.data', ...) or None."""
    n = ir.strip(n)
    if isinstance(n, dict) and n.get("k") == "addr":
        n = ir.strip(n["e"])
    root, chain = ir.field_chain(n)
    if isinstance(root, dict) and root.get("k") == "var" and root.get("id") == pid:
        return ".".join(f for _, f in chain)
    return None


def o_shallow(prog, res, f):
    R = "O-SHALLOW"
    dst, src = param(f, 0), param(f, 1)
    rec = prog.record(T)
    owners = owning_fields(prog, T)
    res.extra["owning_fields"] = owners
    # whole-object (or prefix) overwrites of *dst
    over = []
    prefix_len = {}

    def field_offset(path):
        """byte offset of a (nested) member path of T"""
        off = 0
        r = rec
        for part in path.split("."):
            fl = [x for x in r["fields"] if x["n"] == part]
            if not fl:
                return None
            off += fl[0]["off"] // 8
            r = prog.record(fl[0].get("r")) if fl[0].get("r") and not fl[0].get("pd") else None
            if r is None:
                break
        return off
    for b, i, s in f.all_stmts():
        for c in ir.calls_in(s):
            if c.get("fn") == "memcpy" and is_param_path(c["args"][0], dst["id"]) == "" \
                    and ir.strip(c["args"][0]).get("k") == "var" and ir.is_const(c["args"][2]) \
                    and ir.strip(c["args"][2])["v"] > 0:
                over.append((b.id, i, s))
                prefix_len[(b.id, i)] = ir.strip(c["args"][2])["v"]
        for lv, op, rhs, w in ir.writes_of(s):
            if lv.get("k") == "deref" and ir.strip(lv["e"]).get("k") == "var" and ir.strip(lv["e"])["id"] == dst["id"]:
                over.append((b.id, i, s))
    if not over:
        # member-wise implementation: nothing to save; field coverage decides
        res.oblige(R, "%s: no whole-object overwrite of *dst" % f.name, True,
                   "the copy is member-wise; completeness is decided by O-FIELDCOV", f.loc())
        return
    for ob, oi, os_ in over:
        for p in owners:
            n_ = prefix_len.get((ob, oi))
            if n_ is not None and n_ < rec["size"]:
                fo = field_offset(p)
                if fo is not None and fo >= n_:
                    res.oblige(R, "%s: dst->%s is beyond the %d bytes the prefix copy overwrites" % (f.name, p, n_), True, "", f.loc(os_))
                    continue
            inst = "%s: dst->%s kept across the struct copy" % (f.name, p)
            prefixes = [p.rsplit(".", k)[0] for k in range(p.count(".") + 1)] + [p]
            prefixes = sorted(set(prefixes + [".".join(p.split(".")[:k]) for k in range(1, p.count(".") + 2)]))

            def saves(s, prefixes=prefixes):
                # tmp = dst->Q  |  memcpy(&tmp, &dst->Q, n)
                for lv, op, rhs, w in ir.writes_of(s):
                    if lv.get("k") == "var" and is_param_path(rhs, dst["id"]) in prefixes:
                        return lv["id"]
                for c in ir.calls_in(s):
                    if c.get("fn") == "memcpy" and is_param_path(c["args"][1], dst["id"]) in prefixes:
                        t = ir.strip(c["args"][0])
                        if t.get("k") == "addr" and ir.strip(t["e"]).get("k") == "var":
                            return ir.strip(t["e"])["id"]
                return None

            saved = set()
            for b, i, s in f.all_stmts():
                v = saves(s)
                if v is not None:
                    saved.add(v)

            def restores(s, prefixes=prefixes, saved=saved):
                for lv, op, rhs, w in ir.writes_of(s):
                    if is_param_path(lv, dst["id"]) in prefixes and lv.get("k") == "mem":
                        r0 = ir.strip(rhs)
                        if isinstance(r0, dict) and r0.get("k") == "var" and r0["id"] in saved:
                            return True
                for c in ir.calls_in(s):
                    if c.get("fn") == "memcpy" and is_param_path(c["args"][0], dst["id"]) in prefixes:
                        t = ir.strip(c["args"][1])
                        if t.get("k") == "addr" and ir.strip(t["e"]).get("k") == "var" and ir.strip(t["e"])["id"] in saved:
                            return True
                return False

            def releases(s, p=p):
                for c in ir.calls_in(s):
                    if c.get("fn") == "free" and is_param_path(c["args"][0], dst["id"]) == p:
                        return True
                return False
            ok1, w1 = paths.all_paths_pass(f, "entry", {(ob, oi)}, lambda s: saves(s) is not None or releases(s))
            ok2, w2 = paths.all_paths_pass(f, (ob, oi), "exit", restores)
            released_before, _ = paths.all_paths_pass(f, "entry", {(ob, oi)}, releases)
            if ok1 and (ok2 or released_before):
                res.oblige(R, inst, True, "saved before and restored after the overwrite on every path", f.loc(os_))
            else:
                res.fail(R, inst, "O-SHALLOW|%s|%s" % (f.name, p), f.loc(os_),
                         "%s overwrites *dst with *src as a whole, and dst->%s is not %s: afterwards it aliases the source's allocation, which is then released/rewritten through dst (and dst's own allocation leaks)"
                         % (f.name, p, "saved beforehand" if not ok1 else "restored afterwards"))


def o_fieldcov_copy(prog, res, f):
    R = "O-FIELDCOV"
    dst, src = param(f, 0), param(f, 1)
    succ = {(b.id, i) for b, i, s in f.all_stmts() if s.get("k") == "ret" and ir.is_const(s.get("e")) and ir.strip(s["e"])["v"] != 0}
    if not succ:
        raise AnalysisBroken("%s has no success return" % f.name)
    for m in string_members(prog, T):
        def copies(s, m=m):
            for c in ir.calls_in(s):
                if c.get("fn") == "copy_string" and is_param_path(c["args"][0], dst["id"]) == m \
                        and is_param_path(c["args"][1], src["id"]) == m:
                    return True
            return False
        ok, w = paths.all_paths_pass(f, "entry", succ, copies)
        inst = "%s: copy_string(&dst->%s, &src->%s) on every success path" % (f.name, m, m)
        if ok:
            res.oblige(R, inst, True, "", f.loc())
        else:
            res.fail(R, inst, "O-FIELDCOV|%s|%s" % (f.name, m), f.loc(),
                     "%s can report success without deep-copying the string member '%s' from the same member of the source" % (f.name, m),
                     {"path_blocks": w})
    # every other member: overwritten by a memcpy(dst, src, N) that reaches past it, or assigned member-wise
    rec_ = prog.record(T)
    strs = set(string_members(prog, T))
    for fl in rec_["fields"]:
        m = fl["n"]
        if m in strs or m == "acquisition_dimensions":
            continue
        lo, hi = fl["off"] // 8, fl["off"] // 8 + fl["size"]

        def covers_member(s, m=m, hi=hi):
            for c in ir.calls_in(s):
                if c.get("fn") == "memcpy" and is_param_path(c["args"][0], dst["id"]) == "" and is_param_path(c["args"][1], src["id"]) == "" \
                        and ir.is_const(c["args"][2]) and ir.strip(c["args"][2])["v"] >= hi:
                    return True
            for lv, op, rhs, w in ir.writes_of(s):
                if op == "=" and is_param_path(lv, dst["id"]) == m and is_param_path(rhs, src["id"]) == m:
                    return True
                if op == "=" and is_param_path(lv, dst["id"]) == "" and ir.strip(lv).get("k") == "deref" and is_param_path(rhs, src["id"]) == "":
                    return True
            return False
        ok, w = paths.all_paths_pass(f, "entry", succ, covers_member)
        inst = "%s: dst->%s receives src->%s on every success path" % (f.name, m, m)
        if ok:
            res.oblige(R, inst, True, "", f.loc())
        else:
            res.fail(R, inst, "O-FIELDCOV|%s|%s" % (f.name, m), f.loc(),
                     "%s can report success without copying the member '%s' (bytes %d..%d of the record): a struct copy that stops short of it, or a member-wise copy that forgets it"
                     % (f.name, m, lo, hi), {"path_blocks": w})
    # dimensions: element-wise copy in a loop guarded by the source having some
    calls = [(b, i, s, c) for b, i, s in f.all_stmts() for c in ir.calls_in(s) if c.get("fn") == "storage_dimension_copy"]
    inst = "%s: every dimension element is copied" % f.name
    good = False
    for b, i, s, c in calls:
        a0, a1 = is_param_path(c["args"][0], dst["id"]), is_param_path(c["args"][1], src["id"])
        loop = paths.innermost_loop(f, b.id)
        if a0 == "acquisition_dimensions.data" and a1 == "acquisition_dimensions.data" and loop:
            # loop bound reads src->acquisition_dimensions.size
            from .. import congr
            conds = [congr.inline_expr(prog, f, f.blocks[x].cond_node()) for x in loop if f.blocks[x].cond_node() is not None]
            if any(is_param_path(y, src["id"]) == "acquisition_dimensions.size" for cnd in conds for y in ir.walk(cnd) if y.get("k") == "mem"):
                good = True
    if good:
        res.oblige(R, inst, True, "loop over src->acquisition_dimensions.size calling storage_dimension_copy(&dst->..data[i], &src->..data[i])", f.loc())
    else:
        res.fail(R, inst, "O-FIELDCOV|%s|dimensions" % f.name, f.loc(),
                 "%s does not copy every acquisition dimension element from the source" % f.name)
    # the destination's previous array is released before a new one is installed
    init_calls = [(b.id, i) for b, i, s in f.all_stmts() for c in ir.calls_in(s) if c.get("fn") == "storage_properties_dimensions_init"]
    if init_calls:
        def releases(s):
            for c in ir.calls_in(s):
                if c.get("fn") == "storage_properties_dimensions_destroy" and is_param_path(c["args"][0], dst["id"]) == "":
                    return True
            return False

        def dst_has_none(blk, succ_):
            c = ir.strip(blk.cond_node())
            neg = False
            while isinstance(c, dict) and c.get("k") == "un" and c.get("op") == "!":
                neg = not neg
                c = ir.strip(c["e"])
            return isinstance(c, dict) and c.get("k") == "mem" and is_param_path(c, dst["id"]) == "acquisition_dimensions.data" \
                and succ_.get("label") == ("true" if neg else "false")
        # a flag computed once ( const int shared = dst->..data == src->..data ) and tested again further down:
        # when every allocation is reached only with the flag false, the edges taken with the flag true carry
        # no obligation (the flag cannot change: single definition)
        defs = congr.single_defs(f)

        def flag_label(blk, want_true):
            """label of blk's edge on which a 'same array' flag has the value want_true, or None"""
            c = ir.strip(blk.cond_node()) if blk.cond_node() is not None else None
            neg = False
            while isinstance(c, dict) and c.get("k") == "un" and c.get("op") == "!":
                neg = not neg
                c = ir.strip(c["e"])
            if isinstance(c, dict) and c.get("k") == "ref":
                t = f.resolve_ref(c)
                c = ir.strip(t) if t is not None else c
            if not (isinstance(c, dict) and c.get("k") == "var" and c.get("id") in defs):
                return None
            d = ir.strip(defs[c["id"]])
            if not (isinstance(d, dict) and d.get("k") == "bin" and d.get("op") in ("==", "!=")):
                return None
            sides = {is_param_path(ir.strip(d["l"]), dst["id"]), is_param_path(ir.strip(d["r"]), dst["id"]),
                     is_param_path(ir.strip(d["l"]), src["id"]), is_param_path(ir.strip(d["r"]), src["id"])}
            if "acquisition_dimensions.data" not in sides:
                return None
            same_when_true = d["op"] == "=="
            val = want_true if same_when_true else not want_true     # value of the variable meaning 'same array' == want_true
            return ("true" if val else "false") if not neg else ("false" if val else "true")
        guarded = all(paths.edge_dominated(f, pos_, lambda cn, lab, blk: flag_label(blk, False) == lab)[0] for pos_ in init_calls)

        def discharge(blk, succ_):
            if dst_has_none(blk, succ_):
                return True
            return guarded and blk.cond_node() is not None and flag_label(blk, True) == succ_.get("label")
        ok, w = paths.all_paths_pass(f, "entry", set(init_calls), releases, edge_ok=discharge)
        inst = "%s: dst's own dimension array released before a new one is allocated" % f.name
        if ok:
            res.oblige(R, inst, True, "destroy(dst) on every path where dst has an array", f.loc())
        else:
            res.fail(R, inst, "O-FIELDCOV|%s|dims-leak" % f.name, f.loc(),
                     "%s allocates a new dimension array for dst on a path where dst's previous array was not released" % f.name)
    # scalar members: covered by a whole-object copy or by member assignments
    rec = prog.record(T)
    scalars = [x["n"] for x in rec["fields"] if not x.get("r") and not x.get("ptr")] + \
              [x["n"] for x in rec["fields"] if x.get("r") and x["r"] not in ("String",) and not owning_fields(prog, x["r"])]
    whole = any(c.get("fn") == "memcpy" and is_param_path(c["args"][0], dst["id"]) == "" and
                is_param_path(c["args"][1], src["id"]) == "" for b, i, s in f.all_stmts() for c in ir.calls_in(s))
    for m in scalars:
        inst = "%s: member %s copied" % (f.name, m)
        direct = any(is_param_path(lv, dst["id"]) == m and is_param_path(rhs, src["id"]) == m
                     for b, i, s in f.all_stmts() for lv, op, rhs, w in ir.writes_of(s))
        if whole or direct:
            res.oblige(R, inst, True, "whole-object copy" if whole else "member assignment", f.loc())
        else:
            res.fail(R, inst, "O-FIELDCOV|%s|%s" % (f.name, m), f.loc(),
                     "%s never copies member '%s'" % (f.name, m))


def o_fieldcov_dimension(prog, res):
    f = prog.func("storage_dimension_copy")
    res.touched(f)
    dst, src = param(f, 0), param(f, 1)
    rec = prog.record("StorageDimension")
    # a whole-record assignment  *dst = *src  copies every scalar member; the
    # String members it copies are shallow and must be detached and deep-copied
    # on every path afterwards (O-ALIAS below)
    whole = [(b.id, i, s) for b, i, s in f.all_stmts() for lv, op, rhs, w in ir.writes_of(s)
             if op == "=" and ir.strip(lv).get("k") == "deref" and ir.strip(ir.strip(lv)["e"]).get("id") == dst["id"]
             and isinstance(ir.strip(rhs), dict) and ir.strip(rhs).get("k") == "deref" and ir.strip(ir.strip(rhs)["e"]).get("id") == src["id"]]
    succ = {(b.id, i) for b, i, s in f.all_stmts() if s.get("k") == "ret" and not ir.is_const(s.get("e"), 0)}
    for bid, i0, s0 in whole:
        for fld in rec["fields"]:
            if fld.get("r") != "String":
                continue
            m = fld["n"]

            def deep(q, m=m):
                return any(c.get("fn") == "copy_string" and is_param_path(c["args"][0], dst["id"]) == m and is_param_path(c["args"][1], src["id"]) == m
                           for c in ir.calls_in(q))

            def detach(q, m=m):
                for lv, op, rhs, w in ir.writes_of(q):
                    p_ = ir.ap(lv) or ""
                    if op == "=" and (p_.endswith("->%s.str" % m) and ir.is_const(rhs, 0) or
                                      p_.endswith("->%s.is_ref" % m) and not ir.is_const(rhs, 0) or
                                      p_.endswith("->%s" % m) and isinstance(ir.strip(rhs), dict) and ir.strip(rhs).get("k") == "init"):
                        return True
                return any(c.get("fn") == "memset" and (ir.ap(ir.strip(c["args"][0]).get("e")) or "").endswith("->%s" % m) for c in ir.calls_in(q)
                           if isinstance(ir.strip(c["args"][0]), dict) and ir.strip(c["args"][0]).get("k") == "addr")
            ok1 = bool(succ) and paths.all_paths_pass(f, (bid, i0), succ, deep)[0]
            copies = {(b.id, i) for b, i, s in f.all_stmts() if deep(s)}
            ok2 = bool(copies) and all(paths.all_paths_pass(f, (bid, i0), {c_}, detach)[0] for c_ in copies)
            inst = "storage_dimension_copy: after *dst = *src the shared %s is detached and deep-copied on every path" % m
            if ok1 and ok2:
                res.oblige("O-FIELDCOV", inst, True, "", f.loc(s0))
            else:
                res.fail("O-FIELDCOV", inst, "O-FIELDCOV|storage_dimension_copy|alias-%s" % m, f.loc(s0),
                         "storage_dimension_copy assigns the whole record (*dst = *src), which makes dst->%s share the source's heap buffer as an owned string, and can return success without detaching it and deep-copying: "
                         "source and copy free the same buffer" % m)
    for fld in rec["fields"]:
        m = fld["n"]
        inst = "storage_dimension_copy: field %s" % m
        ok = bool(whole) and fld.get("r") != "String"
        for b, i, s in f.all_stmts():
            for c in ir.calls_in(s):
                if c.get("fn") == "copy_string" and is_param_path(c["args"][0], dst["id"]) == m and is_param_path(c["args"][1], src["id"]) == m:
                    ok = True
            for lv, op, rhs, w in ir.writes_of(s):
                if is_param_path(lv, dst["id"]) == m and is_param_path(rhs, src["id"]) == m and fld.get("r") != "String":
                    ok = True
        if ok:
            res.oblige("O-FIELDCOV", inst, True, "", f.loc())
        else:
            res.fail("O-FIELDCOV", inst, "O-FIELDCOV|storage_dimension_copy|%s" % m, f.loc(),
                     "storage_dimension_copy does not copy field '%s' (String members must go through copy_string)" % m)


def o_free_null(prog, res, names):
    R = "O-FREE-NULL"
    n = 0
    for name in names:
        f = prog.func(name)
        res.touched(f)
        for b, i, s in f.all_stmts():
            for c in ir.calls_in(s):
                if c.get("fn") != "free":
                    # the free may sit in a same-file helper that receives the object: whether the pointer is
                    # cleared (there or here) is decided by O-FREE-LIVE, which follows helpers; counted here
                    h = prog.resolve(c["fn"], f) if c.get("fn") else None
                    if h is not None and h is not f and h.blocks and h.file == f.file and h.name not in names and h.params and any(
                            cc.get("fn") == "free" and cc.get("args") and (ir.ap(ir.strip(cc["args"][0])) or "").startswith(h.params[0].get("n", "?") + "->")
                            for _b, _i, ss in h.all_stmts() for cc in ir.calls_in(ss)):
                        n += 1
                        res.oblige(R, "%s: release through %s" % (name, h.name), True, "decided by O-FREE-LIVE (helper summary)", f.loc(s))
                    continue
                a = ir.strip(c["args"][0])
                if not (isinstance(a, dict) and a.get("k") == "mem"):
                    continue
                n += 1
                path = ir.ap(a)
                inst = "%s: free(%s) then cleared" % (name, path)

                def clears(ss, a=a, path=path):
                    for lv, op, rhs, w in ir.writes_of(ss):
                        if ir.ap(lv) == path:
                            return True
                    for cc in ir.calls_in(ss):
                        if cc.get("fn") == "memset" and ir.is_const(cc["args"][1], 0):
                            t = ir.ap(cc["args"][0])
                            if t is None:
                                continue
                            t = t.lstrip("&")
                            if path == t or path.startswith(t + "->") or path.startswith(t + "."):
                                return True
                    return False
                ok, w = paths.all_paths_pass(f, (b.id, i), "exit", clears)
                if ok:
                    res.oblige(R, inst, True, "overwritten on every path to the exit", f.loc(s))
                else:
                    res.fail(R, inst, "O-FREE-NULL|%s|%s" % (name, path), f.loc(s),
                             "%s frees %s and can return with the dangling pointer still in the object: a second destroy (or a later copy into it) frees it again"
                             % (name, path))
    return n


def destroy_coverage(prog, res):
    f = prog.func("storage_properties_destroy")
    res.touched(f)
    self_ = param(f, 0)
    members = string_members(prog, T)
    listed = set()
    direct = set()
    for b, i, s in f.all_stmts():
        for x in ir.walk(s):
            if x.get("k") == "init":
                for e in x.get("elts", []):
                    p = is_param_path(e.get("v"), self_["id"]) if isinstance(e.get("v"), dict) else None
                    if p:
                        listed.add(p)
        for c in ir.calls_in(s):
            if c.get("fn") == "free":
                p = is_param_path(c["args"][0], self_["id"])
                if p:
                    listed.add(p.rsplit(".", 1)[0])
                    direct.add(p.rsplit(".", 1)[0])
    # a same-file helper that frees the string block of its String parameter counts as the free
    from ..freelive import summaries as _fl_summaries
    _fns = [g_ for v_ in prog.funcs.values() for g_ in v_ if g_.file == f.file and g_.blocks]
    _by = {g_.name: g_ for g_ in _fns}
    releasers = set()
    for g_ in _fns:
        pn_ = [p_.get("n") for p_ in g_.params]
        for b_, i_, s_ in g_.all_stmts():
            for c_ in ir.calls_in(s_):
                if c_.get("fn") == "free" and c_.get("args"):
                    a_ = ir.ap(ir.strip(c_["args"][0])) or ""
                    if pn_ and a_ == pn_[0] + "->str":
                        releasers.add(g_.name)
    for b, i, s in f.all_stmts():
        for c in ir.calls_in(s):
            if c.get("fn") in releasers and c.get("args"):
                a0 = ir.strip(c["args"][0])
                if isinstance(a0, dict) and a0.get("k") == "addr":
                    p = is_param_path(a0["e"], self_["id"])
                    if p:
                        listed.add(p)
                        direct.add(p)
    frees_in_loop = any((c.get("fn") == "free" or c.get("fn") in releasers) and paths.innermost_loop(f, b.id)
                        for b, i, s in f.all_stmts() for c in ir.calls_in(s))
    for m in members:
        inst = "storage_properties_destroy releases %s" % m
        if (m in listed and frees_in_loop) or m in direct:
            res.oblige("O-FIELDCOV", inst, True,
                       "freed directly" if m in direct else "listed in the table of strings the release loop walks", f.loc())
        else:
            res.fail("O-FIELDCOV", inst, "O-FIELDCOV|destroy|%s" % m, f.loc(),
                     "storage_properties_destroy never releases the string member '%s'" % m)
    ok, w = paths.all_paths_pass(f, "entry", "exit",
                                 lambda s: any(c.get("fn") == "storage_properties_dimensions_destroy" for c in ir.calls_in(s)))
    inst = "storage_properties_destroy releases the dimension array"
    if ok:
        res.oblige("O-FIELDCOV", inst, True, "on every path", f.loc())
    else:
        res.fail("O-FIELDCOV", inst, "O-FIELDCOV|destroy|dimensions", f.loc(),
                 "storage_properties_destroy can return without releasing the dimension array")
    g = prog.func("storage_properties_dimensions_destroy")
    res.touched(g)
    has_elem = any(c.get("fn") == "storage_dimension_destroy" and paths.innermost_loop(g, b.id)
                   for b, i, s in g.all_stmts() for c in ir.calls_in(s))
    has_arr = any(c.get("fn") == "free" for b, i, s in g.all_stmts() for c in ir.calls_in(s))
    inst = "dimensions_destroy releases every element and the array"
    if has_elem and has_arr:
        res.oblige("O-FIELDCOV", inst, True, "", g.loc())
    else:
        res.fail("O-FIELDCOV", inst, "O-FIELDCOV|dimensions_destroy", g.loc(),
                 "storage_properties_dimensions_destroy does not release %s" % ("the elements' names" if not has_elem else "the array"))


def string_buffer(prog, res, rule="R-STRBUF"):
    """copy_string by the linear-relations domain with an allocation ghost:
    every pointer value carries (capacity, live).  malloc(n) / realloc(p, n)
    create a live allocation of n bytes (realloc retires p on success); the
    destination's incoming buffer is live with capacity >= its recorded length
    provided the string is owned (is_ref == 0, str != NULL) - otherwise it is
    the caller's memory and must not be written.  Obligations: every memset /
    memcpy through dst->str targets a live allocation of at least that many
    bytes (and never the un-owned incoming buffer); a successful return leaves
    an owned string whose recorded length equals the (possibly defaulted)
    source's and fits the allocation."""
    from .. import linear as L
    f = prog.func("copy_string")
    res.touched(f)
    dstp, srcp = f.params[0], f.params[1]
    problems = []

    def alloc_of(st, v):
        syms = [k for k in v if k != L.ONE]
        if len(syms) != 1 or v[syms[0]] != 1 or v.get(L.ONE, 0) != 0:
            return None, None
        return syms[0], st.tags.get("alloc", {}).get(syms[0])

    def m_malloc(an, f_, e, st):
        n = an.eval(f_, e["args"][0], st)[0][0]
        p = an.fresh(st, "heap", False)
        st.tags.setdefault("alloc", {})[list(p)[0]] = (n, True)
        s2 = st.copy()
        return [(p, st), (L.lconst(0), s2)]

    def m_realloc(an, f_, e, st):
        old = an.eval(f_, e["args"][0], st)[0][0]
        n = an.eval(f_, e["args"][1], st)[0][0]
        fail = st.copy()
        p = an.fresh(st, "heap", False)
        a = st.tags.setdefault("alloc", {})
        osym, oa = alloc_of(st, old)
        if osym is not None and oa is not None:
            a[osym] = (oa[0], False)
        elif osym is not None:
            a[osym] = (L.lconst(0), False)
        a[list(p)[0]] = (n, True)
        return [(p, st), (L.lconst(0), fail)]

    def check_write(an, f_, e, st, what):
        d = an.eval(f_, e["args"][0], st)[0][0]
        n = an.eval(f_, e["args"][2], st)[0][0]
        sym, a = alloc_of(st, d)
        if sym is None:
            problems.append("%s writes through a pointer that is not the start of a buffer (%s)" % (what, L.lshow(d)))
            return
        if a is None and sym.startswith("ptr:") and sym.endswith("->str") and sym.startswith("ptr:%s" % dstp["n"]):
            # the incoming buffer: usable only if the string owns it
            isref0 = L.lvar("%s->is_ref#0" % dstp["n"])
            nb0 = L.lvar("%s->nbytes#0" % dstp["n"])
            an.read(st, "%s->is_ref" % dstp["n"]) if ("%s->is_ref" % dstp["n"]) not in st.cells and st.ver.get("%s->is_ref" % dstp["n"], 0) == 0 else None
            own = st.entails_eq(isref0) and not _consistent(st, [("eq", d)])
            if not own:
                problems.append("%s can write into the destination's incoming buffer although the string does not own it (is_ref set or str NULL): the caller's memory is overwritten" % what)
                return
            if not st.entails_le(L.lsub(n, nb0)):
                problems.append("%s can write %s bytes into the incoming buffer, whose size is only known to be its recorded length %s" % (what, L.lshow(n), L.lshow(nb0)))
            return
        if a is None:
            problems.append("%s writes through %s, which is not a buffer of the destination string" % (what, sym))
            return
        cap, live = a
        if not live:
            problems.append("%s writes through a pointer that realloc has retired (the new pointer was not stored)" % what)
        elif not st.entails_le(L.lsub(n, cap)):
            problems.append("%s writes %s bytes into an allocation of %s bytes" % (what, L.lshow(n), L.lshow(cap)))

    def m_memset(an, f_, e, st):
        check_write(an, f_, e, st, "memset")
        return [(an.fresh(st, "call:memset", False), st)]

    def m_memcpy(an, f_, e, st):
        check_write(an, f_, e, st, "memcpy")
        srcv = an.eval(f_, e["args"][1], st)[0][0]
        if _consistent(st, [("eq", srcv)]):
            problems.append("memcpy can read from a NULL source string: a missing / empty source is not replaced by the empty string")
        return [(an.fresh(st, "call:memcpy", False), st)]

    def _consistent(st, conj):
        s2 = st.copy()
        s2.cons += conj
        return s2.feasible()
    an = L.Analysis(prog)
    an.models.update({"malloc": m_malloc, "realloc": m_realloc, "memset": m_memset, "memcpy": m_memcpy})
    st0 = L.State()
    rets = an.run(f, st0)
    good = 0
    for rv, st in rets:
        if rv is None or (L.is_const(rv) and rv.get(L.ONE, 0) == 0):
            # a failing copy must leave a destination whose recorded length still fits what it points at
            d = st.cells.get("%s->str" % dstp["n"], L.lvar("ptr:%s->str" % dstp["n"]))
            nb = st.cells.get("%s->nbytes" % dstp["n"])
            if nb is None or (L.is_const(d) and d.get(L.ONE, 0) == 0):
                continue   # length untouched / no buffer left
            nb0 = L.lvar("%s->nbytes#0" % dstp["n"])
            sym, a = alloc_of(st, d)
            if sym is not None and a is None and str(sym) == "ptr:%s->str" % dstp["n"]:
                if not st.entails_le(L.lsub(nb, nb0)):
                    problems.append("a failing copy (allocation failure) leaves the destination pointing at its old buffer but with the new, larger length recorded (%s > %s): the next copy that fits the recorded length skips the re-allocation and overruns the buffer, a copy from it over-reads" % (L.lshow(nb), L.lshow(nb0)))
            elif a is not None and a[1] and not st.entails_le(L.lsub(nb, a[0])):
                problems.append("a failing copy records a length (%s) larger than the allocation it leaves behind (%s)" % (L.lshow(nb), L.lshow(a[0])))
            continue
        good += 1
        d = st.cells.get("%s->str" % dstp["n"], L.lvar("ptr:%s->str" % dstp["n"]))
        nb = st.cells.get("%s->nbytes" % dstp["n"])
        isref = st.cells.get("%s->is_ref" % dstp["n"], L.lvar("%s->is_ref#0" % dstp["n"]))
        if not st.entails_eq(isref):
            problems.append("a successful copy can leave the destination marked as a reference (is_ref != 0): destroy will not free it / the next copy re-allocates and leaks")
        sym, a = alloc_of(st, d)
        if nb is None:
            problems.append("a successful copy does not record the new length")
        elif a is not None and a[1] and not st.entails_le(L.lsub(nb, a[0])):
            problems.append("a successful copy records a length (%s) larger than the allocation (%s)" % (L.lshow(nb), L.lshow(a[0])))
        elif a is not None and not a[1]:
            problems.append("a successful copy leaves dst->str pointing at memory realloc has retired")
    inst = "copy_string: writes stay inside a live, owned allocation; the result is owned and its length fits"
    if good == 0:
        problems.append("copy_string never succeeds")
    if problems:
        for m in sorted(set(problems)):
            res.fail(rule, inst, "%s|copy_string" % rule, f.loc(), "copy_string: " + m)
    else:
        res.oblige(rule, inst, True, "%d successful return state(s)" % good, f.loc())


def dimension_rules(prog, res, rule="R-DIMS"):
    """Dimension arrays: a name is freed only when the string owns it
    (dominated by is_ref == 0); every loop over a dimension array visits
    exactly the elements 0 .. size-1; storage_properties_set_dimension stores
    every one of its value parameters into the addressed element."""
    from .. import linear as L
    n = 0
    for f in prog.all_funcs():
        if not f.file.endswith("props/storage.c") or not f.blocks:
            continue
        # free(x.str) only for owned strings
        for b, i, st_ in f.all_stmts():
            for c in ir.calls_in(st_):
                if c.get("fn") == "free" and c.get("args"):
                    a0 = ir.strip(c["args"][0])
                    if isinstance(a0, dict) and a0.get("k") == "mem" and a0.get("f") == "str":
                        owner = ir.ap(a0["b"])

                        def owned(cn, lab, blk, owner=owner):
                            c0 = ir.strip(cn)
                            neg = False
                            while isinstance(c0, dict) and c0.get("k") == "un" and c0.get("op") == "!":
                                neg = not neg
                                c0 = ir.strip(c0["e"])
                            if isinstance(c0, dict) and c0.get("k") == "bin" and c0.get("op") in ("==", "!="):
                                l, r = ir.strip(c0["l"]), ir.strip(c0["r"])
                                for x, y in ((l, r), (r, l)):
                                    if isinstance(x, dict) and x.get("k") == "mem" and x.get("f") == "is_ref" and ir.ap(x["b"]) == owner and ir.is_const(y, 0):
                                        return (lab == "true") == ((c0["op"] == "==") != neg)
                            if isinstance(c0, dict) and c0.get("k") == "mem" and c0.get("f") == "is_ref" and ir.ap(c0["b"]) == owner:
                                return (lab == "true") == neg   # bare `is_ref`: owned on the false edge
                            return False
                        dom, _ = paths.edge_dominated(f, (b.id, i), owned)
                        n += 1
                        res.touched(f)
                        inst = "%s: %s.str is freed only when the string owns it" % (f.name, owner)
                        if dom:
                            res.oblige(rule, inst, True, "dominated by is_ref == 0", f.loc(st_))
                        else:
                            res.fail(rule, inst, "%s|%s|free-owned" % (rule, f.name), f.loc(st_),
                                     "%s can free %s.str although the string only references caller memory (is_ref != 0), or skip the free for an owned one" % (f.name, owner))
        # loops over a dimension array
        for head, body in paths.natural_loops(f):
            c = f.blocks[head].cond_node()
            if c is None or not any(y.get("k") == "mem" and y.get("f") == "size" and "acquisition_dimensions" in (ir.ap(y) or "") for y in ir.walk(c)):
                continue
            szn = [y for y in ir.walk(c) if y.get("k") == "mem" and y.get("f") == "size"][0]
            probs = L.counted_loop_problems(prog, f, head, body, lambda an, s_, f=f, szn=szn: an.eval(f, szn, s_)[0][0])
            n += 1
            res.touched(f)
            inst = "%s: the loop over the dimension array visits 0 .. size-1" % f.name
            if probs:
                res.fail(rule, inst, "%s|%s|range" % (rule, f.name), "%s:%s" % (f.file, f.blocks[head].tline),
                         "%s: %s: a dimension is skipped (its name leaks / is not copied) or the array is indexed out of bounds" % (f.name, "; ".join(probs)))
            else:
                res.oblige(rule, inst, True, "i = 0; i < size; ++i", "%s:%s" % (f.file, f.blocks[head].tline))
    g = prog.func("storage_properties_set_dimension")
    res.touched(g)
    used = set()
    for b, i, st_ in g.all_stmts():
        for lv, op, rhs, w in ir.writes_of(st_):
            if lv.get("k") == "mem" and isinstance(rhs, dict):
                used |= {y["id"] for y in ir.walk(rhs) if y.get("k") == "var" and "p" in y}
        for c in ir.calls_in(st_):
            if c.get("fn") == "copy_string":
                # the String built from (name, bytes_of_name)
                used |= {y["id"] for a in c["args"] for y in ir.walk(a) if y.get("k") == "var" and "p" in y}
        if st_.get("k") == "decl" and isinstance(st_.get("init"), dict):
            ids = {y["id"] for y in ir.walk(st_["init"]) if y.get("k") == "var" and "p" in y}
            if ids and any(c.get("fn") == "copy_string" and any(y.get("k") == "var" and y.get("id") == st_["var"]["id"] for a in c["args"] for y in ir.walk(a))
                           for b2, i2, s2 in g.all_stmts() for c in ir.calls_in(s2)):
                used |= ids
    for p in g.params[2:]:
        n += 1
        inst = "storage_properties_set_dimension stores its parameter '%s'" % p["n"]
        if p["id"] in used:
            res.oblige(rule, inst, True, "", g.loc())
        else:
            res.fail(rule, inst, "%s|set_dimension|%s" % (rule, p["n"]), g.loc(),
                     "storage_properties_set_dimension never stores '%s' into the dimension: copies made through it lose that field" % p["n"])
    return n


def copy_string_rules(prog, res):
    f = prog.func("copy_string")
    res.touched(f)
    R = "R-COPY-STRING"
    dst, src = param(f, 0), param(f, 1)
    succ = {(b.id, i) for b, i, s in f.all_stmts() if s.get("k") == "ret" and ir.is_const(s.get("e")) and ir.strip(s["e"])["v"] != 0}
    if not succ:
        raise AnalysisBroken("copy_string has no success return")

    def st_nbytes(s):
        return any(is_param_path(lv, dst["id"]) == "nbytes" and lv.get("k") == "mem" for lv, op, rhs, w in ir.writes_of(s))
    ok, w = paths.all_paths_pass(f, "entry", succ, st_nbytes)
    inst = "copy_string: dst->nbytes stored on every success path"
    (res.oblige(R, inst, True, "", f.loc()) if ok else
     res.fail(R, inst, "R-COPY-STRING|nbytes", f.loc(), "copy_string can succeed without recording the new length", {"path_blocks": w}))

    def st_nul(s):
        for lv, op, rhs, w in ir.writes_of(s):
            l0 = ir.strip(lv)
            if l0.get("k") == "idx" and is_param_path(l0["b"], dst["id"]) == "str" and ir.is_const(rhs, 0):
                # index must be nbytes - 1
                ix = ir.strip(l0["i"])
                if ix.get("k") == "bin" and ix["op"] == "-" and ir.is_const(ix["r"], 1) and \
                        is_param_path(ix["l"], dst["id"]) == "nbytes":
                    return True
        return False

    def zero_len_edge(blk, succ_):
        c = ir.strip(blk.cond_node())
        if isinstance(c, dict) and c.get("k") == "bin" and c["op"] in (">", "!=", "<") :
            l, r, op = c["l"], c["r"], c["op"]
            if ir.is_const(l, 0) and op in ("<", "!="):      # 0 < n
                l, r, op = r, l, {"<": ">", "!=": "!="}[op]
            if op in (">", "!=") and ir.is_const(r, 0) and is_param_path(l, dst["id"]) == "nbytes":
                return succ_.get("label") == "false"
        return False
    ok, w = paths.all_paths_pass(f, "entry", succ, st_nul, edge_ok=zero_len_edge)
    inst = "copy_string: terminating NUL stored at str[nbytes-1] on every success path"
    (res.oblige(R, inst, True, "only the zero-length edge may skip it", f.loc()) if ok else
     res.fail(R, inst, "R-COPY-STRING|nul", f.loc(),
              "copy_string can succeed without terminating the stored string at str[nbytes-1]", {"path_blocks": w}))
    # a newly installed buffer is marked owned
    from .. import congr as _congr
    _defs = _congr.single_defs(f)

    def _from_malloc(rhs):
        if any(c.get("fn") == "malloc" for c in ir.calls_in(rhs)):
            return True
        r0 = ir.strip(rhs)
        return isinstance(r0, dict) and r0.get("k") == "var" and r0.get("id") in _defs and \
            any(c.get("fn") == "malloc" for c in ir.calls_in(_defs[r0["id"]]))
    installs = [(b.id, i, s) for b, i, s in f.all_stmts() for lv, op, rhs, w in ir.writes_of(s)
                if is_param_path(lv, dst["id"]) == "str" and lv.get("k") == "mem" and isinstance(rhs, dict) and _from_malloc(rhs)]
    for bid, i, s in installs:
        def owned(ss):
            return any(is_param_path(lv, dst["id"]) == "is_ref" and ir.is_const(rhs, 0) for lv, op, rhs, w in ir.writes_of(ss))
        ok, w = paths.all_paths_pass(f, (bid, i), succ, owned)
        inst = "copy_string: fresh buffer marked owned (is_ref = 0)"
        (res.oblige(R, inst, True, "", f.loc(s)) if ok else
         res.fail(R, inst, "R-COPY-STRING|is_ref", f.loc(s),
                  "copy_string installs a heap buffer in dst but can succeed leaving is_ref set: destroy will leak it", {"path_blocks": w}))
    if not installs:
        res.notes.append("R-COPY-STRING: no direct 'dst->str = malloc(..)' store recognised; ownership after allocation is decided by R-STRBUF")
    # the source is never written
    wr = [s for b, i, s in f.all_stmts() for lv, op, rhs, w in ir.writes_of(s)
          if lv.get("k") in ("mem", "deref", "idx") and is_param_path(lv, src["id"]) is not None]
    inst = "copy_string: never stores through src"
    (res.oblige(R, inst, True, "", f.loc()) if not wr else
     res.fail(R, inst, "R-COPY-STRING|src-write", f.loc(wr[0]), "copy_string writes to the source string"))
    # the copy length is the source's length, into a buffer at least that long
    growth = any(c.get("fn") == "realloc" for b, i, s in f.all_stmts() for c in ir.calls_in(s))
    inst = "copy_string: buffer grown when the source is longer"
    (res.oblige(R, inst, True, "realloc on the src->nbytes > dst->nbytes edge", f.loc()) if growth else
     res.fail(R, inst, "R-COPY-STRING|grow", f.loc(), "copy_string never grows dst's buffer: a longer source overflows it"))


def o_pair_encaps(prog, res):
    """The (data, size) pair of the dimension array is an owned container: its
    pointer and its element count may only be stored by the functions that
    allocate or release the elements (and by the whole-pair save/restore of the
    copy); a count changed elsewhere no longer matches the owned elements."""
    R = "O-PAIR-ENCAPS"
    owners = set()
    for f in prog.all_funcs():
        if not f.file.endswith("props/storage.c"):
            continue
        allocs = any(c.get("fn") in ("malloc", "free", "storage_dimension_array_init") for b, i, s in f.all_stmts() for c in ir.calls_in(s))
        if allocs:
            owners.add(f.name)
    n = 0
    for f in prog.all_funcs():
        if not f.file.endswith("props/storage.c"):
            continue
        for b, i, s in f.all_stmts():
            for lv, op, rhs, w in ir.writes_of(s):
                if lv.get("k") != "mem":
                    continue
                root, chain = ir.field_chain(lv)
                flds = [x for _, x in chain]
                if "acquisition_dimensions" not in flds:
                    continue
                tail = flds[flds.index("acquisition_dimensions") + 1:]
                if tail not in (["size"], ["data"]):
                    continue
                n += 1
                res.touched(f)
                inst = "%s stores acquisition_dimensions.%s" % (f.name, tail[0])
                if f.name in owners and f.name != "storage_properties_copy":
                    res.oblige(R, inst, True, "inside the allocating/releasing function", f.loc(s))
                else:
                    res.fail(R, inst, "O-PAIR-ENCAPS|%s|%s" % (f.name, tail[0]), f.loc(s),
                             "%s changes acquisition_dimensions.%s directly: the element count / array pointer no longer matches the elements the object owns (elements dropped this way are never released)"
                             % (f.name, tail[0]))
    return n


def index_guard(prog, res):
    """set_dimension writes data[index] only after index < size was tested."""
    f = prog.func("storage_properties_set_dimension")
    res.touched(f)
    out = param(f, 0)
    uses = []
    for b, i, s in f.all_stmts():
        for x in ir.walk(s):
            if x.get("k") == "idx" and is_param_path(x["b"], out["id"]) == "acquisition_dimensions.data":
                uses.append((b.id, i, s, x["i"]))
    if not uses:
        raise AnalysisBroken("storage_properties_set_dimension no longer indexes the dimension array")
    for bid, i, s, ix in uses:
        ixr = ir.render(ir.strip(ix))

        def bound(cn, lab, blk, ixr=ixr):
            c0 = ir.strip(cn)
            neg = False
            while isinstance(c0, dict) and c0.get("k") == "un" and c0.get("op") == "!":
                neg = not neg
                c0 = ir.strip(c0["e"])
            if isinstance(c0, dict) and c0.get("k") == "bin" and c0["op"] == "<" and ir.render(ir.strip(c0["l"])) == ixr and \
                    is_param_path(c0["r"], out["id"]) == "acquisition_dimensions.size":
                return lab == ("false" if neg else "true")
            if isinstance(c0, dict) and c0.get("k") == "bin" and c0["op"] == ">" and ir.render(ir.strip(c0["r"])) == ixr and \
                    is_param_path(c0["l"], out["id"]) == "acquisition_dimensions.size":
                return lab == ("false" if neg else "true")
            return False
        dom, _ = paths.edge_dominated(f, (bid, i), bound)
        inst = "set_dimension: data[%s] guarded by %s < size" % (ixr, ixr)
        if dom:
            res.oblige("GUARD-DOM", inst, True, "", f.loc(s))
        else:
            res.fail("GUARD-DOM", inst, "GUARD-DOM|set_dimension|index", f.loc(s),
                     "storage_properties_set_dimension indexes the dimension array with %s without having tested %s < size (strictly): an index equal to the size writes past the array" % (ixr, ixr))
        break


def overwrite_and_alias_rules(prog, res):
    """Two hazards of the setters / copy helpers of props/storage.c (functions that receive a live
    object): O-OVERWRITE-OWNED - a whole-object overwrite (memset / struct assignment) of a live record
    with owning pointer members is preceded on every path by the release of those members (otherwise the
    previous allocation is never released: 'each allocation exactly once'); R-ALIAS-SAFE - nothing the
    destination owns is released before the last read of a string / pointer parameter (the caller may
    pass the destination's own stored string back, e.g. to change only the other fields)."""
    from .. import congr
    n = 0
    for f in prog.all_funcs():
        if not f.file.endswith("props/storage.c") or not f.blocks:
            continue
        nm = f.name
        live_obj = ("_set_" in nm or nm.endswith("_copy") or "copy_" in nm) and "init" not in nm and "destroy" not in nm
        if not live_obj:
            continue
        ptr_params = [p for p in f.params if p.get("pd")]
        if not ptr_params:
            continue
        rec_params = {p["id"]: p for p in ptr_params if p.get("r")}
        str_params = [p for p in ptr_params if not p.get("r") and "char" in p.get("t", "")]

        def target_record(node, pos):
            """record type of the object a memset / *p = ... overwrites, when it belongs to a parameter object"""
            n0 = ir.strip(congr.resolve_at(prog, f, pos, node)) if isinstance(node, dict) else None
            n1 = ir.strip(node)
            for cand in (n1, n0):
                if isinstance(cand, dict) and cand.get("k") == "var" and cand.get("r") and cand.get("pd") == 1:
                    d = congr.reaching_def(f, pos, cand["id"]) if "p" not in cand else None
                    root = None
                    if d is not None:
                        root, _ = ir.field_chain(ir.strip(d)["e"] if ir.strip(d).get("k") == "addr" else ir.strip(d))
                    if "p" in cand or (isinstance(root, dict) and root.get("k") == "var" and root.get("id") in rec_params):
                        return cand.get("r"), cand
            return None, None

        def releases(st_, var):
            for c in ir.calls_in(st_):
                fn = c.get("fn") or ""
                if fn == "free" or fn.endswith("_destroy"):
                    for a in c.get("args", []):
                        if any(isinstance(y, dict) and y.get("k") == "var" and y.get("id") == var["id"] for y in ir.walk(a)):
                            return True
            return False
        frees = []
        for b, i, s_ in f.all_stmts():
            for c in ir.calls_in(s_):
                fn = c.get("fn") or ""
                if (fn == "free" or fn.endswith("_destroy")) and c.get("args"):
                    frees.append((b.id, i, s_, c))
                if fn == "memset" and len(c.get("args", [])) == 3 and ir.is_const(c["args"][1], 0):
                    rec, var = target_record(c["args"][0], (b.id, i))
                    sz = ir.strip(c["args"][2])
                    if rec and owning_fields(prog, rec) and isinstance(sz, dict) and sz.get("k") == "int" and sz.get("v", 0) >= (prog.record(rec) or {}).get("size", 1 << 60):
                        n += 1
                        ok, w = paths.all_paths_pass(f, "entry", {(b.id, i)}, lambda q, var=var: releases(q, var))
                        inst = "%s: struct %s is not wiped while it owns memory (line %s)" % (nm, rec, s_.get("line"))
                        if ok:
                            res.oblige("O-OVERWRITE-OWNED", inst, True, "released on every path before the memset", f.loc(s_))
                        else:
                            res.fail("O-OVERWRITE-OWNED", inst, "O-OVERWRITE-OWNED|%s|%s" % (nm, rec), f.loc(s_),
                                     "%s zeroes a live struct %s (members %s own heap memory) without releasing it first: when the object was set before, "
                                     "the previous allocation is never released" % (nm, rec, ", ".join(owning_fields(prog, rec))))
        # R-ALIAS-SAFE
        for sp in str_params:
            reads = [(b.id, i) for b, i, s_ in f.all_stmts()
                     if any(isinstance(y, dict) and y.get("k") == "var" and y.get("id") == sp["id"] for y in ir.walk(s_))]
            # reads through a local String built on the parameter
            derived = set()
            for b, i, s_ in f.all_stmts():
                if s_.get("k") == "decl" and isinstance(s_.get("init"), dict) and \
                        any(isinstance(y, dict) and y.get("k") == "var" and y.get("id") == sp["id"] for y in ir.walk(s_["init"])):
                    derived.add(s_["var"]["id"])
            reads += [(b.id, i) for b, i, s_ in f.all_stmts()
                      if any(isinstance(y, dict) and y.get("k") == "var" and y.get("id") in derived for y in ir.walk(s_)) and s_.get("k") != "decl"]
            for fb, fi, fs, fc in frees:
                later = [r for r in reads if r != (fb, fi) and r in {(x[0], x[1]) for x in paths.reachable_after(f, (fb, fi), lambda q: True)}]
                n += 1
                inst = "%s: nothing the destination owns is released (line %s) before %s is read for the last time" % (nm, fs.get("line"), sp["n"])
                if not later:
                    res.oblige("R-ALIAS-SAFE", inst, True, "", f.loc(fs))
                else:
                    res.fail("R-ALIAS-SAFE", inst, "R-ALIAS-SAFE|%s|%s" % (nm, sp["n"]), f.loc(fs),
                             "%s releases memory of the destination (%s) and reads its parameter %s afterwards: a caller that passes the destination's own stored string "
                             "(to change only the other values) makes it read freed memory" % (nm, ir.render(fc), sp["n"]))
    return n


def alias_view_rule(prog, res, rule="R-ALIAS-VIEW"):
    """The storage devices' get() hands out a struct copy of the properties they own - a shallow view whose
    string and array pointers are the owner's.  A client that reads the configuration and sets it again makes
    that view the *source* of a copy into its own owner.  So in every function of props/storage.c that takes a
    destination and a source of one record type: an operation that wipes or releases what a pointer member F
    of the destination refers to ( memset(dst->F..), free / realloc(dst->F), a helper that frees P->F ) and
    is followed by a read through the source's F is reached only through the not-equal edge of a comparison
    of dst->F with src->F."""
    from .. import congr
    from ..freelive import summaries, released, _root_and_rest
    fns = [g for v in prog.funcs.values() for g in v if g.file.endswith("props/storage.c") and g.blocks]
    by = {g.name: g for g in fns}
    # helpers: which fields of their parameter do they free at all (reseated or not)?
    frees = {g.name: set() for g in fns}
    summ0 = {g.name: {"param": set(), "field": set()} for g in fns}
    for _ in range(4):
        for g in fns:
            pn = [p_.get("n") for p_ in g.params]
            for b, i, s_, a, why in released(prog, g, {k: {"param": set(), "field": set(frees[k])} for k in frees}, by):
                root, rest = _root_and_rest(a)
                if root in pn and rest.startswith("->"):
                    frees[g.name].add((pn.index(root), rest))
    n = 0
    for f in fns:
        recs = [p_ for p_ in f.params if p_.get("pd") == 1 and p_.get("r")]
        if len(recs) < 2:
            continue
        dst = next((p_ for p_ in recs if "const" not in p_.get("t", "")), None)
        src = next((p_ for p_ in recs if p_ is not dst and p_.get("r") == (dst or {}).get("r")), None)
        if dst is None or src is None:
            continue
        res.touched(f)
        dn, sn = dst["n"], src["n"]
        events = []     # (pos, stmt, field path, how)
        for b, i, s_ in f.all_stmts():
            for c in ir.calls_in(s_):
                fn = c.get("fn") or ""
                args = c.get("args", [])
                if fn in ("memset", "__builtin_memset") and args:
                    a = ir.ap(ir.strip(args[0]))
                    if a and a.startswith(dn + "->"):
                        events.append(((b.id, i), s_, a[len(dn):], "memset"))
                elif fn in ("free", "realloc") and args:
                    a = ir.ap(ir.strip(args[0]))
                    if a and a.startswith(dn + "->"):
                        events.append(((b.id, i), s_, a[len(dn):], fn))
                elif fn in frees and by[fn] is not f:
                    h = by[fn]
                    if sum(1 for p_ in h.params if p_.get("pd") == 1 and p_.get("r")) >= 2:
                        continue    # a (dst, src) helper is judged on its own
                    for k, rest in frees[fn]:
                        if k < len(args) and ir.ap(ir.strip(args[k])) == dn:
                            events.append(((b.id, i), s_, rest, fn))
        for pos, s_, path, how in events:
            later = paths.reachable_after(f, pos, lambda q: any(
                (ir.ap(y) or "").startswith(sn + path) for y in ir.walk(q) if isinstance(y, dict) and y.get("k") in ("mem", "idx", "deref")))
            if how == "memset":
                later = list(later) or [pos] if any((ir.ap(y) or "").startswith(sn + path) for y in ir.walk(s_) if isinstance(y, dict)) else later
            if not later:
                continue

            def differs(cn, lab, blk, path=path):
                if lab not in ("true", "false"):
                    return False
                c = ir.strip(congr.resolve_at(prog, f, (blk.id, blk.cond if blk.cond is not None else len(blk.stmts)), cn))
                neg = False
                while isinstance(c, dict) and c.get("k") == "un" and c.get("op") == "!":
                    neg = not neg
                    c = ir.strip(c["e"])
                if not (isinstance(c, dict) and c.get("k") == "bin" and c.get("op") in ("==", "!=")):
                    return False
                l, r = ir.ap(ir.strip(c["l"])), ir.ap(ir.strip(c["r"]))
                if {l, r} != {dn + path, sn + path}:
                    return False
                ne_edge = (lab == "true") == (c["op"] == "!=")
                return ne_edge != neg
            ok = paths.edge_dominated(f, pos, differs)[0] or \
                (how != "memset" and all(paths.edge_dominated(f, (x[0], x[1]), differs)[0] for x in later))
            n += 1
            inst = "%s: %s of %s%s (line %s) happens only when %s%s is a different block" % (f.name, how, dn, path, s_.get("line"), sn, path)
            if ok:
                res.oblige(rule, inst, True, "the operation, or every later read of the source's block, is dominated by the not-equal edge of a comparison of the two pointers", f.loc(s_))
            else:
                res.fail(rule, inst, "%s|%s|%s" % (rule, f.name, path.lstrip("->.")), f.loc(s_),
                         "%s wipes or releases what %s%s points to (%s) and reads %s%s afterwards without having compared the two pointers: when the source is the shallow view of the "
                         "destination that a storage device's get() returns (read the configuration, set it again), the copy reads the bytes it has just zeroed or the array it has just freed"
                         % (f.name, dn, path, how, sn, path))
    return n


def run(ctx, res):
    prog = ctx.program()
    res.extra["explanation"] = EXPLANATION
    res.assumptions += [
        "allocation failure paths return 0 and are outside the property",
        "dst and src are distinct live objects",
        "memcpy/memset behave as specified",
    ]
    f = prog.func("storage_properties_copy")
    res.touched(f)
    o_shallow(prog, res, f)
    o_fieldcov_copy(prog, res, f)
    o_fieldcov_dimension(prog, res)
    destroy_coverage(prog, res)
    def _free_null(prog_, res_):
        n_ = o_free_null(prog_, res_, ["storage_dimension_destroy", "storage_properties_dimensions_destroy",
                                       "storage_properties_destroy"])
        if n_ < 3:
            # the frees may have moved into a helper: O-FREE-LIVE (below) follows helpers; this rule alone
            # then ends as analysis-broken unless another rule reports a violation
            raise AnalysisBroken("expected three free() sites in the destroy functions, found %d" % n_)
    res.guard(_free_null, prog, res)
    copy_string_rules(prog, res)
    res.guard(string_buffer, prog, res)
    res.guard(dimension_rules, prog, res)
    res.guard(overwrite_and_alias_rules, prog, res)
    res.guard(alias_view_rule, prog, res)
    res.require_min("R-ALIAS-VIEW", 2)
    res.require_min("R-DIMS", 8)
    index_guard(prog, res)
    if o_pair_encaps(prog, res) < 1:
        raise AnalysisBroken("no store to acquisition_dimensions.size/data found")
    res.require_min("O-SHALLOW", 5)
    res.require_min("O-FIELDCOV", 14)
    from ..freelive import rule_free_live
    res.guard(rule_free_live, prog, res, "device/props/storage.c")
    res.require_min("O-FREE-LIVE", 3)
    res.require_min("O-FREE-NULL", 3)
    res.require_min("R-COPY-STRING", 5)
    res.require_min("R-STRBUF", 1)
