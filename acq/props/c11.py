"""C11 — HAL wrappers enforce the device protocol and never touch a closed
device.  Exhaustive typestate simulation of camera.c / storage.c against an
abstract driver (DESIGN.md 4/C11)."""
from .. import ir, paths
from ..tsim import Interp, Explorer, I, TOP, NZ, ZERO, is_ptr, is_int, canon
from ..hal import HalModel, G_STARTED, G_CLOSED, G_LAST
from ..build import AnalysisBroken

EXPLANATION = (
    "Typestate / property simulation of the real HAL wrapper functions "
    "(camera.c, storage.c, driver.c) over their clang CFGs against an abstract "
    "driver: after open, every finite sequence of the public wrappers is "
    "explored to a fixpoint of the inter-call abstract states (device state "
    "field x ghost 'started' x ghost 'closed'), each driver slot returning "
    "every enumerator of its declared return type. Assertions: the driver's "
    "stop/get_frame/append are reached only after a successful start; one close "
    "per open; no load or store through the device after the driver released "
    "it; the state the HAL holds after start/append/get_frame follows from the "
    "driver's answer. Exhaustive within the abstraction; the abstraction tracks "
    "only constants, enumerators and pointers (all other integers are unknown).")

CAMERA_OPS = [
    ("camera_set", ["dev", "arg"]),
    ("camera_get", ["dev", "arg"]),
    ("camera_get_meta", ["dev", "arg"]),
    ("camera_get_image_shape", ["dev", "arg"]),
    ("camera_start", ["dev"]),
    ("camera_stop", ["dev"]),
    ("camera_execute_trigger", ["dev"]),
    ("camera_get_frame", ["dev", "arg", "arg2", "arg"]),
    ("camera_get_state", ["dev"]),
]
STORAGE_OPS = [
    ("storage_set", ["dev", "arg"]),
    ("storage_get", ["dev", "arg"]),
    ("storage_get_meta", ["dev", "arg"]),
    ("storage_start", ["dev"]),
    ("storage_stop", ["dev"]),
    ("storage_append", ["dev", "beg", "end"]),
    ("storage_reserve_image_shape", ["dev", "arg"]),
    ("storage_get_state", ["dev"]),
]
EXPLANATION += (' Camera state-follows table complete; a rejected set stops a camera the HAL believed Running; open returns only devices of the right kind with non-NULL slots (T-SLOTS with polarity); HAL-FORWARD: storage_append hands every non-empty region to the driver; leak keys separate the recorded describe-failure paths from other leaks.')



def argval(a):
    if a == "dev":
        return ("ptr", "obj:device", ())
    if a == "arg":
        return ("ptr", "obj:arg", ())
    if a == "arg2":
        return ("ptr", "obj:arg2", ())
    if a == "beg":
        return ("ptr", "obj:frames", ())
    if a == "end":
        return ("ptr", "obj:frames", ("[*]",))
    return TOP


C09_RULES = ("HAL-FAIL-STOPS",)


def run_kind(prog, res, kind):
    model = HalModel(prog, kind)
    it = Interp(prog, model.stubs())
    ops_tab = CAMERA_OPS if kind == "Camera" else STORAGE_OPS
    low = kind.lower()
    for name, _ in ops_tab + [(low + "_open", None), (low + "_close", None)]:
        res.touched(prog.func(name))
    res.touched(prog.func("driver_open_device"))
    RUN = model.RUNNING
    OK = model.OK
    S = model.states
    checked = {"post": 0}

    def post(name, before, rv, st):
        """The state the HAL holds follows from the driver's last answer."""
        last = st.get(G_LAST)
        state = model.dev_state(it, st)
        checked["post"] += 1

        def bad(what, msg):
            model.report(it, "HAL-STATE-FOLLOWS", "%s|%s" % (name, what), msg)
        if last is None or not is_int(state):
            return
        slot, val = last
        if kind == "Camera":
            if name == "camera_start" and slot == "start":
                if val == OK and (state[1] != RUN or rv != I(OK)):
                    bad("ok", "camera_start: the driver's start() succeeded but the HAL state is %s / result %s" % (state, rv))
                if val != OK and (state[1] == RUN or rv == I(OK)):
                    bad("err", "camera_start: the driver's start() failed but the HAL reports Running or success")
            if name == "camera_get_frame" and slot in ("get_frame", "stop"):
                if slot == "stop" and state[1] == RUN:
                    bad("fail-running", "camera_get_frame: frame call failed but the HAL still reports Running")
                if slot == "get_frame" and val != OK and (state[1] == RUN or rv == I(OK)):
                    bad("fail", "camera_get_frame: the driver's get_frame() failed but the HAL reports Running or success")
                if slot == "get_frame" and val == OK and rv != I(OK):
                    bad("ok", "camera_get_frame: the driver's get_frame() succeeded but the wrapper reports failure")
            if name == "camera_get_frame" and slot == "get_frame" and val != OK and st.get(G_STARTED):
                model.report(it, "HAL-FAIL-STOPS", "camera_get_frame|not-stopped",
                             "camera_get_frame: the driver's get_frame() failed on a started camera and the wrapper returns without the driver's stop() having been called; the HAL state is no longer Running, so no later stop reaches the driver")
            if name == "camera_set" and slot == "set" and val != OK and st.get(G_STARTED) and before == RUN:
                model.report(it, "HAL-FAIL-STOPS", "camera_set|not-stopped",
                             "camera_set: the driver rejected the settings of a started camera and the wrapper returns without the driver's stop() having been called; the HAL state is no longer Running, so no later stop reaches the driver")
            if name == "camera_stop" and slot == "stop" and state[1] == RUN:
                bad("still-running", "camera_stop: the driver's stop() was called but the HAL still reports Running")
            if name == "camera_set" and slot in ("set", "stop"):
                if slot == "stop" and state[1] == RUN:
                    bad("fail-running", "camera_set: configuration failed but the HAL still reports Running")
                if slot == "set" and val != OK and state[1] == RUN:
                    bad("fail", "camera_set: the driver rejected the settings but the HAL still reports Running")
                AWAIT, ARMED = S["DeviceState_AwaitingConfiguration"], S["DeviceState_Armed"]
                if slot == "set" and val == OK:
                    want = RUN if before == RUN else ARMED
                    if state[1] != want:
                        bad("ok-state", "camera_set: the driver accepted the settings on a device that was %s, but the HAL holds %s (expected %s): "
                            "a running camera must stay Running (else it is started twice), any other becomes Armed" % (before, state[1], want))
                if (slot == "stop" or (slot == "set" and val != OK)) and state[1] != AWAIT:
                    bad("fail-state", "camera_set: the settings were rejected but the HAL holds %s instead of AwaitingConfiguration" % (state[1],))
            AWAIT, ARMED = S["DeviceState_AwaitingConfiguration"], S["DeviceState_Armed"]
            if name == "camera_start" and slot == "start" and val != OK and state[1] != AWAIT:
                bad("err-state", "camera_start: the driver's start() failed but the HAL holds %s instead of AwaitingConfiguration" % (state[1],))
            if name == "camera_stop" and slot == "stop":
                want = ARMED if val == OK else AWAIT
                if state[1] != want:
                    bad("state", "camera_stop: the driver's stop() answered %s but the HAL holds %s (expected %s)" % (val, state[1], want))
            if name == "camera_get_frame" and slot in ("get_frame", "stop") and not (slot == "get_frame" and val == OK) and state[1] != AWAIT:
                bad("fail-state", "camera_get_frame: the frame call failed but the HAL holds %s instead of AwaitingConfiguration" % (state[1],))
        else:
            if name == "storage_start" and slot == "start":
                if state[1] != val:
                    bad("adopt", "storage_start: the driver's start() answered %s but the HAL holds %s" % (val, state[1]))
                if (val == RUN) != (rv == I(OK)):
                    bad("result", "storage_start: result does not match the driver's answer")
            if name == "storage_append" and slot == "append":
                if state[1] != val:
                    bad("adopt", "storage_append: the driver's append() answered %s but the HAL holds %s" % (val, state[1]))
                if (val == RUN) != (rv == I(OK)):
                    bad("result", "storage_append: a non-Running answer of append() must be reported as an error (and Running as success)")
            if name == "storage_stop" and slot == "stop" and state[1] != val:
                bad("adopt", "storage_stop: the driver's stop() answered %s but the HAL holds %s" % (val, state[1]))
            if name == "storage_set" and slot == "set":
                if val == RUN and before != RUN and state[1] == RUN:
                    bad("running-from-set", "storage_set: the HAL adopts Running from the driver's set() on a device that was never started")
                if (state[1] == S["DeviceState_Armed"]) != (rv == I(OK)):
                    bad("result", "storage_set: success reported although the device is not Armed (or vice versa)")

    def mk_op(name, args):
        def op(interp, st):
            if st.get(G_CLOSED) or st.get(("nodev",)):
                return []
            before = model.dev_state(it, st)
            st0 = st.delete_where(lambda k: k == G_LAST)
            outs = []
            for rv, s2 in it.run(name, [argval(a) for a in args], st0):
                post(name, before[1] if is_int(before) else None, rv, s2)
                s2 = s2.delete_where(lambda k: k == G_LAST)
                outs.append(("%s->%s" % (name, rv[1] if is_int(rv) else "?"), s2))
            return outs
        return op

    def close_op(interp, st):
        if st.get(G_CLOSED) or st.get(("nodev",)):
            return []
        outs = []
        for rv, s2 in it.run(low + "_close", [argval("dev")], st):
            if not s2.get(G_CLOSED):
                model.report(it, "HAL-CLOSE-ONCE", "%s_close>no-close" % low,
                             "%s_close returns without the driver's close() having been called" % low)
            outs.append((low + "_close", s2))
        return outs

    ops = [(n, mk_op(n, a)) for n, a in ops_tab] + [(low + "_close", close_op)]

    # open
    s0 = model.initial_state()
    inits = []
    for rv, s in it.run(low + "_open", [("ptr", "obj:system", ()), ("ptr", "obj:ident", ())], s0):
        if is_ptr(rv):
            inits.append(("open", s))
        else:
            # failed open must not leave an un-closed device behind
            if ("obj:device", ("state",)) in s.m and not s.get(G_CLOSED) and not s.get(("freed", "obj:device")):
                if s.get(("ghost", kind, "described")) == 0:
                    model.report(it, "HAL-CLOSE-ONCE", "%s_open>leak" % low,
                                 "%s_open reports failure after the driver had opened the device (describe() failed in driver_open_device) and never closes it: an open without a close" % low)
                else:
                    model.report(it, "HAL-CLOSE-ONCE", "%s_open>leak-after-describe" % low,
                                 "%s_open reports failure although the driver opened and described the device, and never closes it: an open without a close" % low)
            inits.append(("open-failed", s.set(("nodev",), 1)))
    ex = Explorer(it, ops)
    ex.explore(inits)
    if kind == "Storage":
        # storage_validate opens, configures and closes a device of its own
        res.touched(prog.func("storage_validate"))
        it.cur_witness = ["storage_validate"]
        for rv, s in it.run("storage_validate", [("ptr", "obj:system", ()), ("ptr", "obj:ident", ()),
                                                  ("ptr", "obj:arg", ())], s0):
            opened = s.get(model.G_CLOSED) is not None
            if opened and not s.get(model.G_CLOSED):
                last = s.get(G_LAST)
                kind_v = dict(prog.enum_values("DeviceKind"))["DeviceKind_Storage"]
                adopted = it.read_quiet(s, (model.DEV, ("device", "identifier", "kind")))
                if not (is_int(adopted) and adopted[1] == kind_v):
                    adopted = it.read_quiet(s, (model.DEV, ("identifier", "kind")))
                if (last and last[0] == "set") or (is_int(adopted) and adopted[1] == kind_v and s.get(("ghost", kind, "described")) == 1):
                    model.report(it, "HAL-CLOSE-ONCE", "storage_validate>leak-after-set",
                                 "storage_validate returns with the device it opened and configured still open")
                else:
                    model.report(it, "HAL-CLOSE-ONCE", "storage_validate>leak",
                                 "storage_validate returns with the device it opened still open (the open path failed after the driver's open())")
            ex.transitions += 1
    if it.truncated:
        raise AnalysisBroken("exploration truncated: %s" % it.truncated[:3])
    n_dev_states = len({(model.dev_state(it, s), s.get(G_STARTED), s.get(G_CLOSED)) for s in ex.states.values()})
    return model, it, ex, n_dev_states, checked


def run(ctx, res):
    prog = ctx.program()
    res.extra["explanation"] = EXPLANATION
    res.assumptions += [
        "one thread drives a device's HAL calls at a time (the sequential protocol)",
        "a driver slot may return any enumerator of its declared type except the ...Count sentinel",
        "'started' is cleared when the stop slot was called (camera) / answered a non-Running state (storage)",
        "a closed device handle is not used again by a well-formed client",
        "integers other than constants/enumerators are unknown; pointers identify abstract objects by allocation site",
    ]
    total_states = total_trans = 0
    samples = []
    for kind in ("Camera", "Storage"):
        model, it, ex, ndev, checked = run_kind(prog, res, kind)
        total_states += len(ex.states)
        total_trans += ex.transitions
        for k, st in list(ex.states.items())[:6]:
            samples.append({"kind": kind, "witness_sequence": ex.witness[k],
                            "device_state": str(model.dev_state(it, st)),
                            "started": st.get(G_STARTED), "closed": st.get(G_CLOSED)})
        inst = "%s wrappers x abstract driver" % kind
        for key in [k for k, r in it.reports.items() if r["rule"] in C09_RULES]:
            del it.reports[key]  # decided under C09
        if it.reports:
            for key, r in sorted(it.reports.items()):
                res.fail(r["rule"], inst + ": " + key.split("|", 2)[-1], key,
                         "%s.c" % kind.lower(), r["message"], r["witness"])
        res.oblige("HAL-EXPLORE", inst, not it.reports,
                   "%d abstract inter-call states, %d transitions, %d distinct (state,started,closed), %d post-condition checks, %d inlined calls"
                   % (len(ex.states), ex.transitions, ndev, checked["post"], it.stats["calls"]),
                   "%s.c" % kind.lower())
        # one obligation per wrapper explored
        for name, _ in (CAMERA_OPS if kind == "Camera" else STORAGE_OPS):
            bad = [k for k in it.reports if name in k]
            res.oblige("HAL-WRAPPER", name, not bad,
                       "explored from every reachable state with every driver answer", prog.func(name).loc())
        res.extra.setdefault("externals_seen", sorted(model.externals))
    res.extra["states"] = total_states
    res.extra["transitions"] = total_trans
    res.extra["exhaustive"] = True
    res.samples += samples

    # T-SLOTS: every function-pointer member is tested non-NULL in *_open
    for kind in ("Camera", "Storage"):
        f = prog.func(kind.lower() + "_open")
        rec = prog.record(kind)
        slots = [x["n"] for x in rec["fields"] if x.get("fnptr")]
        tested = set()
        for b in f.blocks.values():
            c = b.cond_node()
            if c is None:
                continue
            for x in ir.walk(c):
                if x.get("k") == "mem" and x.get("rec") == kind:
                    tested.add(x["f"])
        succ = [(b.id, i) for b, i, st_ in f.all_stmts() if st_.get("k") == "ret" and "e" in st_ and not ir.is_const(st_["e"], 0)]

        def holds_edge(match):
            """edge predicate: the condition (modulo !, ==, !=) establishes `match(operand)` on this edge"""
            def pred(cn, lab, blk):
                c0 = ir.strip(cn)
                neg = False
                while isinstance(c0, dict) and c0.get("k") == "un" and c0.get("op") == "!":
                    neg = not neg
                    c0 = ir.strip(c0["e"])
                if isinstance(c0, dict) and c0.get("k") == "bin" and c0.get("op") in ("==", "!="):
                    l, r = ir.strip(c0["l"]), ir.strip(c0["r"])
                    for a, b_ in ((l, r), (r, l)):
                        m = match(a, b_)
                        if m is not None:
                            on_true = ((c0["op"] == "==") == m) != neg
                            return (lab == "true") == on_true
                    return False
                m = match(c0, None)
                if m is not None:
                    return (lab == "true") == (not neg)
                return False
            return pred

        def slot_nonnull(sname):
            def match(a, other):
                if isinstance(a, dict) and a.get("k") == "mem" and a.get("rec") == kind and a.get("f") == sname:
                    if other is None:
                        return True        # bare `slot`: truthy means non-null
                    if ir.is_const(other, 0):
                        return False       # `slot == 0` is the null test: non-null holds where it is false
                return None
            return match
        kind_enum = "DeviceKind_%s" % kind

        def kind_is(a, other):
            if isinstance(a, dict) and a.get("k") == "mem" and a.get("f") == "kind" and isinstance(other, dict) and other.get("e") == kind_enum:
                return True
            return None
        okk = bool(succ) and all(paths.edge_dominated(f, p, holds_edge(kind_is))[0] for p in succ)
        inst = "%s_open returns a device only for an identifier of kind %s" % (kind.lower(), kind_enum)
        if okk:
            res.oblige("T-SLOTS", inst, True, "dominated by identifier->kind == %s" % kind_enum, f.loc())
        else:
            res.fail("T-SLOTS", inst, "T-SLOTS|%s|kind" % kind, f.loc(),
                     "%s_open can return a device for an identifier of another kind: containerof() then reinterprets a different device type as struct %s" % (kind.lower(), kind))
        for s in slots:
            ok = s in tested and bool(succ) and all(paths.edge_dominated(f, p, holds_edge(slot_nonnull(s)))[0] for p in succ)
            inst = "%s_open checks %s" % (kind.lower(), s)
            if ok:
                res.oblige("T-SLOTS", inst, True, "slot tested before the device is returned", f.loc())
            else:
                res.fail("T-SLOTS", inst, "T-SLOTS|%s|%s" % (kind, s), f.loc(),
                         "%s_open returns a device without checking that its %s slot is non-NULL; the wrapper calls it unconditionally" % (kind.lower(), s))
    # storage_append forwards every non-empty region to the driver: a success
    # return is reached through the driver's append slot, or through the edge
    # on which the region is empty (beg >= end); the byte count handed over is
    # end - beg
    f = prog.func("storage_append")
    res.touched(f)
    oks = {(b.id, i) for b, i, st_ in f.all_stmts() if st_.get("k") == "ret" and isinstance(ir.strip(st_.get("e")), dict)
           and ir.strip(st_["e"]).get("e") == "Device_Ok"}
    pb, pe = f.params[1], f.params[2]

    def calls_slot(q):
        return any(c.get("k") == "call" and not c.get("fn") and "append" in ir.render(c.get("callee") or {}) for c in ir.calls_in(q))

    def empty_edge(blk, sc):
        """the edge on which the region is known empty (end <= beg), decided by the linear domain"""
        from .. import linear as L
        cn = blk.cond_node()
        if cn is None or sc.get("label") not in ("true", "false"):
            return False
        ids = {y.get("id") for y in ir.walk(cn) if isinstance(y, dict) and y.get("k") == "var"}
        if not ({pb["id"], pe["id"]} <= ids):
            return False
        an = L.Analysis(prog)
        an.inline = False
        T, F = an.branch(f, cn, L.State())
        states = T if sc["label"] == "true" else F
        if not states:
            return False
        for st_ in states:
            vb = an.eval(f, dict(pb, k="var"), st_)[0][0]
            ve = an.eval(f, dict(pe, k="var"), st_)[0][0]
            if not st_.entails_le(L.lsub(ve, vb)):
                return False
        return True
    ok, w = paths.all_paths_pass(f, "entry", oks, calls_slot, edge_ok=empty_edge) if oks else (False, None)
    inst = "storage_append hands every non-empty region to the driver's append"
    if ok:
        res.oblige("HAL-FORWARD", inst, True, "success only through the append slot or the empty-region edge", f.loc())
    else:
        res.fail("HAL-FORWARD", inst, "HAL-FORWARD|storage_append", f.loc(),
                 "storage_append can report success for a non-empty region without calling the driver's append: the frames are dropped silently", {"path_blocks": w})
    res.require_min("HAL-FORWARD", 1)
    res.require_min("HAL-WRAPPER", 17)
    res.require_min("T-SLOTS", 14)
