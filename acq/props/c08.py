"""C08 — devices see a disciplined life cycle under any sequence of API calls.
Decided (DESIGN.md 4/C08): pointer/protocol typestate of the source's camera
and the sink's storage under every sequence of configure (same / other
device) / start / worker body / destroy with every driver answer; start only
when Armed; append only from the sink worker; shutdown order."""
from .. import ir, paths
from ..tsim import Interp, State, Explorer, I, TOP, NZ, ZERO, is_ptr, is_int, canon
from ..hal import HalModel, G_STARTED, G_CLOSED, G_LAST
from ..build import AnalysisBroken

EXPLANATION = (
    "Static analysis. (1) Typestate simulation of the real controller code "
    "(video_source_configure/start/thread/destroy, video_sink_configure/start/"
    "thread/destroy) on top of the real HAL wrappers and an abstract driver: "
    "every finite sequence of configure with the same or another device "
    "identifier, start, the worker body run to completion, and destroy, each "
    "driver slot returning every enumerator of its type; explored to a fixpoint "
    "of the abstract inter-call states. Assertions: no load/store through a "
    "device after the driver released it, one close per open, nothing but close "
    "after close, the driver's stop/get_frame/append only after a successful "
    "start, and when the worker body returns the device it started has been "
    "stopped (stopped once per start); after destroy the handle is closed or "
    "was never opened. (2) CFG rules: camera_start / storage_start are dominated "
    "by a test that the HAL state is Armed; storage_append is called only from "
    "the sink worker; acquire_shutdown aborts, then destroys source, filter and "
    "sink of every stream, then destroys the device manager, then frees the "
    "runtime; acquire_get_state derives Running from all three worker flags. "
    "The product of client programs with live worker schedules (re-configure "
    "while a worker is inside a HAL call, double start) is outside the "
    "sequential model and is not decided.")
EXPLANATION += (' R-IDENT-EQ: identifier comparison helpers exact (linear domain) and the remembered identifier updated after every open. R-THREAD-EXIT: flags cleared, device stopped, no device call after is_running = 0.')



def sim_controller(prog, res, which):
    kind = "Camera" if which == "source" else "Storage"
    model = HalModel(prog, kind)
    stubs = model.stubs()

    def const(v):
        return lambda it, s, vals, fr, n: [(v, s)]

    def either(*vs):
        return lambda it, s, vals, fr, n: [(v, s) for v in vs]
    stubs.update({
        "channel_write_map": either(("ptr", "obj:ring", ()), ZERO),
        "channel_write_unmap": const(TOP), "channel_abort_write": const(TOP),
        "channel_read_map": const(TOP), "channel_read_unmap": const(TOP),
        "channel_accept_writes": const(TOP), "channel_release": const(TOP),
        "make_vfslice": const(TOP), "vfslice_split_at_delay_ms": const(TOP),
        "throttler_init": const(TOP), "throttler_wait": const(TOP),
        "thread_create": either(I(1), I(0)), "thread_join": const(TOP), "thread_init": const(TOP),
        "bytes_of_image": const(TOP), "clock_tic": const(TOP), "check_frame_id": const(TOP),
        "memset": const(TOP),
    })
    it = Interp(prog, stubs)
    obj = "obj:ctl"
    self_p = ("ptr", obj, ())
    s0 = model.initial_state()
    kinds = dict(prog.enum_values("DeviceKind"))
    s0 = s0.update({
        (obj, ("<z>",)): 1,
        ("obj:identA", ("kind",)): I(kinds["DeviceKind_" + kind]), ("obj:identA", ("driver_id",)): I(0),
        ("obj:identA", ("device_id",)): I(0), ("obj:identA", ("<t>",)): 1,
        ("obj:identB", ("kind",)): I(kinds["DeviceKind_" + kind]), ("obj:identB", ("driver_id",)): I(0),
        ("obj:identB", ("device_id",)): I(1), ("obj:identB", ("<t>",)): 1,
        ("obj:ring", ("<t>",)): 1,
        (obj, ("max_frame_count",)): TOP,
    })
    for cb in ("await_filter_reset", "sig_stop_filter", "sig_stop_sink", "sig_stop_source"):
        s0 = s0.set((obj, (cb,)), ("fn", "@callback"))
    stubs["@callback"] = const(TOP)
    handle = ("camera",) if which == "source" else ("storage",)
    pre = "video_%s_" % which
    for nm in ("configure", "start", "thread", "destroy"):
        res.touched(prog.func(pre + nm))

    def post_common(name, s2):
        pass

    def op_configure(ident):
        def op(interp, st):
            if st.get(("destroyed",)):
                return []
            outs = []
            args = [self_p, ("ptr", "obj:system", ()), ("ptr", ident, ()), ("ptr", "obj:arg", ())]
            args += [TOP, TOP] if which == "source" else [TOP]
            for rv, s2 in it.run(pre + "configure", args, st):
                outs.append(("%sconfigure(%s)->%s" % (pre, ident[-1], rv[1] if is_int(rv) else "?"), s2))
            return outs
        return op

    def op_start(interp, st):
        if st.get(("destroyed",)):
            return []
        outs = []
        for rv, s2 in it.run(pre + "start", [self_p], st):
            if rv == I(model.OK):
                s2 = s2.set(("worker",), 1)
            outs.append(("%sstart->%s" % (pre, rv[1] if is_int(rv) else "?"), s2))
        return outs

    def op_thread(interp, st):
        if not st.get(("worker",)) or st.get(("destroyed",)):
            return []
        outs = []
        for rv, s2 in it.run(pre + "thread", [self_p], st):
            if s2.get(G_STARTED) and not s2.get(G_CLOSED) and not s2.get(("G", "stop_attempted")):
                model.report(it, "CTL-STOP-PER-START", "%sthread|not-stopped" % pre,
                             "%sthread returns while the device it was started on has not been stopped by the driver's stop(): a start without a stop"
                             % pre)
            s2 = s2.set(("worker",), 0)
            outs.append(("%sthread" % pre, s2))
        return outs

    def op_destroy(interp, st):
        if st.get(("destroyed",)):
            return []
        if st.get(("worker",)):
            # the worker is joined by destroy: run it first (sequential model)
            return []
        outs = []
        for rv, s2 in it.run(pre + "destroy", [self_p], st):
            h = it.read_quiet(s2, (obj, handle))
            opened = ("obj:device", ("state",)) in st.m or st.get(G_CLOSED) is not None
            if is_ptr(h) and not s2.get(G_CLOSED) and not s2.get(("freed", h[1])):
                model.report(it, "CTL-CLOSE", "%sdestroy|not-closed" % pre,
                             "%sdestroy returns with an open device handle that was never closed" % pre)
            outs.append((pre + "destroy", s2.set(("destroyed",), 1)))
        return outs

    ops = [("configure(A)", op_configure("obj:identA")), ("configure(B)", op_configure("obj:identB")),
           ("start", op_start), ("thread", op_thread), ("destroy", op_destroy)]
    ex = Explorer(it, ops)
    it.cur_witness = ["init"]
    ex.explore([("init", s0)])
    if it.truncated:
        raise AnalysisBroken("controller simulation truncated: %s" % it.truncated[:3])
    return model, it, ex


def guard_start(prog, res):
    R = "GUARD-DOM"
    for fname, callee, getter in (("video_source_start", "camera_start", "camera_get_state"),
                                  ("video_sink_start", "storage_start", "storage_get_state")):
        f = prog.func(fname)
        res.touched(f)
        sites = [(b.id, i, s) for b, i, s in f.all_stmts() if any(c.get("fn") == callee for c in ir.calls_in(s))]
        if not sites:
            raise AnalysisBroken("%s no longer calls %s" % (fname, callee))
        for bid, i, s in sites:
            def armed(cn, lab, blk):
                c0 = ir.strip(cn)
                neg = False
                while isinstance(c0, dict) and c0.get("k") == "un" and c0.get("op") == "!":
                    neg = not neg
                    c0 = ir.strip(c0["e"])
                if isinstance(c0, dict) and c0.get("k") == "bin" and c0["op"] == "==":
                    sides = [ir.strip(c0["l"]), ir.strip(c0["r"])]
                    has_get = any(isinstance(x, dict) and x.get("k") == "call" and x.get("fn") == getter for x in sides)
                    has_armed = any(isinstance(x, dict) and x.get("e") == "DeviceState_Armed" for x in sides)
                    if has_get and has_armed:
                        return lab == ("false" if neg else "true")
                return False
            dom, _ = paths.edge_dominated(f, (bid, i), armed)
            inst = "%s: %s only when the device is Armed" % (fname, callee)
            if dom:
                res.oblige(R, inst, True, "dominated by %s() == DeviceState_Armed" % getter, f.loc(s))
            else:
                res.fail(R, inst, "GUARD-DOM|%s|%s" % (fname, callee), f.loc(s),
                         "%s can start a device that is not Armed (running or unconfigured): a device is started twice without a stop in between" % fname)


def identifier_equality(prog, res, rule="R-IDENT-EQ"):
    """The controllers decide "same device as before" with a helper comparing
    two DeviceIdentifiers; it must be true exactly when driver_id and
    device_id both agree (linear-relations analysis of the helper): a weaker
    test keeps a device open that should have been exchanged, a stronger one
    re-opens a device that is in use."""
    from .. import linear as L
    n = 0
    for f in prog.all_funcs():
        ps = f.params
        if len(ps) != 2 or not all(p.get("r") == "DeviceIdentifier" and p.get("pd") for p in ps) or not f.blocks:
            continue
        if not f.file.endswith((".c", ".cpp")) or "runtime" not in f.file:
            continue
        n += 1
        res.touched(f)
        an = L.Analysis(prog)
        bad = None
        for rv, st in an.run(f, L.State()):
            a, b = ps[0]["n"], ps[1]["n"]
            d1 = L.lsub(an.read(st, "%s->driver_id" % a), an.read(st, "%s->driver_id" % b))
            d2 = L.lsub(an.read(st, "%s->device_id" % a), an.read(st, "%s->device_id" % b))
            if rv is None or not L.is_const(rv):
                bad = "returns a value that is not decided by the comparison"
                continue
            if rv.get(L.ONE, 0) != 0:
                if not (st.entails_eq(d1) and st.entails_eq(d2)):
                    bad = "can answer 'same device' although driver_id or device_id differ"
            else:
                s2 = st.copy()
                s2.cons += [("eq", d1), ("eq", d2)]
                if s2.feasible():
                    bad = "can answer 'different device' for identical identifiers"
        inst = "%s (%s): true exactly when driver_id and device_id agree" % (f.name, f.file.split("/")[-1])
        if bad:
            res.fail(rule, inst, "%s|%s|%s" % (rule, f.file.split("/")[-1], f.name), f.loc(),
                     "%s %s: on re-configuration the previous device is kept / re-opened wrongly" % (f.name, bad))
        else:
            res.oblige(rule, inst, True, "", f.loc())
    if n < 2:
        raise AnalysisBroken("identifier comparison helpers of source and sink not found")


def identifier_tracked(prog, res, rule="R-IDENT-EQ"):
    """The identifier the equality helper is asked about next time is the one
    of the device that is open: after every open in a configure function the
    remembered identifier is overwritten with the requested one on every path
    to a successful return."""
    n = 0
    for fname, opener in (("video_source_configure", "camera_open"), ("video_sink_configure", "storage_open")):
        f = prog.func(fname)
        res.touched(f)
        idp = [p for p in f.params if p.get("r") == "DeviceIdentifier" and p.get("pd")]
        remembered = None
        for b, i, s in f.all_stmts():
            for c in ir.calls_in(s):
                g = prog.resolve(c["fn"], f) if c.get("fn") else None
                if g is not None and len(g.params) == 2 and all(p.get("r") == "DeviceIdentifier" for p in g.params):
                    for a in c["args"]:
                        a0 = ir.strip(a)
                        if isinstance(a0, dict) and a0.get("k") == "addr":
                            remembered = ir.ap(a0["e"])
        opens = [(b.id, i) for b, i, s in f.all_stmts() if any(c.get("fn") == opener for c in ir.calls_in(s))]
        if not idp or remembered is None or not opens:
            raise AnalysisBroken("%s: identifier parameter / remembered identifier / %s call not found" % (fname, opener))
        oks = {(b.id, i) for b, i, s in f.all_stmts() if s.get("k") == "ret" and isinstance(ir.strip(s.get("e")), dict)
               and ir.strip(s["e"]).get("e") == "Device_Ok"}

        def remembers(s, remembered=remembered, pid=idp[0]["id"]):
            for lv, op, rhs, w in ir.writes_of(s):
                if ir.ap(lv) == remembered and op == "=" and isinstance(rhs, dict) and \
                        any(y.get("k") == "var" and y.get("id") == pid for y in ir.walk(rhs)):
                    return True
            return False
        n += 1
        inst = "%s: %s is the identifier of the device that is open" % (fname, remembered)
        ok = all(paths.all_paths_pass(f, o, oks, paths.through_callees(prog, f, remembers))[0] for o in opens) if oks else False
        if ok:
            res.oblige(rule, inst, True, "stored from the requested identifier on every path from %s to a successful return" % opener, f.loc())
        else:
            res.fail(rule, inst, "%s|%s|track" % (rule, fname), f.loc(),
                     "%s can open a device and return success without recording its identifier in %s: the next configure compares against a stale "
                     "identifier and keeps a device that should have been exchanged (or the reverse)" % (fname, remembered))
    return n


def append_only_from_sink(prog, res):
    callers = set()
    for f in prog.all_funcs():
        for b, i, s in f.all_stmts():
            if any(c.get("fn") == "storage_append" for c in ir.calls_in(s)):
                callers.add(f.name)
    inst = "storage_append is called only from the sink worker"

    def only_from_worker(name, seen=()):
        """name is the worker, or a helper all of whose callers are"""
        if name == "video_sink_thread":
            return True
        if name in seen:
            return False
        who = {g.name for g in prog.all_funcs() for b, i, s in g.all_stmts()
               if any(c.get("fn") == name for c in ir.calls_in(s))}
        return bool(who) and all(only_from_worker(w, seen + (name,)) for w in who)
    outside = {c for c in callers if not only_from_worker(c)}
    if callers and not outside:
        res.oblige("R-APPEND-SCOPE", inst, True, "callers: %s" % sorted(callers), "sink.c")
    else:
        res.fail("R-APPEND-SCOPE", inst, "R-APPEND-SCOPE|callers", "",
                 "storage_append is also called from %s: data can reach a storage device outside its start..stop window" % sorted(outside))
    f = prog.func("video_sink_start")
    tcs = {(b.id, i) for b, i, s in f.all_stmts() if any(c.get("fn") == "thread_create" for c in ir.calls_in(s))}
    ok, w = paths.all_paths_pass(f, "entry", tcs, lambda s: any(c.get("fn") == "storage_start" for c in ir.calls_in(s)))
    inst = "the sink worker is created only after storage_start"
    (res.oblige("R-APPEND-SCOPE", inst, True, "", f.loc()) if ok else
     res.fail("R-APPEND-SCOPE", inst, "R-APPEND-SCOPE|start", f.loc(), "video_sink_start can create the worker without having started the storage"))


def shutdown_order(prog, res):
    R = "R-SHUTDOWN-ORDER"
    f = prog.func("acquire_shutdown")
    res.touched(f)

    def pos(name):
        return [(b.id, i) for b, i, s in f.all_stmts() if any(c.get("fn") == name for c in ir.calls_in(s))]
    chain = ["acquire_abort", "video_source_destroy", "video_filter_destroy", "video_sink_destroy",
             "device_manager_destroy", "free"]
    for name in chain:
        if not pos(name):
            res.fail(R, "acquire_shutdown calls %s" % name, "%s|missing|%s" % (R, name), f.loc(),
                     "acquire_shutdown no longer calls %s" % name)
            return
    # a counted loop  for (i = 0; i < K; ++i)  with K > 0 runs at least once:
    # reaching its header counts as passing the calls every iteration makes
    always = {}
    for h, body in paths.natural_loops(f):
        c = ir.strip(f.blocks[h].cond_node() or {})
        if isinstance(c, dict) and c.get("k") == "bin" and c.get("op") == "<" and ir.is_const(c["r"]) and \
                ir.strip(c["r"])["v"] > 0 and ir.strip(c["l"]).get("k") == "var":
            v = ir.strip(c["l"])
            inits = [rhs for b, i, s in f.all_stmts() if b.id not in body for lv, op, rhs, w in ir.writes_of(s)
                     if lv.get("k") == "var" and lv["id"] == v["id"]]
            if inits and all(ir.is_const(x, 0) for x in inits):
                for name in chain:
                    sites = [p for p in pos(name) if p[0] in body]
                    if sites and all(paths.all_paths_pass(f, (h, len(f.blocks[h].stmts) - 1), {(h, 0)},
                                                          lambda s, name=name: any(cc.get("fn") == name for cc in ir.calls_in(s)))[0]
                                     for _ in [0]):
                        always.setdefault(name, set()).add(id(f.blocks[h].stmts[f.blocks[h].cond]))
    pairs = [("acquire_abort", "video_source_destroy"), ("acquire_abort", "video_sink_destroy"),
             ("video_source_destroy", "device_manager_destroy"), ("video_sink_destroy", "device_manager_destroy"),
             ("video_filter_destroy", "device_manager_destroy"), ("device_manager_destroy", "free")]
    for a, b in pairs:
        ok, w = paths.all_paths_pass(f, "entry", set(pos(b)),
                                     lambda s, a=a: any(c.get("fn") == a for c in ir.calls_in(s)) or id(s) in always.get(a, ()))
        # and b is never followed by a
        later = [x for p in pos(b) for x in paths.reachable_after(f, p, lambda s, a=a: any(c.get("fn") == a for c in ir.calls_in(s)))]
        in_loop_both = any(p[0] in body and q[0] in body for h, body in paths.natural_loops(f) for p in pos(a) for q in pos(b))
        inst = "acquire_shutdown: %s before %s" % (a, b)
        if ok and (not later or in_loop_both):
            res.oblige(R, inst, True, "", f.loc())
        else:
            res.fail(R, inst, "%s|%s>%s" % (R, a, b), f.loc(),
                     "acquire_shutdown can reach %s without (or before) %s: %s" % (
                         b, a, "a device outlives the driver that must close it" if b == "device_manager_destroy" else
                         "the runtime is torn down while workers may still run"))


def state_from_flags(prog, res):
    f = prog.func("acquire_get_state")
    res.touched(f)
    seen = set()
    for b, i, s in f.all_stmts():
        for x in ir.walk(s):
            if x.get("k") == "mem" and x["f"] == "is_running":
                p = ir.ap(x) or ""
                for w in ("source", "filter", "sink"):
                    if p.endswith("%s.is_running" % w):
                        seen.add(w)
    inst = "acquire_get_state reads the is_running flag of source, filter and sink"
    if seen == {"source", "filter", "sink"}:
        res.oblige("R-STATE", inst, True, "", f.loc())
    else:
        res.fail("R-STATE", inst, "R-STATE|flags", f.loc(),
                 "acquire_get_state ignores the %s worker(s): Running is not reported while they are alive" % sorted({"source", "filter", "sink"} - seen))


def run(ctx, res):
    prog = ctx.program()
    res.extra["explanation"] = EXPLANATION
    res.assumptions += [
        "sequential model: the client configures/starts/destroys while no worker is inside a HAL call; a worker body runs to completion before destroy",
        "a driver slot may return any enumerator of its declared type; driver open may fail",
        "identifiers A and B differ in device_id; equal identifiers re-use the open device",
    ]
    total = trans = 0
    for which in ("source", "sink"):
        model, it, ex = sim_controller(prog, res, which)
        total += len(ex.states)
        trans += ex.transitions
        ignore = ("HAL-FAIL-STOPS",)
        mine = {k: r for k, r in it.reports.items() if r["rule"] not in ignore and "_open>leak" not in k}
        for key, r in sorted(mine.items()):
            res.fail(r["rule"], "%s controller: %s" % (which, key.split("|", 2)[-1]), key, "%s.c" % which,
                     r["message"], r["witness"])
        res.oblige("CTL-SIM", "%s controller x HAL x abstract driver" % which, not mine,
                   "%d abstract inter-call states, %d transitions, %d inlined calls" % (len(ex.states), ex.transitions, it.stats["calls"]),
                   "%s.c" % which)
        for k, st in list(ex.states.items())[:4]:
            res.samples.append({"controller": which, "witness_sequence": ex.witness[k],
                                "started": st.get(G_STARTED), "closed": st.get(G_CLOSED),
                                "handle": str(it.read_quiet(st, ("obj:ctl", ("camera",) if which == "source" else ("storage",))))})
    res.extra["states"] = total
    res.extra["transitions"] = trans
    res.extra["exhaustive"] = True
    guard_start(prog, res)
    append_only_from_sink(prog, res)
    res.guard(identifier_equality, prog, res)
    from .. import runtimerules as RR_
    res.guard(RR_.rule_thread_exit, prog, res)
    res.guard(RR_.rule_stop_armed, prog, res, "R-STATE")   # "Armed after stop or abort"
    res.guard(RR_.rule_start_reset, prog, res)             # "Running only while workers are alive": flags set before the worker exists
    res.guard(RR_.rule_start_unwind, prog, res)
    res.require_min("R-START-UNWIND", 9)
    res.require_min("R-START-RESET", 6)
    res.guard(identifier_tracked, prog, res)
    res.require_min("R-IDENT-EQ", 4)
    shutdown_order(prog, res)
    state_from_flags(prog, res)
    if ctx.tier == "thorough":
        from ..apisim import run_rules
        run_rules(prog, res, ("API-THREAD", "API-SHUTDOWN", "HAL-PROTOCOL", "HAL-CLOSE-ONCE", "HAL-CLOSED-USE",
                              "MEM-UAF", "MEM-DOUBLE-FREE"), "API-SIM")
    res.require_min("CTL-SIM", 2)
    res.require_min("GUARD-DOM", 2)
    res.require_min("R-SHUTDOWN-ORDER", 6)
