"""In-memory view of the extracted facts: functions, CFGs, expression helpers,
call graph."""
from collections import defaultdict


class Block:
    __slots__ = ("id", "stmts", "term", "cond", "cond_expr", "succs", "label",
                 "sw", "tline", "fn")

    def __init__(self, fn, d):
        self.fn = fn
        self.id = d["id"]
        self.stmts = d["stmts"]
        self.term = d["term"]
        self.cond = d.get("cond")
        self.cond_expr = d.get("cond_expr")
        self.succs = d["succs"]
        self.label = d.get("label")
        self.sw = d.get("sw")
        self.tline = d.get("tline")

    def cond_node(self):
        if self.cond is not None:
            return self.stmts[self.cond]
        return self.cond_expr

    def succ_ids(self):
        return [s["to"] for s in self.succs if s.get("to") is not None]


class Func:
    def __init__(self, tu, d):
        self.tu = tu
        self.d = d
        self.name = d["name"]
        self.short = d.get("short", self.name)
        self.file = d["file"]
        self.line = d["line"]
        self.end = d["end"]
        self.params = d.get("params", [])
        self.static = d.get("static", False)
        self.externc = d.get("externc", False)
        self.cxx = d.get("cxx", False)
        self.noexcept = d.get("noexcept", False)
        self.blocks = {b["id"]: Block(self, b) for b in d.get("blocks", [])}
        self.entry = d.get("entry")
        self.exit = d.get("exit")
        self._preds = None
        self._byci = None

    def __repr__(self):
        return "<Func %s %s:%d>" % (self.name, self.file, self.line)

    def preds(self):
        if self._preds is None:
            p = defaultdict(list)
            for b in self.blocks.values():
                for s in b.succ_ids():
                    p[s].append(b.id)
            self._preds = p
        return self._preds

    def all_stmts(self):
        for b in self.blocks.values():
            for i, s in enumerate(b.stmts):
                yield b, i, s

    def resolve_ref(self, ref):
        """The root statement that computed a {"k":"ref"} value."""
        if self._byci is None:
            m = {}
            for b in self.blocks.values():
                for s in b.stmts:
                    if "ci" in s:
                        m.setdefault((b.id, s["ci"]), s)
            self._byci = m
        return self._byci.get((ref["b"], ref["i"]))

    def reachable_from(self, bid):
        seen = set()
        st = [bid]
        while st:
            x = st.pop()
            if x in seen or x not in self.blocks:
                continue
            seen.add(x)
            st.extend(self.blocks[x].succ_ids())
        return seen

    def loc(self, stmt=None):
        if stmt is not None and "line" in stmt:
            return "%s:%d" % (self.file, stmt["line"])
        return "%s:%d" % (self.file, self.line)


class Program:
    def __init__(self, facts, info=None):
        self.info = info or {}
        self.tus = facts
        self.funcs = defaultdict(list)
        self.records = {}
        self.enums = {}
        self.globals = defaultdict(list)
        for tu, d in facts.items():
            for f in d["functions"]:
                if f.get("nocfg"):
                    continue
                self.funcs[f["name"]].append(Func(tu, f))
            for r in d["records"]:
                self.records.setdefault(r["name"], r)
            for e in d["enums"]:
                self.enums.setdefault(e["name"], e)
            for g in d.get("globals", []):
                self.globals[g["name"]].append((tu, g))
        self._callers = None

    # -- lookup ----------------------------------------------------------
    def func(self, name, tu=None, required=True):
        c = self.funcs.get(name) or []
        if not c:
            # C++ functions in an anonymous namespace
            for k, v in self.funcs.items():
                if k.endswith("::" + name):
                    c = c + v
        if tu is not None:
            same = [f for f in c if f.tu == tu or f.file == tu]
            if same:
                return same[0]
        if c:
            # prefer a non-static definition when ambiguous
            c = sorted(c, key=lambda f: (f.static, f.tu))
            return c[0]
        if required:
            from .build import AnalysisBroken
            raise AnalysisBroken("anchor function vanished: %s" % name)
        return None

    def resolve(self, name, from_fn):
        """Resolve a direct callee name as seen from `from_fn`."""
        c = self.funcs.get(name) or []
        if not c:
            return None
        same = [f for f in c if f.tu == from_fn.tu]
        if same:
            return same[0]
        ext = [f for f in c if not f.static]
        return ext[0] if ext else None

    def all_funcs(self):
        for v in self.funcs.values():
            for f in v:
                yield f

    def enum_values(self, name):
        e = self.enums.get(name)
        if not e:
            return None
        return [(x["n"], x["v"]) for x in e["enumerators"]]

    def record(self, name):
        return self.records.get(name)

    # -- call graph -------------------------------------------------------
    def direct_callees(self, fn):
        out = set()
        for b, i, s in fn.all_stmts():
            for c in calls_in(s):
                if c.get("fn"):
                    out.add(c["fn"])
        return out

    def reaches(self, fn, targets, depth=8, _seen=None):
        """Does `fn` (transitively, through direct calls with bodies in the
        repo) call one of `targets` (set of names)?"""
        if _seen is None:
            _seen = set()
        key = (fn.tu, fn.name)
        if key in _seen or depth < 0:
            return False
        _seen.add(key)
        for cn in self.direct_callees(fn):
            if cn in targets:
                return True
            g = self.resolve(cn, fn)
            if g is not None and self.reaches(g, targets, depth - 1, _seen):
                return True
        return False

    def address_taken(self):
        """All (function name, context) pairs where a function's address is
        stored or passed rather than called."""
        out = []
        for f in self.all_funcs():
            for b, i, s in f.all_stmts():
                for n, ctx in walk_ctx(s):
                    if n.get("k") == "fn" and ctx != "callee":
                        out.append((n["n"], f, s))
        return out


# ---------------------------------------------------------------------------
# expression helpers

CHILD_KEYS = ("b", "i", "e", "l", "r", "c", "t", "f", "callee", "init", "v",
              "var")


def children(n):
    """Yield (key, child) for expression children of node n."""
    k = n.get("k")
    if k == "call" or k == "construct":
        if "callee" in n and isinstance(n["callee"], dict):
            yield "callee", n["callee"]
        for a in n.get("args", []):
            if isinstance(a, dict):
                yield "arg", a
        return
    if k == "init":
        for e in n.get("elts", []):
            if isinstance(e.get("v"), dict):
                yield "elt", e["v"]
        return
    if k == "other":
        for c in n.get("kids", []):
            if isinstance(c, dict):
                yield "kid", c
        return
    if k == "cond":
        for kk in ("c", "t", "f"):
            if isinstance(n.get(kk), dict):
                yield kk, n[kk]
        return
    if k in ("var", "gvar", "fn", "int", "str", "float", "this", "zero", "ref",
             "lambda"):
        return
    if k == "mem":
        if isinstance(n.get("b"), dict):
            yield "b", n["b"]
        return
    if k == "idx":
        yield "b", n["b"]
        yield "i", n["i"]
        return
    if k == "decl":
        if isinstance(n.get("init"), dict):
            yield "init", n["init"]
        return
    if k == "new":
        if isinstance(n.get("init"), dict):
            yield "init", n["init"]
        return
    if k == "cinit":
        if isinstance(n.get("v"), dict):
            yield "v", n["v"]
        return
    for kk in ("e", "l", "r", "b"):
        v = n.get(kk)
        if isinstance(v, dict):
            yield kk, v


def walk(n):
    """Pre-order walk over an expression/statement tree."""
    if not isinstance(n, dict):
        return
    st = [n]
    while st:
        x = st.pop()
        yield x
        for _, c in children(x):
            st.append(c)


def walk_ctx(n, ctx="top"):
    if not isinstance(n, dict):
        return
    yield n, ctx
    for k, c in children(n):
        yield from walk_ctx(c, k)


def calls_in(n):
    for x in walk(n):
        if x.get("k") in ("call", "construct"):
            yield x


def strip(n):
    """Strip value-preserving casts."""
    while isinstance(n, dict) and n.get("k") == "cast":
        n = n["e"]
    return n


def ap(n):
    """Canonical access-path string of an lvalue/pointer expression, or None."""
    if not isinstance(n, dict):
        return None
    k = n.get("k")
    if k == "var" or k == "gvar":
        return n["n"]
    if k == "this":
        return "this"
    if k == "mem":
        b = ap(n["b"])
        if b is None:
            return None
        return b + ("->" if n.get("arrow") else ".") + n["f"]
    if k == "idx":
        b = ap(n["b"])
        if b is None:
            return None
        i = n["i"]
        if isinstance(i, dict) and i.get("k") == "int":
            return "%s[%d]" % (b, i["v"])
        return b + "[*]"
    if k == "deref":
        b = ap(n["e"])
        if b is None:
            return None
        if b.startswith("&"):
            return b[1:]
        return "*" + b
    if k == "addr":
        b = ap(n["e"])
        if b is None:
            return None
        if b.startswith("*"):
            return b[1:]
        return "&" + b
    if k == "cast":
        return ap(n["e"])
    if k == "container":
        b = ap(n["e"])
        if b is None:
            return None
        return "container(%s,%s,%s)" % (b, n.get("rec"), n.get("f"))
    if k == "bin" and n.get("op") in ("+", "-"):
        # pointer arithmetic: base + off  ->  base[*]
        l = ap(n["l"])
        if l is not None and n.get("pd"):
            return l + "[*]"
        return None
    return None


def field_chain(n):
    """For an lvalue, the list of (record, field) hops from the root, and the
    root node.  self->holds.pos[i] -> (self, [(channel,holds),(anon,pos)])"""
    chain = []
    while isinstance(n, dict):
        k = n.get("k")
        if k == "mem":
            chain.append((n.get("rec"), n["f"]))
            n = n["b"]
        elif k == "idx":
            n = n["b"]
        elif k in ("cast", "deref", "addr"):
            n = n["e"]
        elif k == "bin" and n.get("op") in ("+", "-") and n.get("pd"):
            n = n["l"]
        else:
            break
    chain.reverse()
    return n, chain


def writes_of(s):
    """(lvalue node, op, rhs node or None, whole stmt) for each store in s."""
    for x in walk(s):
        k = x.get("k")
        if k == "asg":
            yield x["l"], x["op"], x.get("r"), x
        elif k == "decl" and "init" in x:
            yield x["var"], "=", x["init"], x


def is_const(n, v=None):
    n = strip(n)
    if isinstance(n, dict) and n.get("k") == "int":
        return v is None or n["v"] == v
    return False


def render(n, depth=0):
    """Short human-readable rendering of an expression (for reports)."""
    if not isinstance(n, dict):
        return "?"
    if depth > 6:
        return "..."
    k = n.get("k")
    r = lambda x: render(x, depth + 1)
    if k == "int":
        return n.get("e") or str(n["v"])
    if k == "str":
        return '"%s"' % n["v"][:20]
    if k == "float":
        return str(n["v"])
    if k in ("var", "gvar", "fn"):
        return n["n"]
    if k == "this":
        return "this"
    if k == "mem":
        return r(n["b"]) + ("->" if n.get("arrow") else ".") + n["f"]
    if k == "idx":
        return "%s[%s]" % (r(n["b"]), r(n["i"]))
    if k == "deref":
        return "*" + r(n["e"])
    if k == "addr":
        return "&" + r(n["e"])
    if k == "un":
        return n["op"] + r(n["e"])
    if k == "bin":
        return "(%s %s %s)" % (r(n["l"]), n["op"], r(n["r"]))
    if k == "asg":
        if "r" in n:
            return "%s %s %s" % (r(n["l"]), n["op"], r(n["r"]))
        return n["op"] + r(n["l"])
    if k == "cast":
        return r(n["e"])
    if k == "container":
        return "containerof(%s,%s,%s)" % (r(n["e"]), n.get("rec"), n.get("f"))
    if k == "call":
        name = n.get("fn") or r(n.get("callee"))
        return "%s(%s)" % (name, ", ".join(r(a) for a in n.get("args", [])))
    if k == "construct":
        return "%s(%s)" % (n.get("fn"), ", ".join(r(a) for a in n.get("args", [])))
    if k == "cond":
        return "(%s ? %s : %s)" % (r(n["c"]), r(n["t"]), r(n["f"]))
    if k == "ret":
        return "return " + (r(n["e"]) if "e" in n else "")
    if k == "decl":
        return "%s = %s" % (n["var"]["n"], r(n["init"])) if "init" in n else "decl " + n["var"]["n"]
    if k == "init":
        return "{...}"
    if k == "ref":
        return "<B%d.%d>" % (n["b"], n["i"])
    return "<%s>" % k


def slot_table(prog):
    """(record, field) -> set of function names stored there anywhere in the
    program (designated initialisers, base-class aggregate initialisers,
    plain assignments)."""
    tab = {}

    def fnval(v):
        v = strip(v)
        if isinstance(v, dict) and v.get("k") == "addr":
            v = strip(v["e"])
        if isinstance(v, dict) and v.get("k") == "fn":
            return v["n"]
        return None

    def scan(n, owner):
        for x in walk(n):
            if x.get("k") == "init" and x.get("r") and not x.get("pd"):
                for e in x.get("elts", []):
                    f = fnval(e.get("v"))
                    if f and "f" in e:
                        tab.setdefault((x["r"], e["f"]), set()).add((f, owner))
            elif x.get("k") == "asg" and x.get("op") == "=":
                f = fnval(x.get("r"))
                l = x["l"]
                if f and isinstance(l, dict) and l.get("k") == "mem":
                    tab.setdefault((l.get("rec"), l["f"]), set()).add((f, owner))

    for fn in prog.all_funcs():
        for b, i, s in fn.all_stmts():
            scan(s, fn.name)
    for name, lst in prog.globals.items():
        for tu, g in lst:
            scan(g.get("init"), "global " + name)
    return tab
