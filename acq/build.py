"""Compile database + fact extraction for the current working tree of the repo.

Nothing here is cached across runs: every check re-configures (cmake, ~2 s)
and re-extracts all production translation units from the sources as they are
now.  Scratch data lives in a private temporary directory which the caller
removes.
"""
import json
import os
import shlex
import shutil
import subprocess
import tempfile
from concurrent.futures import ThreadPoolExecutor

VERIF = os.path.dirname(os.path.dirname(os.path.abspath(__file__)))
ACQFACTS = os.path.join(VERIF, "bin", "acqfacts")
RESOURCE_INC = "/usr/lib/llvm-14/lib/clang/14.0.6/include"


class AnalysisBroken(Exception):
    """The analysis itself could not be carried out (exit code 2)."""


def repo_root():
    return os.path.realpath(os.environ.get("ACQ_REPO", "/repo"))


def scratch_dir():
    base = os.environ.get("TMPDIR") or "/var/tmp"
    return tempfile.mkdtemp(prefix="acq-verif.", dir=base)


def is_production(path, root):
    rel = os.path.relpath(path, root)
    if rel.startswith(".."):
        return False
    if "/tests/" in "/" + rel or "3rdParty" in rel or rel.startswith("_build"):
        return False
    return "/src/" in "/" + rel


def compile_db(root, work):
    """Configure with cmake into `work` and return the list of production
    compile commands (one per source file)."""
    bdir = os.path.join(work, "cfg")
    cmd = ["cmake", "-S", root, "-B", bdir, "-G", "Ninja",
           "-DCMAKE_BUILD_TYPE=RelWithDebInfo",
           "-DCMAKE_EXPORT_COMPILE_COMMANDS=ON"]
    r = subprocess.run(cmd, stdout=subprocess.PIPE, stderr=subprocess.STDOUT,
                       text=True)
    dbp = os.path.join(bdir, "compile_commands.json")
    if r.returncode != 0 or not os.path.exists(dbp):
        raise AnalysisBroken("cmake configure failed:\n" + r.stdout[-2000:])
    db = json.load(open(dbp))
    out = {}
    for e in db:
        f = os.path.realpath(e["file"])
        if not is_production(f, root):
            continue
        args = shlex.split(e["command"]) if "command" in e else e["arguments"]
        out[f] = args
    shutil.rmtree(bdir, ignore_errors=True)
    return out


def clean_args(args, src, extra_defs):
    """Turn a gcc command line into clang flags for the extractor."""
    keep = []
    skip = False
    is_cxx = src.endswith((".cpp", ".cc", ".cxx"))
    have_std = False
    for a in args[1:]:
        if skip:
            skip = False
            continue
        if a in ("-o", "-MF", "-MT", "-MQ"):
            skip = True
            continue
        if a in ("-c", "-MD", "-MMD") or a == src or os.path.realpath(a) == src:
            continue
        if a.startswith("-O") or a == "-g" or a == "-DNDEBUG":
            continue
        if a.startswith("-std="):
            have_std = True
        keep.append(a)
    if not have_std:
        keep.append("-std=gnu++20" if is_cxx else "-std=gnu11")
    keep += ["-UNDEBUG", "-w", "-I" + RESOURCE_INC] + extra_defs
    return ["clang++" if is_cxx else "clang"] + keep


def extract(root=None, work=None, defs=("-DNO_UNIT_TESTS",), drop_flags=(),
            only=None):
    """Extract facts for every production TU. Returns (facts_by_tu, info)."""
    root = root or repo_root()
    own = work is None
    work = work or scratch_dir()
    try:
        db = compile_db(root, work)
        if only:
            db = {f: a for f, a in db.items() if any(f.endswith(o) for o in only)}
        fdir = os.path.join(work, "facts")
        os.makedirs(fdir, exist_ok=True)
        jobs = []
        for i, (src, args) in enumerate(sorted(db.items())):
            flags = [a for a in clean_args(args, src, list(defs))
                     if a not in drop_flags]
            out = os.path.join(fdir, "%03d.json" % i)
            jobs.append((src, out, [ACQFACTS, "--root=" + root, "--out=" + out,
                                    src, "--"] + flags))

        def run(job):
            src, out, cmd = job
            r = subprocess.run(cmd, stdout=subprocess.PIPE,
                               stderr=subprocess.STDOUT, text=True)
            return src, out, r.returncode, r.stdout

        facts = {}
        errors = []
        with ThreadPoolExecutor(max_workers=16) as ex:
            for src, out, rc, log in ex.map(run, jobs):
                if rc != 0 or not os.path.exists(out):
                    errors.append((src, log[-1500:]))
                    continue
                d = json.load(open(out))
                if d.get("errors"):
                    errors.append((src, log[-1500:]))
                    continue
                facts[os.path.relpath(src, root)] = d
        if errors:
            raise AnalysisBroken(
                "translation units failed to parse: " +
                "; ".join("%s: %s" % (os.path.relpath(s, root), l.strip()[-400:])
                          for s, l in errors))
        # coverage guard: every .c/.cpp under */src (linux platform only)
        on_disk = []
        for dp, dn, fn in os.walk(root):
            if "/_build" in dp or "/.git" in dp:
                continue
            for f in fn:
                p = os.path.join(dp, f)
                if f.endswith((".c", ".cpp")) and is_production(p, root):
                    on_disk.append(os.path.relpath(p, root))
        not_built = sorted(set(on_disk) - set(facts))
        flags = {os.path.relpath(src, root): [a for a in clean_args(args, src, list(defs))
                                               if a not in drop_flags]
                 for src, args in db.items()}
        info = {"root": root, "tus": sorted(facts), "not_analysed": not_built,
                "defs": list(defs), "dropped_flags": list(drop_flags),
                "flags": flags}
        return facts, info
    finally:
        if own:
            shutil.rmtree(work, ignore_errors=True)
