"""HAL-driven simulation of the shipped storage drivers (raw, tiff, tiff-json,
trash): real HAL wrappers + real driver code over abstract files.
Serves C14 (stale cursor), C15 (finalisation), C16 (descriptor typestate,
failure containment, unbounded recursion)."""
from . import ir
from .tsim import Interp, State, Explorer, I, TOP, NZ, ZERO, is_ptr, is_int, canon
from .build import AnalysisBroken

G_WFAIL = ("G", "wfail")
G_CFAIL = ("G", "cfail")
G_APPENDING = ("G", "appending")   # inside a storage_append call
G_APPENDED = ("G", "appended")     # an append succeeded since the last successful start

KINDS = {
    "raw": ("raw_init", "BasicDevice_Storage_Raw"),
    "tiff": ("tiff_init", "BasicDevice_Storage_Tiff"),
    "trash": ("trash_init", "BasicDevice_Storage_Trash"),
    "tiff-json": ("side_by_side_tiff_init", "BasicDevice_Storage_SideBySideTiffJson"),
}

# standard-library operations that may throw something other than bad_alloc
THROWING_STD_PREFIXES = ("std::filesystem::status", "std::filesystem::exists",
                         "std::filesystem::is_directory",
                         "std::filesystem::create_directory",
                         "std::filesystem::create_directories",
                         "std::regex", "std::basic_regex", "std::regex_match",
                         "std::vector<", "std::__throw")


def fdkey(loc):
    return ("G", "fd", loc)


class StorageModel:
    def __init__(self, prog, kind):
        self.prog = prog
        self.kind = kind
        self.init_fn, self.dev_enum = KINDS[kind]
        e = dict(prog.enum_values("BasicDeviceKind") or [])
        if self.dev_enum not in e:
            raise AnalysisBroken("enumerator %s vanished" % self.dev_enum)
        self.dev_id = e[self.dev_enum]
        self.states = dict(prog.enum_values("DeviceState"))
        self.RUNNING = self.states["DeviceState_Running"]
        self.status = dict(prog.enum_values("DeviceStatusCode"))
        self.OK = self.status["Device_Ok"]
        self.externals = set()
        self.events = {"file_create": 0, "file_write": 0, "file_close": 0}
        self.fd_locs = set()

    # ------------------------------------------------------------------
    def report(self, it, rule, what, msg):
        key = "%s|%s|%s" % (rule, self.kind, what)
        it.report(rule, key, msg, witness={"call_stack": list(it.stack),
                                            "sequence": list(getattr(it, "cur_witness", []))})

    def chain(self, it):
        # stable description of where we are: the call chain below the HAL
        # wrapper, by function names
        return ">".join(it.stack[:-1])

    def file_create(self, it, s, vals, fr, n):
        self.events["file_create"] += 1
        f = vals[0]
        if not is_ptr(f):
            yield (TOP, s)
            return
        loc = (f[1], f[2])
        self.fd_locs.add(loc)
        if s.get(fdkey(loc)) == "open":
            self.report(it, "FD-TYPESTATE", "%s@create-over-open" % self.chain(it),
                        "file_create on a struct file that still holds an open descriptor (%s): the previous descriptor leaks"
                        % self.chain(it))
        yield (I(0), s.set(G_CFAIL, 1))
        yield (I(1), s.set(fdkey(loc), "open"))

    def file_write(self, it, s, vals, fr, n):
        self.events["file_write"] += 1
        f = vals[0]
        if is_ptr(f):
            loc = (f[1], f[2])
            if s.get(fdkey(loc)) != "open":
                self.report(it, "FD-TYPESTATE", "%s@write-not-open" % self.chain(it),
                            "file_write to a descriptor this device does not hold open (never created, or already closed) via %s"
                            % self.chain(it))
            term = 1 if any("terminate" in x for x in it.stack) else 0
            s = s.set(("G", "term", loc), term)
            if not term:
                s = s.set(("G", "wrote", loc), 1)
        yield (I(1), s)
        yield (I(0), s.set(G_WFAIL, 1))

    def file_close(self, it, s, vals, fr, n):
        self.events["file_close"] += 1
        f = vals[0]
        if not is_ptr(f):
            yield (TOP, s)
            return
        loc = (f[1], f[2])
        if s.get(fdkey(loc)) != "open":
            self.report(it, "FD-TYPESTATE", "%s@close-not-open" % self.chain(it),
                        "file_close on a descriptor this device does not hold open (never created -> closes fd 0, or closed twice) via %s"
                        % self.chain(it))
        else:
            fin = self.finaliser
            if fin and self.is_tiff_file(loc) and s.get(("G", "wrote", loc)) and \
                    not s.get(G_WFAIL) and not s.get(("G", "term", loc)):
                self.report(it, "TIFF-FINALISE", "%s@close-without-terminate" % self.chain(it),
                            "the TIFF file is closed without the IFD chain having been terminated last (%s not on the path)"
                            % fin)
        s = s.set(fdkey(loc), "closed")
        s = s.delete_where(lambda k: k in (("G", "term", loc), ("G", "wrote", loc)))
        yield (TOP, s)

    finaliser = None

    def is_tiff_file(self, loc):
        return loc[1] and loc[1][-1] == "file_"

    def on_free(self, it, s, obj):
        for loc in list(self.fd_locs):
            if loc[0] == obj and s.get(fdkey(loc)) == "open":
                self.report(it, "FD-TYPESTATE", "%s@freed-while-open" % self.chain(it),
                            "the device object is released while its descriptor is still open: the descriptor is never closed (%s)"
                            % self.chain(it))
        return s

    def on_return(self, it, g, fr, rv, s):
        # a local struct file going out of scope while open
        L = "L%d" % fr.depth
        for loc in list(self.fd_locs):
            if loc[0] == L and s.get(fdkey(loc)) == "open":
                self.report(it, "FD-TYPESTATE", "%s@local-file-leaks" % (self.chain(it) + ">" + g.short),
                            "%s returns while a local struct file is still open" % g.name)
                s = s.set(fdkey(loc), "closed")
        return s

    stale_reads_without_append = set()

    # stale-cursor tracking (C14)
    def on_write(self, it, s, loc, compound):
        if not loc[0].startswith("obj:"):
            return s
        k = ("G", "dirty", loc)
        if compound:
            return s.set(k, 1)
        # a plain store of a computed (non-constant) value while frames are being
        # appended is acquisition-scoped state as well: the next acquisition
        # must not read it before writing it
        v = getattr(it, "last_written_value", None)
        computed = v == TOP or v == NZ
        if computed and s.get(G_APPENDING) and "append" in " ".join(it.stack):
            return s.set(k, 1)
        if s.get(k):
            return s.delete_where(lambda x: x == k)
        return s

    def on_read(self, it, s, loc):
        in_stop = any(fn.split("::")[-1].endswith("stop") for fn in it.stack)
        if s.get(("G", "dirty", loc)) == 2 and (in_stop or not (s.get(G_APPENDING) or s.get(G_APPENDED))):
            # ... or the device is being stopped: a cursor that stop reads and
            # that was not rewritten means no frame was stored in this
            # acquisition (zero frames, an empty packet, a failing first append)
            # an acquisition without a single append (the properties that use
            # this rule quantify over N >= 1 appended frames)
            self.stale_reads_without_append.add(".".join(map(str, loc[1])))
            return
        if s.get(("G", "dirty", loc)) == 2:
            fld = ".".join(map(str, loc[1]))
            self.report(it, "STALE-CURSOR", "%s|%s" % (fld, it.stack[-1] if it.stack else "?"),
                        "%s reads the running cursor '%s', which still holds the value accumulated during a previous acquisition: start did not reset it"
                        % (it.stack[-1] if it.stack else "?", fld))

    # ------------------------------------------------------------------
    def stubs(self):
        def const(v):
            return lambda it, s, vals, fr, n: [(v, s)]

        def either(*vs):
            return lambda it, s, vals, fr, n: [(v, s) for v in vs]

        def malloc(it, s, vals, fr, n):
            s2, p = it.new_object(s, "malloc@%s" % fr.fn.name)
            return [(p, s2)]

        def free(it, s, vals, fr, n):
            return [(TOP, it.free_object(s, vals[0], "free"))]

        def memset(it, s, vals, fr, n):
            p = vals[0]
            if is_ptr(p):
                return [(p, it.fill(s, (p[1], p[2]), zero=(vals[1] == ZERO)))]
            return [(p, s)]

        def memcpy(it, s, vals, fr, n):
            d, src = vals[0], vals[1]
            if is_ptr(d) and is_ptr(src):
                return [(d, it.copy_agg(s, (d[1], d[2]), (src[1], src[2])))]
            if is_ptr(d):
                return [(d, it.fill(s, (d[1], d[2]), zero=False))]
            return [(d, s)]

        def props_copy(it, s, vals, fr, n):
            d = vals[0]
            out = [(I(0), s)]
            if is_ptr(d):
                out.append((I(1), it.fill(s, (d[1], d[2]), zero=False)))
            else:
                out.append((I(1), s))
            return out

        def props_init(it, s, vals, fr, n):
            d = vals[0]
            if is_ptr(d):
                return [(I(1), it.fill(s, (d[1], d[2]), zero=False))]
            return [(I(1), s)]

        st = {
            "file_create": self.file_create,
            "file_write": self.file_write,
            "file_close": self.file_close,
            "file_is_writable": either(I(1), I(0)),
            "file_exists": either(I(1), I(0)),
            "malloc": malloc, "free": free, "memset": memset, "memcpy": memcpy,
            "strlen": const(TOP), "strncmp": const(TOP),
            "storage_properties_copy": props_copy,
            "storage_properties_init": props_init,
            "storage_properties_set_uri": either(I(1), I(0)),
            "storage_properties_destroy": const(TOP),
            "aq_logger": const(TOP),
            "device_state_as_string": const(NZ),
            "device_kind_as_string": const(NZ),
            "bytes_of_type": const(TOP),
            "@external": self.external,
        }
        return st

    def external(self, it, name, s, vals, fr, n):
        self.externals.add(name)
        outs = [(TOP, s)]
        if name.startswith(THROWING_STD_PREFIXES) and not n.get("noexcept"):
            outs.append((("throw",), s))
        return outs

    # ------------------------------------------------------------------
    def make_interp(self):
        it = Interp(self.prog, self.stubs())
        it.on_free = self.on_free
        it.on_return = self.on_return
        it.on_write = self.on_write
        it.on_read = self.on_read
        return it

    def open_device(self, it):
        """Construct the device with the driver's real constructor and give
        it the identity the basics driver's describe() would."""
        s0 = State()
        s0 = s0.update({("obj:driver", ("close",)): ("fn", "basic_device_close"),
                        ("obj:arg", ("<t>",)): 1,
                        ("obj:frames", ("<t>",)): 1})
        outs = []
        for rv, s in it.run(self.init_fn, [], s0):
            if not is_ptr(rv):
                continue
            dev = rv
            s = s.update({(dev[1], dev[2] + ("device", "driver")): ("ptr", "obj:driver", ()),
                          (dev[1], dev[2] + ("device", "identifier", "device_id")): I(self.dev_id)})
            s = s.set(("devptr",), dev)
            outs.append(("open(%s)" % self.kind, s))
        if not outs:
            raise AnalysisBroken("%s produced no device" % self.init_fn)
        return outs

    def dev_state(self, it, s):
        dev = s.get(("devptr",))
        return it.read_quiet(s, (dev[1], dev[2] + ("state",)))

    def open_fds(self, s):
        return [loc for loc in self.fd_locs if s.get(fdkey(loc)) == "open"]

    def ops(self, it):
        model = self

        def hal(name, extra):
            def op(interp, st):
                if st.get(("closed",)):
                    return []
                dev = st.get(("devptr",))
                before = model.dev_state(it, st)
                st0 = st.delete_where(lambda k: k in (G_WFAIL, G_CFAIL))
                if name == "storage_append":
                    st0 = st0.set(G_APPENDING, 1)
                outs = []
                for rv, s2 in it.run(name, [dev] + extra, st0):
                    after = model.dev_state(it, s2) if name != "storage_close" else None
                    if name == "storage_append" and s2.get(G_WFAIL) and after == I(model.RUNNING):
                        model.report(it, "FAIL-CONTAINED", "append-write-failure-swallowed",
                                     "a file_write failed during storage_append but the device is still Running when the append returns: the runtime keeps streaming into a broken file")
                    if name == "storage_append" and s2.get(G_WFAIL) and rv == I(model.OK):
                        model.report(it, "FAIL-CONTAINED", "append-reports-success",
                                     "a file_write failed during storage_append but the HAL reports success")
                    if name == "storage_start" and (s2.get(G_WFAIL) or s2.get(G_CFAIL)) and after == I(model.RUNNING):
                        model.report(it, "FAIL-CONTAINED", "start-failure-swallowed",
                                     "creating or writing the file failed during storage_start but the device reports Running")
                    if name == "storage_append":
                        s2 = s2.delete_where(lambda k: k == G_APPENDING)
                        if rv == I(model.OK):
                            s2 = s2.set(G_APPENDED, 1)
                    if name == "storage_start" and rv == I(model.OK):
                        s2 = s2.delete_where(lambda k: k in (G_APPENDING, G_APPENDED))
                        # a new acquisition begins: cursors carried over from
                        # the previous one are stale from here on
                        upd = {k: 2 for k, v in s2.m.items()
                               if k[0] == "G" and len(k) == 3 and k[1] == "dirty" and v == 1}
                        if upd:
                            s2 = s2.update(upd)
                    if name == "storage_stop" and before == I(model.RUNNING) and after != I(model.RUNNING):
                        for loc in model.open_fds(s2):
                            if loc[0].startswith("obj:"):
                                model.report(it, "STOP-CLOSES", "open-after-stop|%s" % ".".join(map(str, loc[1])),
                                             "storage_stop returned, the device left the running state, but its file (%s) is still open: it was not finalised"
                                             % ".".join(map(str, loc[1])))
                    if name == "storage_close":
                        s2 = s2.set(("closed",), 1)
                        for loc in model.open_fds(s2):
                            model.report(it, "FD-TYPESTATE", "open-after-close|%s" % ".".join(map(str, loc[1])),
                                         "storage_close returned but a descriptor the device opened (%s) was never closed"
                                         % ".".join(map(str, loc[1])))
                    s2 = s2.delete_where(lambda k: k in (G_WFAIL, G_CFAIL))
                    lab = "%s->%s" % (name, rv[1] if is_int(rv) else "")
                    outs.append((lab, s2))
                return outs
            return op

        arg = ("ptr", "obj:arg", ())
        beg = ("ptr", "obj:frames", ())
        end = ("ptr", "obj:frames", ("[*]",))
        return [
            ("storage_set", hal("storage_set", [arg])),
            ("storage_get", hal("storage_get", [arg])),
            ("storage_get_meta", hal("storage_get_meta", [arg])),
            ("storage_reserve_image_shape", hal("storage_reserve_image_shape", [arg])),
            ("storage_start", hal("storage_start", [])),
            ("storage_append", hal("storage_append", [beg, end])),
            ("storage_stop", hal("storage_stop", [])),
            ("storage_close", hal("storage_close", [])),
        ]


def simulate(prog, kind):
    m = StorageModel(prog, kind)
    fin = prog.func("terminate_ifd_list", required=False)
    m.finaliser = fin.name if fin is not None else None
    it = m.make_interp()
    inits = m.open_device(it)
    ex = Explorer(it, m.ops(it))
    ex.explore(inits)
    return m, it, ex
