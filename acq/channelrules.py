"""Rules specific to the ring-buffer channel (C01, C02): equality-domain
dataflow for 'empty means drained', units-of-measure inference for the
(lap, position) cursors, the writer's check-then-act guard, encapsulation."""
from . import ir, paths
from .build import AnalysisBroken
from .locks import obj_key, points_into, LockAnalysis

CHANNEL_FIELDS = ["head", "high", "cycle", "mapped", "is_accepting_writes",
                  "holds.pos", "holds.cycles", "holds.n"]

# units of measure of the cursor fields (from the comments in channel.h)
POS, CYC = "position", "lap"
FIELD_DIM = {
    ("channel", "head"): POS, ("channel", "high"): POS, ("channel", "mapped"): POS,
    ("channel", "capacity"): POS,
    ("channel", "cycle"): CYC,
    ("channel", "holds.pos"): POS, ("channel", "holds.cycles"): CYC,
    ("channel_reader", "pos"): POS, ("channel_reader", "cycle"): CYC,
}


def channel_functions(prog):
    out = [f for f in prog.all_funcs() if f.file.endswith("runtime/channel.c")]
    if len(out) < 10:
        raise AnalysisBroken("channel.c: expected at least 10 functions, found %d" % len(out))
    return out


# ---------------------------------------------------------------------------
# equality domain

class Eq:
    """Partition of terms into equivalence classes plus disequalities between
    classes; immutable."""

    def __init__(self, classes=(), diseq=(), flags=(), facts=()):
        self.classes = frozenset(frozenset(c) for c in classes if len(c) > 0)
        self.diseq = frozenset(frozenset(d) for d in diseq)
        self.flags = frozenset(flags)
        # relational facts: ("diff", n, a, b): n = a - b ; ("succ", x, y): x = y + 1
        self.facts = frozenset(facts)

    def key(self):
        return (self.classes, self.diseq, self.flags, self.facts)

    def fact(self, f):
        return Eq(self.classes, self.diseq, self.flags, set(self.facts) | {f})

    def has_succ(self, x, y):
        for f in self.facts:
            if f[0] == "succ" and self.same(f[1], x) and self.same(f[2], y):
                return True
        return False

    def cls(self, t):
        for c in self.classes:
            if t in c:
                return c
        return frozenset([t])

    def same(self, a, b):
        return a == b or b in self.cls(a)

    def differ(self, a, b):
        ca, cb = self.cls(a), self.cls(b)
        for d in self.diseq:
            x, y = tuple(d) if len(d) == 2 else (None, None)
            if x is None:
                continue
            if (x in ca and y in cb) or (x in cb and y in ca):
                return True
        # two different constants differ
        ka = [t for t in ca if isinstance(t, tuple) and t[0] == "c"]
        kb = [t for t in cb if isinstance(t, tuple) and t[0] == "c"]
        return bool(ka and kb and ka[0] != kb[0])

    def forget(self, t):
        classes = [c - {t} for c in self.classes]
        diseq = [d for d in self.diseq if t not in d]
        facts = [f for f in self.facts if t not in f[1:]]
        return Eq(classes, diseq, self.flags, facts)

    def assign(self, t, src):
        e = self.forget(t)
        if src is None:
            return e
        cs = e.cls(src)
        classes = [c for c in e.classes if c != cs] + [cs | {t, src}]
        return Eq(classes, e.diseq, e.flags, e.facts)

    def assume_eq(self, a, b):
        if self.differ(a, b):
            return None  # infeasible
        ca, cb = self.cls(a), self.cls(b)
        classes = [c for c in self.classes if c != ca and c != cb] + [ca | cb]
        e = Eq(classes, self.diseq, self.flags, self.facts)
        # n = a - b and n = 0  =>  a = b
        zero = ("c", 0)
        for f in self.facts:
            if f[0] == "diff" and e.same(f[1], zero) and not e.same(f[2], f[3]):
                e2 = e.assume_eq(f[2], f[3])
                if e2 is None:
                    return None
                e = e2
        return e

    def assume_ne(self, a, b):
        if self.same(a, b):
            return None
        return Eq(self.classes, set(self.diseq) | {frozenset([a, b])}, self.flags, self.facts)

    def flag(self, f):
        return Eq(self.classes, self.diseq, set(self.flags) | {f}, self.facts)


def rule_empty_drained(prog, res):
    """At every return of channel_read_map where the byte count may be zero and
    no error status was set on the path, the reader's hold cursor equals the
    writer's (position and lap)."""
    R = "R-EMPTY-DRAINED"
    f = prog.func("channel_read_map")
    res.touched(f)
    la = LockAnalysis(prog)
    al = la.aliases(f)
    self_p = f.params[0]

    def term(n):
        """Canonical term of an expression, or None."""
        n = ir.strip(n)
        if not isinstance(n, dict):
            return None
        if n.get("k") == "int":
            return ("c", n["v"])
        if n.get("k") == "var" and not n.get("pd") and not n.get("r"):
            return ("v", n["n"])
        key = la.lvalue_key(f, n, al)
        if key is not None and key[0] in ("channel", "channel_reader"):
            return ("f",) + key
        return None

    T_POS, T_CYC = ("f", "channel", "holds.pos"), ("f", "channel", "holds.cycles")
    H, C = ("f", "channel", "head"), ("f", "channel", "cycle")
    Z = ("c", 0)
    ST = ("f", "channel_reader", "status")
    # which local holds the byte count: the variable that sizes the returned slice
    nb = None
    for b, i, s in f.all_stmts():
        if s.get("k") == "ret" and isinstance(s.get("e"), dict):
            for x in ir.walk(s["e"]):
                if x.get("k") == "bin" and x.get("op") == "+" and ir.strip(x["r"]).get("k") == "var":
                    nb = ("v", ir.strip(x["r"])["n"])
    if nb is None:
        raise AnalysisBroken("cannot identify the byte count of the slice channel_read_map returns")

    def transfer(e, s):
        # calls may change channel fields (reader_initialize)
        for c in ir.calls_in(s):
            if c.get("fn") not in ("lock_acquire", "lock_release", "aq_logger"):
                g = prog.resolve(c["fn"], f) if c.get("fn") else None
                if g is not None:
                    for (k2, m2) in la.effects(g):
                        if m2 == "w" and k2[0] in ("channel", "channel_reader"):
                            e = e.forget(("f",) + k2)
        for lv, op, rhs, w in ir.writes_of(s):
            t = term(lv)
            if t is None:
                continue
            if t == ST:
                e = e.flag("status")
            if op == "=":
                e = e.assign(t, term(rhs))
                r0 = ir.strip(rhs)
                if isinstance(r0, dict) and r0.get("k") == "bin" and r0.get("op") == "-":
                    ta, tb = term(r0["l"]), term(r0["r"])
                    if ta is not None and tb is not None and t not in (ta, tb):
                        e = e.fact(("diff", t, ta, tb))
            else:
                e = e.forget(t)
        return e

    def assume(e, cond, outcome):
        c = ir.strip(cond)
        if not isinstance(c, dict):
            return e
        if c.get("k") == "un" and c.get("op") == "!":
            return assume(e, c["e"], not outcome)
        if c.get("k") == "bin" and c["op"] in ("==", "!="):
            a, b = term(c["l"]), term(c["r"])
            eq = (c["op"] == "==") == outcome
            if a is not None and b is not None:
                return e.assume_eq(a, b) if eq else e.assume_ne(a, b)
            # x == y + 1
            for x, y in ((c["l"], c["r"]), (c["r"], c["l"])):
                y0 = ir.strip(y)
                tx = term(x)
                if tx is not None and isinstance(y0, dict) and y0.get("k") == "bin" and y0.get("op") == "+" and ir.is_const(y0["r"], 1):
                    ty = term(y0["l"])
                    if ty is not None and eq:
                        return e.fact(("succ", tx, ty))
            return e
        if c.get("k") == "bin" and c["op"] in ("<", ">"):
            a, b = term(c["l"]), term(c["r"])
            if a is not None and b is not None and outcome:
                return e.assume_ne(a, b)
            return e
        t = term(c)
        if t is not None:
            return e.assume_ne(t, Z) if outcome else e.assume_eq(t, Z)
        return e

    # powerset dataflow (trace partitioning); the function is loop-free but the
    # worklist handles loops by the visited set
    init = Eq()
    seen = set()
    work = [(f.entry, init)]
    returns = []
    nstates = 0
    while work:
        bid, e = work.pop()
        if (bid, e.key()) in seen:
            continue
        seen.add((bid, e.key()))
        nstates += 1
        blk = f.blocks[bid]
        ret = None
        for s in blk.stmts:
            if s.get("k") == "ret":
                ret = s
                break
            e = transfer(e, s)
        if ret is not None:
            returns.append((bid, ret, e))
            continue
        if len(blk.succs) >= 2 and blk.cond_node() is not None and blk.term != "switch":
            for sc in blk.succs:
                if sc.get("to") is None:
                    continue
                e2 = assume(e, blk.cond_node(), sc.get("label") == "true")
                if e2 is not None:
                    work.append((sc["to"], e2))
        else:
            for t in blk.succ_ids():
                work.append((t, e))
    if not returns:
        raise AnalysisBroken("channel_read_map: no return reached")
    n = 0
    for bid, ret, e in returns:
        if "status" in e.flags:
            continue  # an error was reported on this path
        if e.differ(nb, Z):
            continue  # a non-empty region is returned
        n += 1
        okp, okc = e.same(T_POS, H), e.same(T_CYC, C)
        HIGH = ("f", "channel", "high")
        # the same cursor, un-normalised: at the end of the previous lap while
        # the writer sits at the very start of the next one
        alt = e.same(T_POS, HIGH) and e.same(H, Z) and e.has_succ(C, T_CYC)
        inst = "channel_read_map: empty return, path state #%d" % n
        if alt and not (okp and okc):
            res.oblige(R, inst, True,
                       "hold position = high, head = 0 and writer's lap = hold lap + 1: the same cursor, nothing committed beyond it", f.loc(ret))
        elif okp and okc:
            res.oblige(R, inst, True,
                       "reader's hold position = head and hold lap = writer's lap are provable on this path", f.loc(ret))
        else:
            missing = []
            if not okp:
                missing.append("hold position = head")
            if not okc:
                missing.append("hold lap = writer's lap")
            known = sorted(str(sorted(map(str, c))) for c in e.classes if len(c) > 1)
            res.fail(R, inst, "R-EMPTY-DRAINED|channel_read_map|%s" % "+".join(m.split(" =")[0].replace(" ", "-") for m in missing),
                     f.loc(ret),
                     "channel_read_map can return an empty region without an error while %s is not established: 'empty' does not mean 'drained' (a caught-up reader at a wrap sees nothing although the new lap holds committed data)"
                     % " and ".join(missing), {"known_equalities": known})
    res.extra["empty_drained_path_states"] = nstates
    if n < 2:
        raise AnalysisBroken("expected at least two empty-return path states in channel_read_map, found %d" % n)


def rule_registration(prog, la, res):
    R = "R-REGISTER"
    g = prog.func("reader_initialize")
    res.touched(g)
    ctx = la.contexts()[(g.tu, g.name)]
    inst = "reader_initialize is only called with the channel lock held"
    if ("channel", "lock") in ctx:
        res.oblige(R, inst, True, "lockset at every call site contains channel.lock", g.loc())
    else:
        res.fail(R, inst, "R-REGISTER|unlocked", g.loc(),
                 "a reader can be registered without the channel lock: its starting cursor races with the writer")
    al = la.aliases(g)
    okc = okp = False
    for b, i, s in g.all_stmts():
        for lv, op, rhs, w in ir.writes_of(s):
            k = la.lvalue_key(g, lv, al)
            if k == ("channel", "holds.cycles") and ir.ap(rhs) is not None and obj_key(ir.strip(rhs)) == ("channel", "cycle"):
                okc = True
            if k == ("channel", "holds.pos") and (ir.is_const(rhs, 0) or (ir.ap(rhs) and obj_key(ir.strip(rhs)) == ("channel", "head"))):
                okp = True
    inst = "a new reader starts at a write boundary of the writer's current lap"
    if okc and okp:
        res.oblige(R, inst, True, "hold lap := channel.cycle, hold position := 0 (or head)", g.loc())
    else:
        res.fail(R, inst, "R-REGISTER|start-cursor", g.loc(),
                 "reader_initialize does not start the reader at (channel.cycle, 0 | head): it may begin inside a frame or in a lap the writer already left")


# ---------------------------------------------------------------------------
# units of measure

def rule_dimensions(prog, res):
    R = "R-DIM"
    fns = channel_functions(prog)
    la = LockAnalysis(prog)
    dims = {}      # (fn, var id[, field]) -> dim ; (fn,'ptr',var id) -> pointee dim
    aliases = {f.name: la.aliases(f) for f in fns}
    findings = []
    checks = []

    def dim(f, n):
        n = ir.strip(n)
        if not isinstance(n, dict):
            return None
        k = n.get("k")
        if k == "int":
            return None
        if k == "var":
            return dims.get((f.name, n["id"]))
        if k in ("mem", "deref", "idx"):
            key = la.lvalue_key(f, n, aliases[f.name])
            if key is not None and key[0] != "param":
                return FIELD_DIM.get(key)
            if key is not None and key[0] == "param":
                return dims.get((f.name, "ptr", f.params[key[1]]["id"]))
            if k == "mem":
                root, chain = ir.field_chain(n)
                if isinstance(root, dict) and root.get("k") == "var":
                    return dims.get((f.name, root["id"], ".".join(x for _, x in chain)))
            return None
        if k == "bin":
            if n["op"] in ("+", "-"):
                a, b = dim(f, n["l"]), dim(f, n["r"])
                if a and b and a != b:
                    findings.append((f, n, "adds/subtracts a %s and a %s" % (a, b)))
                return a or b
            return None
        if k == "cond":
            return dim(f, n.get("t")) or dim(f, n.get("f"))
        return None

    def setdim(key, d):
        if d and dims.get(key) is None:
            dims[key] = d
            return True
        return False

    changed = True
    rounds = 0
    while changed and rounds < 8:
        changed = False
        rounds += 1
        for f in fns:
            for b, i, s in f.all_stmts():
                for lv, op, rhs, w in ir.writes_of(s):
                    l0 = ir.strip(lv)
                    d = dim(f, rhs) if rhs is not None else None
                    if l0.get("k") == "var" and not l0.get("pd"):
                        changed |= setdim((f.name, l0["id"]), d)
                    elif l0.get("k") == "mem":
                        root, chain = ir.field_chain(l0)
                        if isinstance(root, dict) and root.get("k") == "var" and not root.get("pd") and "p" not in root:
                            changed |= setdim((f.name, root["id"], ".".join(x for _, x in chain)), d)
                    if isinstance(rhs, dict) and rhs.get("k") == "init" and l0.get("k") == "var":
                        for e in rhs.get("elts", []):
                            if "f" in e:
                                changed |= setdim((f.name, l0["id"], e["f"]), dim(f, e["v"]))
                for c in ir.calls_in(s):
                    g = prog.resolve(c["fn"], f) if c.get("fn") else None
                    if g is None or g not in fns:
                        continue
                    for k, a in enumerate(c.get("args", [])):
                        if k >= len(g.params):
                            continue
                        p = g.params[k]
                        t = points_into(a)
                        if t is not None and FIELD_DIM.get(t):
                            changed |= setdim((g.name, "ptr", p["id"]), FIELD_DIM[t])
                        else:
                            a0 = ir.strip(a)
                            if isinstance(a0, dict) and a0.get("k") == "var" and a0.get("pd") and "p" in a0:
                                changed |= setdim((g.name, "ptr", p["id"]), dims.get((f.name, "ptr", a0["id"])))
                            elif not p.get("pd"):
                                changed |= setdim((g.name, p["id"]), dim(f, a))
    # checks: comparisons and assignments stay within one dimension
    for f in fns:
        res.touched(f)
        for b, i, s in f.all_stmts():
            for x in ir.walk(s):
                if x.get("k") == "bin" and x["op"] in ("<", ">", "<=", ">=", "==", "!="):
                    a, bb = dim(f, x["l"]), dim(f, x["r"])
                    if a and bb:
                        checks.append((f, s, x, a, bb, "compares"))
                if x.get("k") == "asg" and x["op"] in ("=", "+=", "-=") and "r" in x:
                    a, bb = dim(f, x["l"]), dim(f, x["r"])
                    if a and bb:
                        checks.append((f, s, x, a, bb, "assigns"))
    for f, s, x, a, b, what in checks:
        inst = "%s:%s %s %s" % (f.name, s.get("line"), what, ir.render(x)[:60])
        if a == b:
            res.oblige(R, inst, True, "both are %ss" % a, f.loc(s))
        else:
            res.fail(R, inst, "R-DIM|%s|%s|%s-%s" % (f.name, what, a, b), f.loc(s),
                     "%s %s a %s with a %s (%s): the cursor's lap count and byte position are mixed up" % (f.name, what, a, b, ir.render(x)))
    for f, n, msg in findings:
        res.fail(R, "%s: %s" % (f.name, ir.render(n)[:50]), "R-DIM|%s|arith" % f.name, f.loc(), "%s %s" % (f.name, msg))
    # lexicographic order: a function comparing two cursors given as scalar
    # parameters decides on the lap first
    for f in fns:
        pd = {p["id"]: dims.get((f.name, p["id"])) for p in f.params if not p.get("pd")}
        if sum(1 for v in pd.values() if v == CYC) >= 2 and sum(1 for v in pd.values() if v == POS) >= 2 or \
                (len(f.params) == 4 and all(not p.get("pd") for p in f.params) and any(pd.values())):
            # first comparison reached from the entry
            order = []
            seen = set()
            st = [f.entry]
            while st:
                bid = st.pop(0)
                if bid in seen:
                    continue
                seen.add(bid)
                c = f.blocks[bid].cond_node()
                if c is not None:
                    ds = {dim(f, y) for y in ir.walk(c) if y.get("k") == "var"} - {None}
                    if ds:
                        order.append((bid, ds))
                st.extend(f.blocks[bid].succ_ids())
            if order:
                first = order[0][1]
                inst = "%s compares the lap before the position" % f.name
                if first == {CYC}:
                    res.oblige(R, inst, True, "first decision on the lap counts", f.loc())
                else:
                    res.fail(R, inst, "R-DIM|%s|lexicographic" % f.name, f.loc(),
                             "%s orders two cursors by their %s first: a reader one lap behind but at a higher offset is no longer the slowest, so the writer can overwrite bytes it has not consumed"
                             % (f.name, "/".join(sorted(first))))
    return len(checks)


# ---------------------------------------------------------------------------
# C02

def rule_write_guard(prog, res):
    """channel_write_map hands out a region only when, under one continuous
    hold of the lock, either no reader is registered or next_write() said the
    region fits against the slowest reader."""
    R = "R-WRITE-GUARD"
    f = prog.func("channel_write_map")
    res.touched(f)
    la = LockAnalysis(prog)
    al = la.aliases(f)
    # targets: store to channel.mapped and every return of a non-constant pointer
    targets = []
    for b, i, s in f.all_stmts():
        for lv, op, rhs, w in ir.writes_of(s):
            if la.lvalue_key(f, lv, al) == ("channel", "mapped"):
                targets.append((b.id, i, s, "store to channel.mapped"))
    if not targets:
        raise AnalysisBroken("channel_write_map no longer records the mapped region")

    def grant_edge(blk, succ):
        c = ir.strip(blk.cond_node())
        lab = succ.get("label")
        neg = False
        while isinstance(c, dict) and c.get("k") == "un" and c.get("op") == "!":
            neg = not neg
            c = ir.strip(c["e"])
        if not isinstance(c, dict):
            return None
        if c.get("k") == "call" and c.get("fn") == "next_write":
            return "space" if lab == ("false" if neg else "true") else None
        if c.get("k") == "mem" and obj_key(c) == ("channel", "holds.n"):
            return "no-readers" if lab == ("true" if neg else "false") else None
        return None

    def simple(c):
        c = ir.strip(c)
        neg = False
        while isinstance(c, dict) and c.get("k") == "un" and c.get("op") == "!":
            neg = not neg
            c = ir.strip(c["e"])
        if isinstance(c, dict) and c.get("k") == "mem":
            return obj_key(c), neg
        return None, False

    evm = la.events(f)
    for tb, ti, ts, what in targets:
        # search for a path entry -> target that never takes a grant edge, or
        # that waits / releases the lock after the grant; knowledge of flag
        # values (same lock hold) prunes contradictory branches
        bad = None
        seen = set()
        st = [(f.entry, 0, None, ())]   # block, start idx, grant, knowledge
        while st and bad is None:
            bid, start, grant, know = st.pop()
            key = (bid, start, grant, know)
            if key in seen:
                continue
            seen.add(key)
            blk = f.blocks[bid]
            g2, k2 = grant, dict(know)
            hit = False
            for j in range(start, len(blk.stmts)):
                if bid == tb and j == ti:
                    hit = True
                    break
                for ev in evm[bid][j]:
                    if ev[0] in ("wait", "rel"):
                        g2 = None      # the guarantee ends with the lock hold
                        k2 = {}
                    if ev[0] == "w" and ev[1] in k2:
                        del k2[ev[1]]
            if hit:
                if g2 is None:
                    bad = (bid, grant)
                continue
            for sc in blk.succs:
                t = sc.get("to")
                if t is None:
                    continue
                g3, k3 = g2, dict(k2)
                if len(blk.succs) >= 2 and blk.cond_node() is not None:
                    ge = grant_edge(blk, sc)
                    if ge:
                        g3 = ge
                    fk, neg = simple(blk.cond_node())
                    if fk is not None and sc.get("label") in ("true", "false"):
                        val = (sc["label"] == "true") != neg
                        if fk in k3 and k3[fk] != val:
                            continue  # contradicts what this lock hold already saw
                        k3[fk] = val
                st.append((t, 0, g3, tuple(sorted(k3.items()))))
        inst = "channel_write_map: %s only after space was established under the same lock hold" % what
        if bad is None:
            res.oblige(R, inst, True,
                       "every path passes the 'no readers' or the 'next_write() succeeded' edge with no wait/unlock in between",
                       f.loc(ts))
        else:
            res.fail(R, inst, "R-WRITE-GUARD|channel_write_map|%s" % what.split()[-1], f.loc(ts),
                     "channel_write_map can record/hand out a region on a path where space against the slowest reader was not (or no longer) established under the current hold of the lock: the writer may be given bytes a reader has not consumed")
    # the wait loop re-evaluates next_write after every wake-up (L-RECHECK is C03's)
    return len(targets)


def rule_encaps(prog, res, la):
    """Only channel.c moves the cursors."""
    R = "R-ENCAPS"
    allowed_reads = {
        "video_sink_bytes_waiting": "advisory statistic (acquire_bytes_waiting_to_be_written_to_disk)",
    }
    n = 0
    for f in prog.all_funcs():
        if f.file.endswith("runtime/channel.c"):
            continue
        accs, _, _ = la.accesses(f)
        for a, held in accs:
            if a.key[0] not in ("channel", "channel_reader"):
                continue
            n += 1
            res.touched(f)
            inst = "%s %s %s.%s" % (f.name, "writes" if a.mode == "w" else "reads", a.key[0], a.key[1])
            if a.mode == "w":
                res.fail(R, inst, "R-ENCAPS|%s|w|%s.%s" % (f.name, a.key[0], a.key[1]), a.loc(),
                         "%s (outside channel.c) writes %s.%s: cursor state is changed without the channel's lock and invariants" % (f.name, a.key[0], a.key[1]))
            elif a.key[0] == "channel_reader" and a.key[1] in ("state", "status", "id"):
                res.oblige(R, inst, True, "read of the reader's public state/status/id", a.loc())
            elif f.name in allowed_reads:
                res.oblige(R, inst, True, "exempt: " + allowed_reads[f.name], a.loc())
            else:
                res.fail(R, inst, "R-ENCAPS|%s|r|%s.%s" % (f.name, a.key[0], a.key[1]), a.loc(),
                         "%s (outside channel.c) reads the cursor field %s.%s without the channel lock" % (f.name, a.key[0], a.key[1]))
    return n


def rule_stale_across_wait(prog, res, la, protected, rule="R-STALE-READ"):
    """A value read from the lock-protected cursors before a
    condition_variable_wait is stale after it (the wait releases the lock): no
    local defined from such a read may be used after the wait without being
    re-read."""
    n = 0
    for site in la.wait_sites():
        f = site["fn"]
        if not site["lock"] or site["lock"][0] != "channel":
            continue
        res.touched(f)
        al = la.aliases(f)
        prot = {("channel", p) for p in protected}

        def reads_protected(expr):
            for ev in la.stmt_events(f, expr, al):
                if ev[0] == "r" and ev[1] in prot:
                    return True
                if ev[0] == "call" and ev[1]:
                    g = prog.resolve(ev[1], f)
                    if g is not None:
                        args = ev[2].get("args", [])
                        for (k2, m2) in la.effects(g):
                            if m2 != "r":
                                continue
                            if k2 in prot:
                                return True
                            if k2[0] == "param" and k2[1] < len(args):
                                from .locks import points_into
                                t = points_into(args[k2[1]])
                                if t in prot:
                                    return True
            return False
        defs = []
        for b, i, s in f.all_stmts():
            for lv, op, rhs, w in ir.writes_of(s):
                if lv.get("k") == "var" and rhs is not None and not lv.get("pd") and reads_protected(rhs):
                    defs.append((b.id, i, s, lv))
        wb, wi = site["block"], site["idx"]

        def redefines(s, vid):
            for lv, op, rhs, w in ir.writes_of(s):
                if lv.get("k") == "var" and lv["id"] == vid:
                    return True
            # passing &v to a call re-defines it (out parameter)
            for c in ir.calls_in(s):
                for a in c.get("args", []):
                    a0 = ir.strip(a)
                    if isinstance(a0, dict) and a0.get("k") == "addr" and ir.strip(a0["e"]).get("k") == "var" and ir.strip(a0["e"])["id"] == vid:
                        return True
            return False

        def uses(s, vid):
            for x in ir.walk(s):
                if x.get("k") == "var" and x["id"] == vid:
                    return True
            return False
        for db, di, ds, v in defs:
            n += 1
            vid = v["id"]
            # does the definition reach the wait un-redefined?
            reach = False
            seen = set()
            st = [(db, di + 1)]
            while st and not reach:
                b, i0 = st.pop()
                if (b, i0) in seen:
                    continue
                seen.add((b, i0))
                blk = f.blocks[b]
                killed = False
                for j in range(i0, len(blk.stmts)):
                    if b == wb and j == wi:
                        reach = True
                        break
                    if redefines(blk.stmts[j], vid):
                        killed = True
                        break
                if reach or killed:
                    continue
                for t in blk.succ_ids():
                    st.append((t, 0))
            stale_use = None
            if reach:
                seen = set()
                st = [(wb, wi + 1)]
                while st and stale_use is None:
                    b, i0 = st.pop()
                    if (b, i0) in seen:
                        continue
                    seen.add((b, i0))
                    blk = f.blocks[b]
                    killed = False
                    for j in range(i0, len(blk.stmts)):
                        s = blk.stmts[j]
                        if uses(s, vid) and not (redefines(s, vid) and not any(
                                x.get("k") == "var" and x["id"] == vid for lv, op, rhs, w in ir.writes_of(s) for x in ir.walk(rhs or {}))):
                            stale_use = s
                            break
                        if redefines(s, vid):
                            killed = True
                            break
                    if stale_use is not None or killed:
                        continue
                    for t in blk.succ_ids():
                        st.append((t, 0))
            inst = "%s: '%s' (read from the cursors at line %s) is not used across the wait" % (f.name, v["n"], ds.get("line"))
            if stale_use is None:
                res.oblige(rule, inst, True, "re-read after every wake-up, or not live across the wait", f.loc(ds))
            else:
                res.fail(rule, inst, "%s|%s|%s" % (rule, f.name, v["n"]), f.loc(stale_use),
                         "%s computes '%s' from the readers' cursors before condition_variable_wait and uses it again after waking up (line %s) without re-reading: the wait releases the lock, readers move meanwhile, and the writer decides on a stale slowest reader"
                         % (f.name, v["n"], stale_use.get("line")))
    return n


def rule_cursor_pair(prog, res, la, rule="R-CURSOR-PAIR"):
    """A reader's hold cursor is a (lap, position) pair: whenever the position
    is reset to the start of the ring the lap is stored on the same path
    (moving to offset 0 *is* a lap change); likewise head := 0 for the writer."""
    n = 0
    pairs = [(("channel", "holds.pos"), ("channel", "holds.cycles"), "a reader's hold"),
             (("channel", "head"), ("channel", "cycle"), "the writer's")]
    for f in channel_functions(prog):
        if la.is_ctor_dtor(f, ("channel", "lock")):
            continue
        al = la.aliases(f)
        for b, i, s in f.all_stmts():
            for lv, op, rhs, w in ir.writes_of(s):
                key = la.lvalue_key(f, lv, al)
                for pk, ck, who in pairs:
                    if key != pk or op != "=" or not ir.is_const(rhs, 0):
                        # head = beg (a variable that may be 0) is covered by the beg != head branch
                        continue
                    n += 1
                    res.touched(f)

                    def lap_store(ss, ck=ck):
                        for lv2, op2, rhs2, w2 in ir.writes_of(ss):
                            if la.lvalue_key(f, lv2, al) == ck:
                                return True
                        return False
                    after, _ = paths.all_paths_pass(f, (b.id, i), "exit", lap_store)
                    before, _ = paths.all_paths_pass(f, "entry", {(b.id, i)}, lap_store)
                    same_stmt = lap_store(s) or any(lap_store(x) for x in f.blocks[b.id].stmts[:i])
                    inst = "%s:%s position reset of %s cursor comes with a lap store" % (f.name, s.get("line"), who)
                    if after or same_stmt:
                        res.oblige(rule, inst, True, "", f.loc(s))
                    else:
                        res.fail(rule, inst, "%s|%s|%s" % (rule, f.name, pk[1]), f.loc(s),
                                 "%s moves %s position to the start of the ring without storing the lap on that path: the cursor now claims an offset in a lap it has already finished, and the next comparison with the writer treats unread data as overrun (or read data as new)"
                                 % (f.name, who))
    return n


CURSORS = {
    "hold": {CYC: ("channel", "holds.cycles"), POS: ("channel", "holds.pos")},
    "reader": {CYC: ("channel_reader", "cycle"), POS: ("channel_reader", "pos")},
    "writer": {CYC: ("channel", "cycle"), POS: ("channel", "head")},
}


def rule_cursor_copy(prog, res, la, rule="R-CURSOR-COPY"):
    """A cursor is a (lap, position) pair.  When one component of cursor A is
    assigned from the same component of cursor B, the other component of A is
    assigned from the other component of B on every path through that
    statement: copying half a cursor labels a position with the wrong lap."""
    n = 0
    comp = {}
    for cname, d in CURSORS.items():
        for dim, key in d.items():
            comp[key] = (cname, dim)
    for f in channel_functions(prog):
        if la.is_ctor_dtor(f, ("channel", "lock")):
            continue
        al = la.aliases(f)

        def src_of(rhs):
            r = ir.strip(rhs)
            if not isinstance(r, dict) or r.get("k") not in ("mem", "deref", "idx"):
                return None
            k = la.lvalue_key(f, r, al)
            return comp.get(k)
        copies = []
        for b, i, s in f.all_stmts():
            for lv, op, rhs, w in ir.writes_of(s):
                if op != "=":
                    continue
                dk = comp.get(la.lvalue_key(f, lv, al))
                sk = src_of(rhs) if rhs is not None else None
                if dk and sk and dk[0] != sk[0] and dk[1] == sk[1]:
                    copies.append((b.id, i, s, dk, sk))
        for bid, i, s, (dc, dd), (sc, sd) in copies:
            n += 1
            res.touched(f)
            other = POS if dd == CYC else CYC
            want_dst, want_src = CURSORS[dc][other], CURSORS[sc][other]

            def partner(ss, want_dst=want_dst, want_src=want_src, sc=sc, other=other):
                for lv2, op2, rhs2, w2 in ir.writes_of(ss):
                    if op2 == "=" and la.lvalue_key(f, lv2, al) == want_dst and rhs2 is not None:
                        # the start of the writer's lap is a position of that lap
                        if sc == "writer" and other == POS and ir.is_const(rhs2, 0):
                            return True
                        r2 = ir.strip(rhs2)
                        if isinstance(r2, dict) and r2.get("k") in ("mem", "deref", "idx") and \
                                la.lvalue_key(f, r2, al) == want_src:
                            return True
                        # a conditional expression with the other cursor's
                        # component in one arm: a copy under a condition (which
                        # condition is decided numerically by R-LIN / UNMAP)
                        if isinstance(r2, dict) and r2.get("k") == "cond":
                            for arm in (r2.get("t"), r2.get("f")):
                                a_ = ir.strip(arm)
                                if isinstance(a_, dict) and a_.get("k") == "ref":
                                    a_ = ir.strip(f.resolve_ref(a_) or {})
                                if isinstance(a_, dict) and a_.get("k") in ("mem", "deref", "idx") and la.lvalue_key(f, a_, al) == want_src:
                                    return True
                return False
            blk = f.blocks[bid]
            same_block = any(partner(x) for x in blk.stmts)
            after, _ = paths.all_paths_pass(f, (bid, i), "exit", partner)
            after = after or paths.all_paths_pass(f, "entry", {(bid, i)}, partner)[0]
            inst = "%s:%s %s.%s := %s.%s comes with the %s" % (f.name, s.get("line"), dc, dd, sc, sd, other)
            if same_block or after:
                res.oblige(rule, inst, True, "%s.%s := %s.%s on the same path" % (dc, other, sc, other), f.loc(s))
            else:
                res.fail(rule, inst, "%s|%s|%s.%s<-%s" % (rule, f.name, dc, dd, sc), f.loc(s),
                         "%s copies the %s of the %s cursor into the %s cursor without copying its %s on the same path: the %s cursor now pairs a %s of one lap with the lap count of another (after a partial release the next map sees an impossible cursor and skips unread data)"
                         % (f.name, dd, sc, dc, other, dc, POS))
    return n


def rule_full_guard(prog, res, la, rule="R-FULL-GUARD"):
    """next_write may grant a region only when the ring is known not to be
    exactly full against the slowest reader: every return that can be non-zero
    is reached through the `head < tail` edge or through a false edge of the
    ring-full test (tail == head  &&  writer lap == reader lap + 1)."""
    f = prog.func("next_write")
    res.touched(f)
    al = la.aliases(f)
    defs = {}
    for b, i, s in f.all_stmts():
        for lv, op, rhs, w in ir.writes_of(s):
            if lv.get("k") == "var" and op == "=":
                defs[lv["id"]] = rhs

    def keyof(n):
        n = ir.strip(n)
        if isinstance(n, dict) and n.get("k") == "var" and n["id"] in defs:
            n = ir.strip(defs[n["id"]])
        if isinstance(n, dict) and n.get("k") in ("mem", "idx", "deref"):
            return la.lvalue_key(f, n, al)
        return None

    def is_succ_test(c):
        c = ir.strip(c)
        if not (isinstance(c, dict) and c.get("k") == "bin" and c["op"] == "=="):
            return False
        for x, y in ((c["l"], c["r"]), (c["r"], c["l"])):
            y0 = ir.strip(y)
            if keyof(x) == ("channel", "cycle") and isinstance(y0, dict) and y0.get("k") == "bin" and \
                    y0["op"] == "+" and ir.is_const(y0["r"], 1) and keyof(y0["l"]) == ("channel", "holds.cycles"):
                return True
        return False

    def is_tail_eq_head(c):
        c = ir.strip(c)
        if not (isinstance(c, dict) and c.get("k") == "bin" and c["op"] == "=="):
            return False
        ks = {keyof(c["l"]), keyof(c["r"])}
        return ks == {("channel", "holds.pos"), ("channel", "head")}

    def is_head_lt_tail(c):
        c = ir.strip(c)
        if not (isinstance(c, dict) and c.get("k") == "bin" and c["op"] in ("<", ">")):
            return False
        l, r = (c["l"], c["r"]) if c["op"] == "<" else (c["r"], c["l"])
        return keyof(l) == ("channel", "head") and keyof(r) == ("channel", "holds.pos")
    full_blocks = set()
    for b in f.blocks.values():
        c = b.cond_node()
        if c is not None and is_succ_test(c):
            full_blocks.add(b.id)
            for p in f.preds().get(b.id, []):
                pc = f.blocks[p].cond_node()
                if pc is not None and is_tail_eq_head(pc) and f.blocks[p].term == "and":
                    full_blocks.add(p)
    if not full_blocks:
        # a comparison of the two laps exists but it is not "writer lap ==
        # reader lap + 1": that is a wrong full test (reported below: no grant
        # is guarded); no lap comparison at all means the function was
        # restructured beyond what this rule recognises
        def mentions(c, key):
            return any(keyof(y) == key for y in ir.walk(c) if isinstance(y, dict))
        lapcmp = any(b.cond_node() is not None and mentions(b.cond_node(), ("channel", "cycle")) and
                     mentions(b.cond_node(), ("channel", "holds.cycles")) for b in f.blocks.values())
        if not lapcmp:
            raise AnalysisBroken("next_write: the ring-full test (tail == head && cycle == reader cycle + 1) was not found")

    def accepted(cn, lab, blk):
        if blk.id in full_blocks and lab == "false":
            return True
        if is_head_lt_tail(cn) and lab == "true":
            return True
        return False
    n = 0
    for b, i, s in f.all_stmts():
        if s.get("k") != "ret" or ir.is_const(s.get("e"), 0):
            continue
        n += 1
        dom, _ = paths.edge_dominated(f, (b.id, i), accepted)
        inst = "next_write: grant at line %s only when the ring is not full" % s.get("line")
        if dom:
            res.oblige(rule, inst, True, "reached only through head < tail or a false edge of the ring-full test", f.loc(s))
        else:
            res.fail(rule, inst, "%s|next_write|grant" % rule, f.loc(s),
                     "next_write can grant a region (return %s) on a path that never tested whether the ring is exactly full against the slowest reader: with head == tail one lap ahead the writer is handed the reader's unread (possibly mapped) bytes"
                     % ir.render(s.get("e")))
    return n


def hold_slots(prog):
    """number of slots of the hold table, from the declared type of holds.pos"""
    import re as _re
    for f in prog.all_funcs():
        if not f.blocks or not f.file.endswith("channel.c"):
            continue
        for b, i, s in f.all_stmts():
            for y in ir.walk(s):
                if isinstance(y, dict) and y.get("k") == "mem" and y.get("f") in ("pos", "cycles") and (ir.ap(y) or "").endswith("holds." + y["f"]):
                    m = _re.search(r"\[(\d+)\]", y.get("t", ""))
                    if m:
                        return int(m.group(1))
    raise AnalysisBroken("declared length of holds.pos not found")


def rule_hold_bound(prog, res, rule="R-HOLD-BOUND"):
    """The hold table has a fixed number of slots; "for all reader counts" includes one more than that.
    Three clauses make  holds.n <= slots  an invariant and every registration store land inside the table:
      count-owner : holds.n is written only where a reader registers (one function) and by channel_new's
                    whole-object initialiser;
      store-bound : in that function the linear domain proves 0 <= index < slots at the stores into
                    holds.pos[] / holds.cycles[] (the index comes from the incremented count, so this needs
                    the 'table full' test *before* the increment);
      refusal     : channel_read_map forms a hold index from reader->id only on the edge where the
                    registration succeeded - a refused reader has id 0, index -1."""
    from .indexguard import rule_index_guards
    n = 0
    writers = {}
    for f in prog.all_funcs():
        if not f.blocks:
            continue
        for b, i, s in f.all_stmts():
            for lv, op, rhs, w in ir.writes_of(s):
                if lv.get("k") == "mem" and lv.get("f") == "n" and "channel" in (lv.get("rec") or "") and (ir.ap(lv) or "").endswith("holds.n"):
                    if op == "=" and ir.is_const(rhs, 0):
                        continue    # reset (channel_release): lowers the count
                    writers.setdefault(f.name, []).append((f, s))
    if not writers:
        raise AnalysisBroken("no store to holds.n found")
    reg = [k for k in writers]
    inst = "holds.n is changed in one place only (the registration of a reader)"
    if len(reg) == 1:
        res.oblige(rule, inst, True, "written in %s" % reg[0], writers[reg[0]][0][0].loc(writers[reg[0]][0][1]))
    else:
        f_, s_ = writers[sorted(reg)[-1]][0]
        res.fail(rule, inst, "%s|count-owner" % rule, f_.loc(s_),
                 "the reader count holds.n is written in %s: the bound established where a reader registers does not cover the other store" % ", ".join(sorted(reg)))
    n += 1
    regf = prog.func(sorted(reg)[0])
    res.touched(regf)
    k = rule_index_guards(prog, res, [regf.name], rule=rule)
    if k < 1:
        raise AnalysisBroken("%s no longer stores into the hold table by index" % regf.name)
    n += k
    # with the count bounded (the two clauses above make holds.n <= slots inductive), the loops over
    # 0..holds.n-1 stay inside the table
    from . import linear as _L
    slots = hold_slots(prog)

    def inv(key, name, st, an):
        return [("le", _L.lsub(_L.lvar(name), _L.lconst(slots)))] if key.endswith("holds.n") else []
    loops = [g.name for g in channel_functions(prog) if g is not regf and any(
        isinstance(y, dict) and y.get("k") == "idx" and (ir.ap(y.get("b")) or "").endswith(("holds.pos", "holds.cycles")) and not ir.is_const(y.get("i"))
        and not any(isinstance(z, dict) and z.get("k") == "call" for z in ir.walk(y.get("i")))
        and not any(isinstance(z, dict) and z.get("k") == "var" and "argmin" == z.get("n") for z in ir.walk(y.get("i")))
        for b, i, s in g.all_stmts() for y in ir.walk(s)) and paths.natural_loops(g)]
    for gname in sorted(set(loops)):
        n += rule_index_guards(prog, res, [gname], rule=rule, invariant=inv, follow=False)
    # indices that come from the slowest-reader scan: 0, or a loop index below the count it was given
    # (R-LIN / reader_min proves that shape); the count given must be holds.n
    from . import congr as _congr
    for g in channel_functions(prog):
        defs = _congr.single_defs(g)
        for b, i, s_ in g.all_stmts():
            for y in ir.walk(s_):
                if not (isinstance(y, dict) and y.get("k") == "idx" and (ir.ap(y.get("b")) or "").endswith(("holds.pos", "holds.cycles"))):
                    continue
                iv = ir.strip(y.get("i"))
                if not (isinstance(iv, dict) and iv.get("k") == "var" and iv.get("id") in defs):
                    continue
                d = ir.strip(defs[iv["id"]])
                if not (isinstance(d, dict) and d.get("k") == "call" and d.get("fn") == "reader_min"):
                    continue
                res.touched(g)
                cnt = d.get("args", [None, None, None])[2] if len(d.get("args", [])) >= 3 else None
                okc = (ir.ap(ir.strip(cnt)) or "").endswith("holds.n") if isinstance(cnt, dict) else False
                inst = "%s: %s is indexed with reader_min's result over holds.n readers" % (g.name, ir.render(y.get("b")))
                n += 1
                if okc:
                    res.oblige(rule, inst, True, "0 or a scan index below holds.n (R-LIN reader_min), holds.n <= %d" % slots, g.loc(s_))
                else:
                    res.fail(rule, inst, "%s|argmin|%s" % (rule, g.name), g.loc(s_),
                             "%s indexes the hold table with the result of reader_min called with a count that is not holds.n (%s): the index is not bounded by the table size" % (g.name, ir.render(cnt) if isinstance(cnt, dict) else "?"))
    # refusal
    for f in prog.all_funcs():
        if not f.blocks or f is regf:
            continue
        calls_reg = [(b.id, i, s) for b, i, s in f.all_stmts() for c in ir.calls_in(s) if c.get("fn") == regf.name]
        if not calls_reg:
            continue
        res.touched(f)
        uses = []
        for b, i, s in f.all_stmts():
            for y in ir.walk(s):
                if isinstance(y, dict) and y.get("k") == "bin" and y.get("pd") and y.get("op") in ("+", "-"):
                    a = ir.ap(y.get("l")) or ""
                    if a.endswith("holds.pos[*]") or a.endswith("holds.cycles[*]") or a.endswith("holds.pos") or a.endswith("holds.cycles"):
                        if any(isinstance(z, dict) and z.get("k") == "mem" and z.get("f") == "id" for z in ir.walk(y)):
                            uses.append((b.id, i, s))
                            break
                if isinstance(y, dict) and y.get("k") == "idx" and (ir.ap(y.get("b")) or "").split(".")[-1] in ("pos", "cycles") and \
                        any(isinstance(z, dict) and z.get("k") == "mem" and z.get("f") == "id" for z in ir.walk(y.get("i"))):
                    uses.append((b.id, i, s))
                    break

        def registered(cn, lab, blk):
            if lab not in ("true", "false"):
                return False
            c = ir.strip(cn)
            neg = False
            while isinstance(c, dict) and c.get("k") == "un" and c.get("op") == "!":
                neg = not neg
                c = ir.strip(c["e"])
            if isinstance(c, dict) and c.get("k") == "ref":
                t = f.resolve_ref(c)
                c = ir.strip(t) if t is not None else c
            if isinstance(c, dict) and c.get("k") == "bin" and c.get("op") in ("==", "!=") and ir.is_const(c.get("r"), 0):
                if c["op"] == "==":
                    neg = not neg
                c = ir.strip(c["l"])
            if not (isinstance(c, dict) and c.get("k") == "call" and c.get("fn") == regf.name):
                return False
            return (lab == "true") != neg
        for bid, i, s in uses:
            ok = paths.edge_dominated(f, (bid, i), registered)[0]
            inst = "%s: the hold slot of reader->id (line %s) is formed only for a registered reader" % (f.name, s.get("line"))
            if ok:
                res.oblige(rule, inst, True, "dominated by the success edge of %s" % regf.name, f.loc(s))
            else:
                res.fail(rule, inst, "%s|refusal|%s" % (rule, f.name), f.loc(s),
                         "%s calls %s and then indexes the hold table with reader->id - 1 whatever the answer: a reader for which no slot is left keeps id 0 "
                         "(index -1), or - when the registration stores before it tests - lands on slot 8, which is holds.n itself" % (f.name, regf.name))
            n += 1
    return n
