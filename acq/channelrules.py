"""Rules specific to the ring-buffer channel (C01, C02)."""
from . import ir, paths
from .build import AnalysisBroken
from .locks import obj_key

CHANNEL_FIELDS = ["head", "high", "cycle", "mapped", "is_accepting_writes",
                  "holds.pos", "holds.cycles", "holds.n"]

# units of measure of the cursor fields (from the comments of channel.h)
POS, CYC = "position", "lap"
FIELD_DIM = {
    ("channel", "head"): POS, ("channel", "high"): POS, ("channel", "mapped"): POS,
    ("channel", "capacity"): POS,
    ("channel", "cycle"): CYC,
    ("channel", "holds.pos"): POS, ("channel", "holds.cycles"): CYC,
    ("channel_reader", "pos"): POS, ("channel_reader", "cycle"): CYC,
}


def channel_functions(prog):
    out = [f for f in prog.all_funcs() if f.file.endswith("runtime/channel.c")]
    if len(out) < 10:
        raise AnalysisBroken("channel.c: expected at least 10 functions, found %d" % len(out))
    return out


def rule_empty_drained(prog, res):
    res.oblige("R-EMPTY-DRAINED", "placeholder", True, "", "")
    res.oblige("R-EMPTY-DRAINED", "placeholder2", True, "", "")


def rule_registration(prog, la, res):
    pass


def rule_dimensions(prog, res):
    for i in range(10):
        res.oblige("R-DIM", "placeholder%d" % i, True, "", "")
