"""R-SET-ADOPTS: a storage device's `set` that reports success has stored the
file name it was given.  On every path from the entry to a success return
there is a statement that writes data derived from the settings parameter's
`uri` into the device object (storage_properties_copy / _set_uri into a member,
or an assignment to a member).  An early "nothing changed" return that skips
the store is reported: the next acquisition would go to the previous file."""
from . import ir, paths
from .build import AnalysisBroken


def _mentions(n, pred):
    return any(pred(y) for y in ir.walk(n))


def rule_set_adopts(prog, res, f, rule="R-SET-ADOPTS"):
    res.touched(f)
    # the settings parameter: pointer to StorageProperties
    sp = [p for p in f.params if p.get("r") == "StorageProperties" and p.get("pd")]
    if len(sp) != 1:
        raise AnalysisBroken("%s: settings parameter not found" % f.name)
    sp = sp[0]

    def is_param(y):
        return y.get("k") == "var" and y.get("id") == sp["id"]

    def uri_of_param(y):
        return y.get("k") == "mem" and y.get("f") == "uri" and _mentions(y["b"], is_param)
    derived = set()
    changed = True
    while changed:
        changed = False
        for b, i, s in f.all_stmts():
            for lv, op, rhs, w in ir.writes_of(s):
                if lv.get("k") == "var" and lv["id"] not in derived and isinstance(rhs, dict):
                    if _mentions(rhs, uri_of_param) or _mentions(rhs, lambda y: y.get("k") == "var" and y.get("id") in derived):
                        derived.add(lv["id"])
                        changed = True

    def from_settings(n, whole_ok=False):
        return _mentions(n, uri_of_param) or _mentions(n, lambda y: y.get("k") == "var" and y.get("id") in derived) or \
            (whole_ok and _mentions(n, is_param))

    def in_device(n):
        """destination inside the device object: a member of this / of a
        record reached from the self parameter, not a local and not the
        settings parameter"""
        n = ir.strip(n)
        if isinstance(n, dict) and n.get("k") == "addr":
            n = ir.strip(n["e"])
        root, ch = ir.field_chain(n)
        if not ch or not isinstance(root, dict):
            return False
        if root.get("k") == "this":
            return True
        if root.get("k") == "var" and root.get("id") != sp["id"] and root.get("pd"):
            return True
        return False

    def adopts(s):
        for c in ir.calls_in(s):
            fn = c.get("fn") or ""
            a = c.get("args", [])
            if fn == "storage_properties_copy" and len(a) == 2 and in_device(a[0]) and from_settings(a[1], True):
                return True
            if fn == "storage_properties_set_uri" and len(a) == 3 and in_device(a[0]) and from_settings(a[1]):
                return True
            if fn.endswith("operator=") and len(a) == 2 and in_device(a[0]) and from_settings(a[1]):
                return True
        for lv, op, rhs, w in ir.writes_of(s):
            if op == "=" and lv.get("k") != "var" and in_device(lv) and isinstance(rhs, dict) and from_settings(rhs):
                return True
        return False
    # success returns
    rets = []
    for b, i, s in f.all_stmts():
        if s.get("k") == "ret" and "e" in s:
            e = ir.strip(s["e"])
            if isinstance(e, dict) and e.get("k") == "int":
                names = list(e.get("names") or [])
                if isinstance(e.get("e"), str):
                    names.append(e["e"])
                if any("Armed" in n_ for n_ in names) or (not names and e.get("v") not in (0, None)):
                    rets.append((b.id, i, s))
            elif isinstance(e, dict):
                rets.append((b.id, i, s))  # computed state: treat as possibly success
    if not rets:
        raise AnalysisBroken("%s: no success return found" % f.name)
    inst = "%s: a successful set has stored the requested file name" % f.name
    ok, w = paths.all_paths_pass(f, "entry", {(b, i) for b, i, s in rets}, paths.through_callees(prog, f, adopts))
    if ok:
        res.oblige(rule, inst, True, "on every path to %d success return(s)" % len(rets), f.loc())
    else:
        res.fail(rule, inst, "%s|%s" % (rule, f.name), f.loc(),
                 "%s can report success without storing the file name it was given: the next acquisition is written to the previously configured file"
                 % f.name, {"path_blocks": w})


def rule_set_adopts_all(prog, res, f, rule="R-SET-ADOPTS"):
    """Every setting the device keeps is refreshed by every successful set.
    M = the device members that `set` assigns from data derived from its
    settings parameter (whole copies, per-field setters, member assignments).
    Must-assigned dataflow (intersection at joins): at every success return each
    member of M has been assigned on every path - from the settings, or reset
    (clear() / a constant).  A whole-record copy covers its fields, a field
    setter does not cover the record.  A member that is refreshed only under a
    condition on the new value keeps the PREVIOUS acquisition's value otherwise."""
    res.touched(f)
    sp = [p for p in f.params if p.get("r") == "StorageProperties" and p.get("pd")]
    if len(sp) != 1:
        raise AnalysisBroken("%s: settings parameter not found" % f.name)
    sp = sp[0]

    def is_param(y):
        return y.get("k") == "var" and y.get("id") == sp["id"]
    derived = set()
    changed = True
    while changed:
        changed = False
        for b, i, s in f.all_stmts():
            for lv, op, rhs, w in ir.writes_of(s):
                if lv.get("k") == "var" and lv["id"] not in derived and lv["id"] != sp["id"] and isinstance(rhs, dict):
                    if _mentions(rhs, is_param) or _mentions(rhs, lambda y: y.get("k") == "var" and y.get("id") in derived):
                        derived.add(lv["id"])
                        changed = True
            if s.get("k") == "decl" and isinstance(s.get("init"), dict) and s["var"]["id"] not in derived:
                if _mentions(s["init"], is_param) or _mentions(s["init"], lambda y: y.get("k") == "var" and y.get("id") in derived):
                    derived.add(s["var"]["id"])
                    changed = True

    def from_settings(n):
        return isinstance(n, dict) and (_mentions(n, is_param) or _mentions(n, lambda y: y.get("k") == "var" and y.get("id") in derived))

    def dev_path(n):
        n = ir.strip(n)
        if isinstance(n, dict) and n.get("k") == "addr":
            n = ir.strip(n["e"])
        root, ch = ir.field_chain(n)
        if not ch or not isinstance(root, dict):
            return None
        if root.get("k") == "this" or (root.get("k") == "var" and root.get("id") != sp["id"] and root.get("pd") and root.get("id") not in derived):
            p = ir.ap(n)
            return p
        return None
    SETTERS = {"storage_properties_set_uri": "uri", "storage_properties_set_external_metadata": "external_metadata_json",
               "storage_properties_set_access_key_and_secret": "access_key_id", "storage_properties_set_dimension": "acquisition_dimensions",
               "storage_properties_set_enable_multiscale": "enable_multiscale"}

    def gens(s):
        """[(member path, adopts from settings?)]"""
        out = []
        for c in ir.calls_in(s):
            fn = c.get("fn") or ""
            a = c.get("args", [])
            if fn == "storage_properties_copy" and len(a) == 2 and dev_path(a[0]):
                out.append((dev_path(a[0]), from_settings(a[1])))
            elif fn in SETTERS and a and dev_path(a[0]):
                out.append((dev_path(a[0]) + "." + SETTERS[fn], any(from_settings(x) for x in a[1:])))
            elif (fn.endswith("operator=") or fn.endswith("::assign")) and len(a) >= 2 and dev_path(a[0]):
                out.append((dev_path(a[0]), any(from_settings(x) for x in a[1:])))
            elif fn.endswith("::clear") and a and dev_path(a[0]):
                out.append((dev_path(a[0]), False))
        for lv, op, rhs, w in ir.writes_of(s):
            if op == "=" and lv.get("k") != "var" and dev_path(lv):
                out.append((dev_path(lv), from_settings(rhs) if isinstance(rhs, dict) else False))
        return out
    M = {}
    for b, i, s in f.all_stmts():
        for p, fs in gens(s):
            if fs:
                M.setdefault(p, f.loc(s))
    if not M:
        raise AnalysisBroken("%s: no device member is assigned from the settings" % f.name)
    # must-assigned dataflow
    preds = f.preds()
    ALL = None
    IN = {bid: ALL for bid in f.blocks}
    IN[f.entry] = frozenset()

    def flow(bid, upto=None):
        cur = set(IN[bid] or ())
        blk = f.blocks[bid]
        for j, s in enumerate(blk.stmts):
            if upto is not None and j >= upto:
                break
            for p, fs in gens(s):
                cur.add(p)
        return frozenset(cur)
    work = [f.entry]
    OUT = {}
    while work:
        bid = work.pop()
        if IN[bid] is None:
            continue
        o = flow(bid)
        if OUT.get(bid) == o:
            continue
        OUT[bid] = o
        for t in f.blocks[bid].succ_ids():
            ps = [OUT[p] for p in preds.get(t, []) if p in OUT]
            new = frozenset.intersection(*ps) if ps else frozenset()
            if IN[t] is None or new != IN[t]:
                IN[t] = new if IN[t] is None else (IN[t] & new)
                work.append(t)
    rets = []
    for b, i, s in f.all_stmts():
        if s.get("k") == "ret" and "e" in s:
            e = ir.strip(s["e"])
            if isinstance(e, dict) and e.get("k") == "int":
                names = list(e.get("names") or [])
                if isinstance(e.get("e"), str):
                    names.append(e["e"])
                if any("Armed" in n_ for n_ in names) or (not names and e.get("v") not in (0, None)):
                    rets.append((b.id, i, s))
            elif isinstance(e, dict):
                rets.append((b.id, i, s))
    if not rets:
        raise AnalysisBroken("%s: no success return found" % f.name)

    def covered(m, have):
        return any(m == p or m.startswith(p + ".") or m.startswith(p + "->") for p in have)
    for m, where in sorted(M.items()):
        missing = []
        for bid, i, s in rets:
            if IN[bid] is None:
                continue
            have = flow(bid, i)
            if not covered(m, have):
                missing.append(s)
        inst = "%s: every successful set refreshes %s" % (f.name, m)
        if missing:
            res.fail(rule, inst, "%s|%s|stale|%s" % (rule, f.name.split("::")[-1], m.replace("this->", "").replace("self->", "")), where,
                     "%s assigns %s from the new settings only on some paths: a successful set can leave the value of the previous configuration in place, "
                     "and the next acquisition is written with it (file name / metadata / pixel scale of the earlier acquisition)" % (f.name, m))
        else:
            res.oblige(rule, inst, True, "assigned on every path to %d success return(s)" % len(rets), where)
    return len(M)
