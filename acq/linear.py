"""A linear-relations abstract interpreter for the ring-buffer arithmetic.

Abstract state: the symbolic value of every memory cell / local as a linear
form over symbols (the values cells had at function entry or after a havoc,
fresh symbols for opaque results), plus a conjunction of linear constraints
(branch conditions taken, data-structure invariants assumed for every fresh
cursor symbol).  The state space is a bounded powerset of such conjunctions:
branches whose condition is not decided by the state split it (trace
partitioning); identical states at a block are merged; loops are entered once
with everything the body may write havocked (invariant "true" plus the
assumed data-structure invariants), so no fixpoint iteration over numbers is
needed.  Entailment of an obligation by a state is decided by Fourier-Motzkin
elimination over the rationals, which is sound for "unsatisfiable" on integers
(strict comparisons are tightened by one first).

Small loop-free callees are analysed in the caller's state (parameters bound
to the argument forms, pointer parameters to the caller's cells)."""
from fractions import Fraction as Fr
from . import ir, paths

ONE = 1  # key of the constant term


def lconst(v):
    return {ONE: Fr(v)} if v else {}


def lvar(name):
    return {name: Fr(1)}


def ladd(a, b, sb=1):
    out = dict(a)
    for k, v in b.items():
        nv = out.get(k, 0) + sb * v
        if nv == 0:
            out.pop(k, None)
        else:
            out[k] = nv
    return out


def lsub(a, b):
    return ladd(a, b, -1)


def lscale(a, c):
    return {k: v * c for k, v in a.items()} if c else {}


def lkey(a):
    return tuple(sorted(((str(k), v) for k, v in a.items())))


def lshow(a):
    if not a:
        return "0"
    parts = []
    for k, v in sorted(a.items(), key=lambda kv: str(kv[0])):
        if k == ONE:
            parts.append(str(v))
        elif v == 1:
            parts.append(str(k))
        elif v == -1:
            parts.append("-" + str(k))
        else:
            parts.append("%s*%s" % (v, k))
    return " + ".join(parts).replace("+ -", "- ")


def is_const(a):
    return all(k == ONE for k in a)


# -- Fourier-Motzkin ---------------------------------------------------------
def unsat(cons, limit=4000):
    """cons: list of ("le", lin) [lin <= 0] / ("eq", lin) [lin == 0]."""
    ineq = []
    eqs = []
    for op, l in cons:
        (eqs if op == "eq" else ineq).append(dict(l))
    # Gaussian substitution of equalities
    while eqs:
        e = eqs.pop()
        vs = [k for k in e if k != ONE]
        if not vs:
            if e.get(ONE, 0) != 0:
                return True
            continue
        v = vs[0]
        c = e[v]
        # v = -(rest)/c
        rest = lscale({k: x for k, x in e.items() if k != v}, Fr(-1) / c)

        def sub(l):
            if v not in l:
                return l
            cv = l[v]
            l2 = {k: x for k, x in l.items() if k != v}
            return ladd(l2, lscale(rest, cv))
        eqs = [sub(x) for x in eqs]
        ineq = [sub(x) for x in ineq]
    work = []
    seen = set()
    for l in ineq:
        k = lkey(l)
        if k not in seen:
            seen.add(k)
            work.append(l)
    while True:
        nxt = []
        for l in work:
            if is_const(l):
                if l.get(ONE, 0) > 0:
                    return True
            else:
                nxt.append(l)
        work = nxt
        if not work:
            return False
        # pick the variable with the fewest pos*neg products
        vs = {}
        for l in work:
            for k, c in l.items():
                if k != ONE:
                    p, n = vs.get(k, (0, 0))
                    vs[k] = (p + (c > 0), n + (c < 0))
        v = min(vs, key=lambda k: vs[k][0] * vs[k][1])
        pos = [l for l in work if l.get(v, 0) > 0]
        neg = [l for l in work if l.get(v, 0) < 0]
        rest = [l for l in work if v not in l]
        seen = {lkey(l) for l in rest}
        for p in pos:
            for n in neg:
                c = ladd(lscale(p, Fr(1) / p[v]), lscale(n, Fr(-1) / n[v]))
                c.pop(v, None)
                k = lkey(c)
                if k not in seen:
                    seen.add(k)
                    rest.append(c)
        if len(rest) > limit:
            return False
        work = rest


# -- abstract state ----------------------------------------------------------
class State:
    __slots__ = ("cells", "cons", "ptr", "vals", "ver", "alias", "ne", "objptr", "tags")

    def __init__(self):
        self.cells = {}
        self.cons = []
        self.ptr = {}     # (func name, var id) -> cell key / key prefix a pointer stands for
        self.vals = {}    # (func name, block, ci) -> linear form of an evaluated root expression
        self.ver = {}     # base name -> number of symbols created for it (deterministic names)
        self.alias = {}   # "*p" cell key -> array prefix it aliases
        self.ne = []      # disequalities  lin != 0  (used only to prune, never split on)
        self.objptr = set()  # (func, var id) of pointers bound to an object's cell key (&obj): p->f is obj.f
        self.tags = {}    # ghost facts kept by rule-specific models (copied shallowly per key)

    def copy(self):
        s = State()
        s.cells = dict(self.cells)
        s.cons = list(self.cons)
        s.ptr = dict(self.ptr)
        s.vals = dict(self.vals)
        s.ver = dict(self.ver)
        s.alias = dict(self.alias)
        s.ne = list(self.ne)
        s.objptr = set(self.objptr)
        s.tags = {k: (dict(v) if isinstance(v, dict) else v) for k, v in self.tags.items()}
        return s

    def key(self):
        return (tuple(sorted((k, lkey(v)) for k, v in self.cells.items())),
                frozenset((op, lkey(l)) for op, l in self.cons),
                frozenset(lkey(l) for l in self.ne))

    def assume_le(self, l):      # l <= 0
        self.cons.append(("le", l))

    def assume_eq(self, l):
        self.cons.append(("eq", l))

    def feasible(self):
        if unsat(self.cons):
            return False
        for l in self.ne:
            if self.entails_eq(l):
                return False
        return True

    def tightened(self):
        """constraints plus, for every disequality l != 0 whose sign is known,
        the integer tightening l >= 1 / l <= -1"""
        extra = []
        for l in self.ne:
            if unsat(self.cons + [("le", ladd(l, lconst(1)))]):          # l <= -1 impossible: l >= 0
                extra.append(("le", ladd(lscale(l, -1), lconst(1))))      # so l >= 1
            elif unsat(self.cons + [("le", ladd(lscale(l, -1), lconst(1)))]):  # l >= 1 impossible
                extra.append(("le", ladd(l, lconst(1))))
        return self.cons + extra

    def entails_le(self, l):     # does the state entail l <= 0 (integers)?
        goal = [("le", ladd(lscale(l, -1), lconst(1)))]
        if unsat(self.cons + goal):
            return True
        return bool(self.ne) and unsat(self.tightened() + goal)

    def entails_eq(self, l):
        return self.entails_le(l) and self.entails_le(lscale(l, -1))


class Analysis:
    """One run over an entry function.  `invariant(key)` returns constraints to
    assume for a fresh symbol standing for cell `key` (as functions of the
    symbol); `on_store(fn, stmt, key, value, state)` and `on_sub(...)` are
    callbacks for obligations; returns are collected."""

    def __init__(self, prog, invariant=None, on_store=None, on_sub=None, max_states=4000,
                 on_loop_pre=None, on_loop_entry=None, on_backedge=None):
        self.models = {}   # external function name -> model(an, f, call, state) -> [(value, state)]
        self.inline = True  # analyse same-file loop-free callees in the caller's state
        self.model_narrowing = False  # True: a narrowing integer cast yields an unknown unless the value provably fits
        self.inline_also = set()  # names of loop-free callees of other files to analyse in the caller's state too
        self.on_index = None  # on_index(f, idx node, base key, index form, state)
        self.param_alias = {}  # record name -> canonical name for pointer parameters of that record type
        self.on_loop_pre = on_loop_pre
        self.on_loop_entry = on_loop_entry
        self.on_backedge = on_backedge
        self.on_loop_exit = None   # on_loop_exit(f, head, state): state leaves the loop through the head's exit edge
        self.prog = prog
        self.invariant = invariant
        self.on_store = on_store
        self.on_sub = on_sub
        self.max_states = max_states
        self.nstates = 0
        self.truncated = False
        self.blocks_visited = set()

    # -- cells ---------------------------------------------------------------
    def fresh(self, st, base, unsigned=True, key=None):
        v = st.ver.get(base, 0)
        st.ver[base] = v + 1
        name = "%s#%d" % (base, v)
        if unsigned:
            st.assume_le(lscale(lvar(name), -1))
        if key is not None and self.invariant is not None:
            for op, l in self.invariant(key, name, st, self):
                st.cons.append((op, l))
        return lvar(name)

    def read(self, st, key, unsigned=True):
        if key not in st.cells:
            st.cells[key] = {}   # placeholder against recursion through invariant()
            st.cells[key] = self.fresh(st, key, unsigned, key)
        return st.cells[key]

    def write(self, st, key, val):
        st.cells[key] = val
        # array elements / pointer aliases into the same array are forgotten,
        # unless the state proves that the two indices differ
        pre = key.split("[")[0] if "[" in key else st.alias.get(key)
        if pre:
            idx = st.tags.get("idx", {})
            mine = idx.get(key)
            for k in list(st.cells):
                if k != key and (k.startswith(pre + "[") or st.alias.get(k) == pre):
                    other = idx.get(k)
                    if mine is not None and other is not None:
                        d = lsub(mine, other)
                        if is_const(d):
                            if d.get(ONE, 0) != 0:
                                continue
                        elif st.entails_le(ladd(d, lconst(1))) or st.entails_le(ladd(lscale(d, -1), lconst(1))):
                            continue
                    del st.cells[k]

    def note_index(self, st, key, form):
        st.tags.setdefault("idx", {})[key] = form

    def cellkey(self, f, e, st):
        e = ir.strip(e)
        if not isinstance(e, dict):
            return None
        k = e.get("k")
        if k == "paren":
            return self.cellkey(f, e["e"], st)
        if k == "gvar":
            return "::%s" % e.get("n")
        if k == "this":
            return "this"
        if k == "var":
            b = st.ptr.get((f.name, e["id"]))
            if b is not None and not e.get("pd"):
                return b
            return "%s:%s" % (f.name, e["n"])
        if k == "mem":
            if e.get("arrow"):
                base = ir.strip(e["b"])
                if isinstance(base, dict) and base.get("k") == "var":
                    p = st.ptr.get((f.name, base["id"]), self.pname(base))
                    if (f.name, base["id"]) in st.objptr:
                        return "%s.%s" % (p, e["f"])
                    return "%s->%s" % (p, e["f"])
                if isinstance(base, dict) and base.get("k") == "this":
                    return "this->%s" % e["f"]
                bk = self.cellkey(f, base, st)
                return None if bk is None else "(%s)->%s" % (bk, e["f"])
            bk = self.cellkey(f, e["b"], st)
            return None if bk is None else "%s.%s" % (bk, e["f"])
        if k == "deref":
            inner = ir.strip(e["e"])
            if isinstance(inner, dict) and inner.get("k") == "var":
                b = st.ptr.get((f.name, inner["id"]))
                if b is not None:
                    return b
                return "*%s:%s" % (f.name, inner["n"])
            return None
        if k == "idx":
            bk = self.cellkey(f, e["b"], st)
            if bk is None:
                return None
            vals = self.eval(f, e["i"], st)
            if len(vals) == 1:
                if self.on_index is not None:
                    self.on_index(f, e, bk, vals[0][0], st)
                key = "%s[%s]" % (bk, lshow(vals[0][0]))
                self.note_index(st, key, vals[0][0])
                return key
            return "%s[?]" % bk
        return None

    def pname(self, v):
        """name under which a pointer variable's pointee is keyed: parameters
        of the aliased record types get a canonical name, so that renaming a
        parameter does not change cell keys"""
        if "p" in v and v.get("r") in self.param_alias:
            return self.param_alias[v["r"]]
        return v["n"]

    def ptr_target(self, f, e, st):
        """cell key a pointer expression points to:  &lvalue,  array + i - 1"""
        e = ir.strip(e)
        if not isinstance(e, dict):
            return None
        if e.get("k") == "paren":
            return self.ptr_target(f, e["e"], st)
        if e.get("k") == "addr":
            return self.cellkey(f, e["e"], st)
        if e.get("k") == "var" and e.get("pd"):
            return st.ptr.get((f.name, e["id"]))
        off = {}
        while isinstance(e, dict) and e.get("k") == "bin" and e.get("pd") and e.get("op") in ("+", "-"):
            vals = self.eval(f, e["r"], st)
            if len(vals) != 1:
                return None
            off = ladd(off, vals[0][0], 1 if e["op"] == "+" else -1)
            e = ir.strip(e["l"])
        if isinstance(e, dict) and e.get("k") == "mem" and not is_const(off) or (isinstance(e, dict) and e.get("k") == "mem" and off):
            bk = self.cellkey(f, e, st)
            if bk:
                key = "%s[%s]" % (bk, lshow(off))
                self.note_index(st, key, off)
                return key
        return None

    # -- expressions: list of (linear form, state) --------------------------------
    def eval(self, f, e, st):
        # a narrowing integer conversion keeps the value only where the state proves that it fits
        n0 = e
        while isinstance(n0, dict) and n0.get("k") == "cast" and not n0.get("narrow"):
            n0 = n0["e"]
        if isinstance(n0, dict) and n0.get("k") == "cast" and n0.get("narrow") and self.model_narrowing:
            bits = int(n0.get("bits", 64))
            out = []
            for v, s1 in self.eval(f, n0["e"], st):
                if n0.get("uns"):
                    lo, hi = 0, 2 ** bits - 1
                else:
                    lo, hi = -(2 ** (bits - 1)), 2 ** (bits - 1) - 1
                if s1.entails_le(lsub(v, lconst(hi))) and s1.entails_le(lsub(lconst(lo), v)):
                    out.append((v, s1))
                else:
                    r = self.fresh(s1, "narrow%d" % bits, False)
                    s1.cons.append(("le", lsub(r, lconst(hi))))
                    s1.cons.append(("le", lsub(lconst(lo), r)))
                    out.append((r, s1))
            return out
        e = ir.strip(e)
        if not isinstance(e, dict):
            return [(self.fresh(st, "?", False), st)]
        k = e.get("k")
        if k == "int":
            return [(lconst(e.get("v", 0)), st)]
        if k == "str":
            v = self.fresh(st, "strlit", False)   # the address of a string literal: some non-null pointer
            st.ne.append(v)
            return [(v, st)]
        if k == "paren":
            return self.eval(f, e["e"], st)
        if k in ("var", "gvar", "mem", "deref", "idx"):
            if e.get("pd"):
                if k == "var":
                    key = "%s:%s" % (f.name, e["n"])
                    if key not in st.cells:
                        st.cells[key] = self.fresh(st, "ptr:%s" % key, False)
                    return [(st.cells[key], st)]
                key = self.cellkey(f, e, st)
                if key is None:
                    return [(lvar("ptr:" + ir.render(e)), st)]
                if key not in st.cells:
                    st.cells[key] = lvar("ptr:" + key)
                return [(st.cells[key], st)]
            key = self.cellkey(f, e, st)
            if key is None:
                return [(self.fresh(st, "?", False), st)]
            t = e.get("t", "")
            uns = "unsigned" in t or "size_t" in t or "uint" in t or t.startswith("enum ")
            return [(self.read(st, key, uns), st)]
        if k == "ref":
            v = st.vals.get((f.name, e.get("b"), e.get("i")))
            if v is not None:
                return [(v, st)]
            tgt = f.resolve_ref(e)
            if tgt is None:
                return [(self.fresh(st, "?", False), st)]
            return self.eval(f, tgt, st)
        if k == "asg":
            return self.assign(f, e, st)
        if k == "decl":
            if "init" in e:
                return self.assign(f, {"k": "asg", "op": "=", "l": e["var"], "r": e["init"]}, st)
            return [(lconst(0), st)]
        if k == "un":
            if e["op"] == "!":
                out = []
                t, fl = self.branch(f, e["e"], st)
                out += [(lconst(0), s) for s in t]
                out += [(lconst(1), s) for s in fl]
                return out
            if e["op"] == "-":
                return [(lscale(v, -1), s) for v, s in self.eval(f, e["e"], st)]
            return [(self.fresh(st, "?", False), st)]
        if k == "bin":
            op = e["op"]
            if op == ",":
                out = []
                for _, s1 in self.eval(f, e["l"], st):
                    out += self.eval(f, e["r"], s1)
                return out
            if op in ("<", "<=", ">", ">=", "==", "!=", "&&", "||"):
                t, fl = self.branch(f, e, st)
                return [(lconst(1), s) for s in t] + [(lconst(0), s) for s in fl]
            if op in ("+", "-", "*") and not e.get("pd"):
                out = []
                for a, s1 in self.eval(f, e["l"], st):
                    for b, s2 in self.eval(f, e["r"], s1):
                        if op == "+":
                            out.append((ladd(a, b), s2))
                        elif op == "-":
                            t = e.get("t", "") + " " + " ".join((ir.strip(x) or {}).get("t", "") if isinstance(ir.strip(x), dict) else "" for x in (e["l"], e["r"]))
                            if self.on_sub is not None and ("unsigned" in t or "size_t" in t):
                                self.on_sub(f, e, a, b, s2)
                            out.append((lsub(a, b), s2))
                        elif is_const(a):
                            out.append((lscale(b, a.get(ONE, 0)), s2))
                        elif is_const(b):
                            out.append((lscale(a, b.get(ONE, 0)), s2))
                        else:
                            out.append((self.fresh(s2, "?", False), s2))
                return out
            if op in (">>", "<<", "/", "%", "&", "|") and not e.get("pd"):
                # constant folding / multiplication by a power of two; anything else is unknown
                out = []
                for a, s1 in self.eval(f, e["l"], st):
                    for b, s2 in self.eval(f, e["r"], s1):
                        if is_const(a) and is_const(b) and a.get(ONE, 0).denominator == 1 and b.get(ONE, 0).denominator == 1:
                            x, y = int(a.get(ONE, 0)), int(b.get(ONE, 0))
                            try:
                                v = {">>": lambda: x >> y, "<<": lambda: x << y, "/": lambda: int(x / y) if y else None,
                                     "%": lambda: (x - y * int(x / y)) if y else None, "&": lambda: x & y, "|": lambda: x | y}[op]()
                            except (ValueError, OverflowError):
                                v = None
                            if v is not None and (op not in (">>", "<<") or (x >= 0 and 0 <= y < 63)):
                                out.append((lconst(v), s2))
                                continue
                        if op == "<<" and is_const(b) and 0 <= b.get(ONE, 0) < 63 and b.get(ONE, 0).denominator == 1:
                            out.append((lscale(a, 2 ** int(b.get(ONE, 0))), s2))
                            continue
                        out.append((self.fresh(s2, "?", False), s2))
                return out
            if op in ("+", "-") and e.get("pd"):
                # pointer +/- offset, in elements
                out = []
                for a, s1 in self.eval(f, e["l"], st):
                    for b, s2 in self.eval(f, e["r"], s1):
                        out.append((ladd(a, b, 1 if op == "+" else -1), s2))
                return out
            return [(self.fresh(st, "?", False), st)]
        if k == "comma":
            out = []
            for _, s1 in self.eval(f, e["l"], st):
                out += self.eval(f, e["r"], s1)
            return out
        if k == "cond":
            out = []
            t, fl = self.branch(f, e["c"], st)
            for s in t:
                out += self.eval(f, e["t"], s)
            for s in fl:
                out += self.eval(f, e["f"], s)
            return out
        if k == "call":
            return self.call(f, e, st)
        return [(self.fresh(st, "?", False), st)]

    def assign(self, f, e, st):
        op = e["op"]
        lv = e["l"]
        out = []
        if op in ("++", "--"):
            rhs = [(lconst(1 if op == "++" else -1), st)]
        else:
            rhs = self.eval(f, e["r"], st)
        for val, s in rhs:
            lvs = ir.strip(lv)
            # a local pointer: remember which cell it points to
            if isinstance(lvs, dict) and lvs.get("k") == "var" and lvs.get("pd"):
                if op == "=" and isinstance(e.get("r"), dict):
                    tgt = self.ptr_target(f, e["r"], s)
                    if tgt is not None:
                        s.ptr[(f.name, lvs["id"])] = tgt
                        s.objptr.add((f.name, lvs["id"]))
                    else:
                        s.ptr.pop((f.name, lvs["id"]), None)
                        s.objptr.discard((f.name, lvs["id"]))
                    s.cells["%s:%s" % (f.name, lvs["n"])] = val
                elif op in ("+=", "-=", "++", "--"):
                    curv = self.eval(f, lvs, s)[0][0]
                    val = ladd(curv, val, -1 if op == "-=" else 1)
                    s.cells["%s:%s" % (f.name, lvs["n"])] = val
                    s.ptr.pop((f.name, lvs["id"]), None)
                out.append((val, s))
                continue
            key = self.cellkey(f, lv, s)
            if key is None:
                out.append((val, s))
                continue
            r0 = ir.strip(e.get("r")) if isinstance(e.get("r"), dict) else None
            if op == "=" and isinstance(r0, dict) and r0.get("k") == "init" and all("f" in el for el in r0.get("elts", [])):
                # aggregate initialisation of a record: field by field
                for el in r0["elts"]:
                    vs = self.eval(f, el["v"], s)
                    if len(vs) == 1:
                        self.write(s, "%s.%s" % (key, el["f"]), vs[0][0])
                out.append((val, s))
                continue
            if op == "=":
                new = val
            elif op in ("+=", "++"):
                new = ladd(self.read(s, key), val)
            elif op in ("-=", "--"):
                new = lsub(self.read(s, key), val) if op == "-=" else ladd(self.read(s, key), val)
            else:
                new = self.fresh(s, "?", False)
            if self.on_store is not None:
                self.on_store(f, e, key, new, s)
            self.write(s, key, new)
            out.append((new, s))
        return out

    def call(self, f, e, st):
        fn = e.get("fn") or ""
        g = self.prog.resolve(fn, f) if fn else None
        if self.inline and g is not None and g is not f and g.blocks and (g.file == f.file or fn in self.inline_also) and not paths.natural_loops(g) and len(g.blocks) <= 40:
            # evaluate arguments left to right, then run the callee here
            states = [([], st)]
            for a in e.get("args", []):
                nxt = []
                for vals, s in states:
                    a0 = ir.strip(a)
                    if isinstance(a0, dict) and a0.get("k") == "addr":
                        nxt.append((vals + [("addr", self.cellkey(f, a0["e"], s))], s))
                    elif isinstance(a0, dict) and a0.get("k") == "var" and a0.get("pd"):
                        nxt.append((vals + [("ptr", s.ptr.get((f.name, a0["id"]), self.pname(a0)))], s))
                    else:
                        for v, s2 in self.eval(f, a, s):
                            nxt.append((vals + [("val", v)], s2))
                states = nxt
            out = []
            for vals, s in states:
                for k_, p in enumerate(g.params):
                    if k_ >= len(vals):
                        break
                    kind, v = vals[k_]
                    if kind in ("addr", "ptr") and v is not None:
                        s.ptr[(g.name, p["id"])] = v
                        if kind == "addr":
                            s.objptr.add((g.name, p["id"]))
                    elif kind == "val":
                        s.cells["%s:%s" % (g.name, p["n"])] = v
                for rv, s2 in self.run(g, s):
                    out.append((rv if rv is not None else lconst(0), s2))
            return out
        if fn in self.models:
            return self.models[fn](self, f, e, st)
        if "wait" in fn:
            for k in list(st.cells):
                if "->" in k or k.startswith("*"):
                    del st.cells[k]
        t = e.get("t", "")
        return [(self.fresh(st, "call:" + (fn or "?"), "unsigned" in t or "size_t" in t or "uint" in t), st)]

    # -- conditions -----------------------------------------------------------------
    def branch(self, f, e, st):
        """(states where e is true, states where e is false)"""
        e = ir.strip(e)
        if isinstance(e, dict) and e.get("k") == "paren":
            return self.branch(f, e["e"], st)
        if isinstance(e, dict) and e.get("k") == "un" and e.get("op") == "!":
            t, fl = self.branch(f, e["e"], st)
            return fl, t
        if isinstance(e, dict) and e.get("k") == "bin" and e["op"] in ("&&", "||"):
            lt_, lf_ = self.branch(f, e["l"], st)
            T, F = [], []
            if e["op"] == "&&":
                F += lf_
                for s1 in lt_:
                    t2, f2 = self.branch(f, e["r"], s1)
                    T += t2
                    F += f2
            else:
                T += lt_
                for s1 in lf_:
                    t2, f2 = self.branch(f, e["r"], s1)
                    T += t2
                    F += f2
            return T, F
        if isinstance(e, dict) and e.get("k") == "bin" and e["op"] in ("<", "<=", ">", ">=", "==", "!="):
            T, F = [], []
            for a, s1 in self.eval(f, e["l"], st):
                for b, s2 in self.eval(f, e["r"], s1):
                    d = lsub(a, b)   # a - b
                    op = e["op"]

                    def add(dst, s, cons):
                        s3 = s.copy()
                        for c in cons:
                            s3.cons.append(c)
                        if s3.feasible():
                            dst.append(s3)
                    def addne(dst, s, l):
                        s3 = s.copy()
                        if is_const(l):
                            if l.get(ONE, 0) != 0:
                                dst.append(s3)
                            return
                        s3.ne.append(l)
                        if s3.feasible():
                            dst.append(s3)
                    lt = [("le", ladd(d, lconst(1)))]        # a < b
                    le = [("le", d)]                         # a <= b
                    gt = [("le", ladd(lscale(d, -1), lconst(1)))]
                    ge = [("le", lscale(d, -1))]
                    eq = [("eq", d)]
                    if op == "<":
                        add(T, s2, lt); add(F, s2, ge)
                    elif op == "<=":
                        add(T, s2, le); add(F, s2, gt)
                    elif op == ">":
                        add(T, s2, gt); add(F, s2, le)
                    elif op == ">=":
                        add(T, s2, ge); add(F, s2, lt)
                    elif op == "==":
                        add(T, s2, eq); addne(F, s2, d)
                    else:
                        add(F, s2, eq); addne(T, s2, d)
            return T, F
        T, F = [], []
        for v, s in self.eval(f, e, st):
            if is_const(v):
                (T if v.get(ONE, 0) != 0 else F).append(s)
                continue
            s3 = s.copy()
            s3.cons.append(("eq", v))
            if s3.feasible():
                F.append(s3)
            s3 = s.copy()
            s3.ne.append(v)
            if s3.feasible():
                T.append(s3)
        return T, F

    # -- control flow ---------------------------------------------------------------
    def run(self, f, st, on_return=None):
        """All (return value or None, state) pairs of f started in st."""
        loops = paths.natural_loops(f)
        heads = {h: body for h, body in loops}
        results = []
        seen = {}
        work = [(f.entry, st, None)]
        while work:
            bid, s, frm = work.pop()
            self.nstates += 1
            if self.nstates > self.max_states:
                self.truncated = True
                break
            blk = f.blocks[bid]
            self.blocks_visited.add((f.name, bid))
            if bid in heads and frm != "__seeded__":
                if frm is not None and frm in heads[bid]:
                    if self.on_backedge is not None:
                        self.on_backedge(f, bid, s)
                    continue  # back edge: the loop was entered with its writes havocked
                s = s.copy()
                if self.on_loop_pre is not None:
                    self.on_loop_pre(f, bid, s)
                self.havoc(f, heads[bid], s)
                if self.on_loop_entry is not None:
                    r_ = self.on_loop_entry(f, bid, s)
                    if isinstance(r_, list):
                        # the hook re-established a disjunctive invariant: one entry state per disjunct
                        for s_ in r_:
                            work.append((bid, s_, "__seeded__"))
                        continue
            k = (bid, s.key())
            if k in seen:
                continue
            seen[k] = True
            states = [s]
            retd = False
            cond_states = None
            for i, stmt in enumerate(blk.stmts):
                nxt = []
                is_cond = blk.cond is not None and i == blk.cond and len(blk.succs) == 2
                for s1 in states:
                    if stmt.get("k") == "ret":
                        if "e" in stmt:
                            for v, s2 in self.eval(f, stmt["e"], s1):
                                results.append((v, s2))
                        else:
                            results.append((None, s1))
                        retd = True
                        continue
                    if is_cond:
                        t, fl = self.branch(f, stmt, s1)
                        cond_states = cond_states or ([], [])
                        cond_states[0].extend(t)
                        cond_states[1].extend(fl)
                        continue
                    for v, s2 in self.eval(f, stmt, s1):
                        if "ci" in stmt:
                            s2.vals[(f.name, bid, stmt["ci"])] = v
                        nxt.append(s2)
                if retd:
                    break
                states = nxt
            if retd:
                continue
            if blk.term == "switch" and not retd:
                c = blk.cond_node()
                for s1 in states:
                    for v, s2 in (self.eval(f, c, s1) if c is not None else []):
                        cases = [sc for sc in blk.succs if isinstance(sc.get("case"), dict) and sc.get("to") is not None]
                        for sc in cases:
                            s3 = s2.copy()
                            s3.cons.append(("eq", lsub(v, lconst(sc["case"].get("v", 0)))))
                            if s3.feasible():
                                work.append((sc["to"], s3, bid))
                        for sc in blk.succs:
                            if not isinstance(sc.get("case"), dict) and sc.get("to") is not None:
                                s3 = s2.copy()
                                for cc in cases:
                                    s3.ne.append(lsub(v, lconst(cc["case"].get("v", 0))))
                                if s3.feasible():
                                    work.append((sc["to"], s3, bid))
                continue
            if cond_states is None and blk.cond_expr is not None and len(blk.succs) == 2:
                cond_states = ([], [])
                for s1 in states:
                    t, fl = self.branch(f, blk.cond_expr, s1)
                    cond_states[0].extend(t)
                    cond_states[1].extend(fl)
            if cond_states is not None:
                for sc in blk.succs:
                    if sc.get("to") is None:
                        continue
                    for s1 in (cond_states[0] if sc.get("label") == "true" else cond_states[1]):
                        s1 = s1.copy()
                        if self.on_loop_exit is not None and bid in heads and sc["to"] not in heads[bid]:
                            self.on_loop_exit(f, bid, s1)
                        work.append((sc["to"], s1, bid))
            else:
                for sc in blk.succs:
                    if sc.get("to") is None:
                        continue
                    if sc["to"] == f.exit and not f.blocks[f.exit].stmts:
                        for s1 in states:
                            results.append((None, s1))
                        continue
                    for s1 in states:
                        work.append((sc["to"], s1.copy() if len(blk.succs) > 1 else s1, bid))
        return results

    def havoc(self, f, body, st):
        everything = False
        keys = set()
        for b in body:
            for s in f.blocks[b].stmts:
                for lv, op, rhs, w in ir.writes_of(s):
                    k = self.cellkey(f, lv, st) if ir.strip(lv).get("k") != "idx" else None
                    if k:
                        keys.add(k)
                    elif ir.strip(lv).get("k") == "idx":
                        bk = self.cellkey(f, ir.strip(lv)["b"], st)
                        if bk:
                            keys.add(bk + "[")
                for c in ir.calls_in(s):
                    fn = c.get("fn") or ""
                    if "wait" in fn:
                        everything = True
                    for a in c.get("args", []):
                        a0 = ir.strip(a)
                        if isinstance(a0, dict) and a0.get("k") == "addr":
                            k = self.cellkey(f, a0["e"], st)
                            if k:
                                keys.add(k)
        for k in list(st.cells):
            if (everything and ("->" in k or k.startswith("*"))) or k in keys or any(k.startswith(p) for p in keys if p.endswith("[")):
                del st.cells[k]
        st.vals = {kk: v for kk, v in st.vals.items() if not (kk[0] == f.name and kk[1] in body)}


def counted_loop_problems(prog, f, head, body, bound_of, start=0, model=None):
    """Is the natural loop (head, body) of f the canonical  for (i = start; i <
    N; ++i)?  Decided on abstract states: before the loop i == start; at every
    back edge i advanced by one from a value below N; N = bound_of(analysis,
    state).  Returns a list of problems (empty = canonical)."""
    rec = {"pre": [], "back": []}
    an = Analysis(prog)
    an.inline = False
    if model:
        an.models.update(model)
    ivs = {an.cellkey(f, lv, State()) for b in body for s in f.blocks[b].stmts for lv, op, rhs, w in ir.writes_of(s)
           if ir.strip(lv).get("k") == "var" and not ir.strip(lv).get("pd")}
    # the index: the variable the loop condition reads
    c = f.blocks[head].cond_node()
    cvars = {an.cellkey(f, y, State()) for y in ir.walk(c) if isinstance(y, dict) and y.get("k") == "var"} if c is not None else set()
    ivs = [k for k in ivs if k in cvars] or list(ivs)
    if len(ivs) != 1:
        return ["no single index variable"]
    iv = ivs[0]

    def entry(f_, h, s):
        if f_ is f and h == head:
            node = [y for b in body for st_ in f.blocks[b].stmts for y in ir.walk(st_)
                    if isinstance(y, dict) and y.get("k") == "var" and an.cellkey(f, y, s) == iv]
            if node:
                s.cells["__i0__"] = an.eval(f, node[0], s)[0][0]
    an.on_loop_pre = lambda f_, h, s: rec["pre"].append(s.copy()) if (f_ is f and h == head) else None
    an.on_loop_entry = entry
    an.on_backedge = lambda f_, h, s: rec["back"].append(s.copy()) if (f_ is f and h == head) else None
    an.run(f, State())
    out = []
    if not rec["pre"] or not rec["back"]:
        return ["the loop body is never executed by the analysis"]
    for s in rec["pre"]:
        if iv not in s.cells or not s.entails_eq(lsub(s.cells[iv], lconst(start))):
            out.append("the index does not start at %d" % start)
    for s in rec["back"]:
        i0 = s.cells.get("__i0__")
        n = bound_of(an, s)
        if i0 is None or n is None:
            out.append("index / bound not found")
            continue
        if not s.entails_eq(lsub(s.cells.get(iv, {}), ladd(i0, lconst(1)))):
            out.append("the index does not advance by one")
        if not s.entails_le(ladd(lsub(i0, n), lconst(1))):
            out.append("the body runs for an index that is not below the element count")
    return sorted(set(out))
