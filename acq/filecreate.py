"""R-CREATE: file_create (linux/platform.c), the one place where the storage
devices obtain a descriptor.

TRUNC       every path to a successful return has emptied the file (open with
            O_TRUNC, or ftruncate(fd, 0)): the file an acquisition leaves behind
            consists of what that acquisition wrote, not of the tail of an
            earlier, longer file at the same path (C14, C15).
LOCK-FIRST  nothing destructive happens before the exclusive lock is held: no
            O_TRUNC in the open flags, every ftruncate only on the success edge
            of flock - a create that is refused because another writer holds the
            file must not have emptied that writer's file (C14, C16).
FD-ONCE     typestate of the descriptor over every path of the function: after a
            successful open the descriptor is closed exactly once on every path
            that reports failure and never on a path that reports success; it is
            never closed when open failed (C16: "closes each descriptor exactly
            once", also across the caller's error handling, which sees only the
            return value).
Paths are enumerated (the function is loop-free); the OS contract "a failing
call comes with errno != 0" prunes the zero side of tests of errno (also when it
was saved in a local first)."""
from . import ir, paths
from .build import AnalysisBroken

RULE = "R-CREATE"
O_TRUNC = 0o1000


def _calls(s, name):
    return [c for c in ir.calls_in(s) if c.get("fn") == name]


_FID_LOCALS = set()     # ids of locals that hold a copy of file->fid (set per function by rule_file_create)


def _is_fid(n):
    n = ir.strip(n)
    if isinstance(n, dict) and n.get("k") == "var" and n.get("id") in _FID_LOCALS:
        return True
    return isinstance(n, dict) and n.get("k") == "mem" and n.get("f") == "fid"


def _errno_locals(f):
    out = set()
    for b, i, s in f.all_stmts():
        if s.get("k") == "decl" and "init" in s and any(c.get("fn") == "__errno_location" for c in ir.calls_in(s["init"])):
            out.add(s["var"]["n"])
        for lv, op, rhs, w in ir.writes_of(s):
            if lv.get("k") == "var" and isinstance(rhs, dict) and any(c.get("fn") == "__errno_location" for c in ir.calls_in(rhs)):
                out.add(lv["n"])
    return out


def _nonzero_label(cond):
    """label of the edge on which the tested quantity is non-zero, for the forms
    x, !x, x != 0, x == 0, (v = x != 0)"""
    n = ir.strip(cond)
    neg = False
    while isinstance(n, dict) and n.get("k") == "un" and n.get("op") == "!":
        neg = not neg
        n = ir.strip(n["e"])
    if isinstance(n, dict) and n.get("k") == "asg":
        n = ir.strip(n.get("r"))
    nz_true = True
    if isinstance(n, dict) and n.get("k") == "bin" and n.get("op") in ("==", "!="):
        nz_true = n["op"] == "!="
    if neg:
        nz_true = not nz_true
    return "true" if nz_true else "false"


def _neg_test(cond, what):
    """(is this `what(x) < 0`-like test?, label of the failure edge)"""
    n = ir.strip(cond)
    neg = False
    while isinstance(n, dict) and n.get("k") == "un" and n.get("op") == "!":
        neg = not neg
        n = ir.strip(n["e"])
    if not (isinstance(n, dict) and n.get("k") == "bin" and n.get("op") in ("<", ">=", "==", "!=", "<=", ">")):
        return False, None
    l, r = ir.strip(n["l"]), ir.strip(n["r"])
    if not what(l) and what(r):
        return False, None   # constant on the left: not an idiom of this code base
    if not what(l):
        return False, None
    op = n["op"]
    if op == "<" and ir.is_const(r, 0):
        fail_true = True
    elif op == ">=" and ir.is_const(r, 0):
        fail_true = False
    elif op == "==" and isinstance(r, dict) and r.get("k") == "int" and r.get("v") == -1:
        fail_true = True
    elif op == "!=" and isinstance(r, dict) and r.get("k") == "int" and r.get("v") == -1:
        fail_true = False
    elif op == "!=" and ir.is_const(r, 0):
        fail_true = True
    elif op == "==" and ir.is_const(r, 0):
        fail_true = False
    else:
        return False, None
    if neg:
        fail_true = not fail_true
    return True, ("true" if fail_true else "false")


def rule_file_create(prog, res, clauses=("TRUNC", "LOCK-FIRST", "FD-ONCE")):
    cands = [f for f in prog.all_funcs() if f.name == "file_create" and f.blocks]
    if not cands:
        raise AnalysisBroken("file_create not found")
    f = cands[0]
    res.touched(f)
    if paths.natural_loops(f):
        raise AnalysisBroken("file_create has a loop: the path enumeration of R-CREATE does not apply")
    errno_vars = _errno_locals(f)
    # locals that are single-assignment copies of the descriptor field ( const int fid = file->fid; )
    _FID_LOCALS.clear()
    from . import congr
    defs = congr.single_defs(f)
    for vid, d in defs.items():
        d0 = ir.strip(d)
        if isinstance(d0, dict) and d0.get("k") == "mem" and d0.get("f") == "fid":
            _FID_LOCALS.add(vid)
    flock_vars = set()
    for b, i, s in f.all_stmts():
        if s.get("k") == "decl" and "init" in s and _calls(s["init"], "flock"):
            flock_vars.add(s["var"]["n"])
        for lv, op, rhs, w in ir.writes_of(s):
            if lv.get("k") == "var" and isinstance(rhs, dict) and _calls(rhs, "flock"):
                flock_vars.add(lv["n"])

    def is_errno(n):
        n = ir.strip(n)
        if isinstance(n, dict) and n.get("k") == "var" and n.get("n") in errno_vars:
            return True
        return isinstance(n, dict) and any(c.get("fn") == "__errno_location" for c in ir.calls_in(n))

    def is_sys(n):
        n = ir.strip(n)
        return isinstance(n, dict) and n.get("k") == "call" and n.get("fn") in ("ftruncate", "fsync", "fstat", "fcntl", "lseek")

    def is_flock(n):
        n = ir.strip(n)
        if isinstance(n, dict) and n.get("k") == "var" and n.get("n") in flock_vars:
            return True
        return isinstance(n, dict) and n.get("k") == "call" and n.get("fn") == "flock"

    # -- path enumeration ---------------------------------------------------
    opens = [(b.id, i) for b, i, s in f.all_stmts() if _calls(s, "open")]
    if not opens:
        raise AnalysisBroken("file_create no longer calls open()")
    results = []   # dicts per path
    limit = [0]

    def walk(bid, st, path):
        limit[0] += 1
        if limit[0] > 20000:
            raise AnalysisBroken("file_create: too many paths")
        blk = f.blocks[bid]
        st = dict(st)
        for j, s in enumerate(blk.stmts):
            for c in _calls(s, "open"):
                st["opened"] = True
                fl = ir.strip(c["args"][1]) if len(c["args"]) > 1 else None
                st["flags"] = fl.get("v") if isinstance(fl, dict) and fl.get("k") == "int" else None
                if st["flags"] is not None and st["flags"] & O_TRUNC:
                    st["trunc"] = True
                    st["trunc_before_lock"] = True
            for c in _calls(s, "flock"):
                st["flock_called"] = True
            for c in _calls(s, "ftruncate"):
                if c["args"] and _is_fid(c["args"][0]):
                    st["trunc"] = True
                    if not st.get("locked"):
                        st["trunc_before_lock"] = True
            for c in _calls(s, "close"):
                if c["args"] and _is_fid(c["args"][0]):
                    st["closes"] = st.get("closes", 0) + 1
                    st["close_lines"] = list(st.get("close_lines", [])) + [s.get("line")]
            for lv, op, rhs, w in ir.writes_of(s):
                if _is_fid(lv) and op == "=" and not _calls(s, "open"):
                    r0 = ir.strip(rhs) if isinstance(rhs, dict) else None
                    if _is_fid(r0):
                        continue    # a copy of the descriptor: the sign known for one holds for the other
                    if isinstance(r0, dict) and r0.get("k") == "un" and r0.get("op") == "-":
                        st["fid_sign"] = "neg"
                    elif isinstance(r0, dict) and r0.get("k") == "int":
                        st["fid_sign"] = "neg" if r0.get("v", 0) < 0 else "nonneg"
                    else:
                        st["fid_sign"] = None
            if s.get("k") == "ret":
                v = ir.strip(s.get("e")) if "e" in s else None
                st["ret"] = v.get("v") if isinstance(v, dict) and v.get("k") == "int" else "?"
                st["ret_line"] = s.get("line")
                results.append((st, path))
                return
        succs = [su for su in blk.succs if su.get("to") is not None]
        if not succs:
            results.append((st, path))
            return
        c = blk.cond_node() if len(blk.succs) == 2 else None
        for su in succs:
            st2 = dict(st)
            if c is not None and su.get("label") in ("true", "false"):
                # open failed?
                isneg, fl = _neg_test(c, _is_fid)
                if isneg:
                    known = st.get("fid_sign")
                    if known == "neg" and su["label"] != fl:
                        continue      # the descriptor field is known to be negative here
                    if known == "nonneg" and su["label"] == fl:
                        continue
                    if su["label"] == fl:
                        if not st.get("fid_tested"):
                            st2["opened"] = False
                            st2["failed_call"] = True
                        st2["fid_sign"] = "neg"
                    else:
                        st2["fid_sign"] = "nonneg"
                    st2["fid_tested"] = True
                isneg, fl = _neg_test(c, is_sys)
                if isneg and su["label"] == fl:
                    st2["failed_call"] = True
                    if _calls(c, "ftruncate"):
                        st2["trunc_failed"] = True
                # errno compared with EINVAL (22): for ftruncate(fd, 0) that is "not a regular file" - nothing to empty
                c0 = ir.strip(c)
                if isinstance(c0, dict) and c0.get("k") == "bin" and c0.get("op") in ("==", "!=") and \
                        ((is_errno(c0["l"]) and ir.is_const(c0["r"], 22)) or (is_errno(c0["r"]) and ir.is_const(c0["l"], 22))):
                    if (su["label"] == "true") == (c0["op"] == "=="):
                        st2["einval"] = True
                isneg, fl = _neg_test(c, is_flock)
                if isneg:
                    if su["label"] == fl:
                        st2["failed_call"] = True
                    else:
                        st2["locked"] = True
                # a test of errno after a failed call: the zero side is not a path (OS contract)
                if any(is_errno(y) for y in ir.walk(c)) and st.get("failed_call") and not st2.get("einval") and \
                        not (isinstance(c0, dict) and c0.get("k") == "bin" and c0.get("op") in ("==", "!=") and not ir.is_const(c0.get("r"), 0) and not ir.is_const(c0.get("l"), 0)):
                    if su["label"] != _nonzero_label(c):
                        continue
            walk(su["to"], st2, path + [su["to"]])

    walk(f.entry, {}, [f.entry])
    if not results:
        raise AnalysisBroken("file_create: no path reaches a return")
    succ_paths = [(s, p) for s, p in results if s.get("ret") not in (0, None)]
    fail_paths = [(s, p) for s, p in results if s.get("ret") == 0]
    if not succ_paths:
        raise AnalysisBroken("file_create never reports success")
    if "TRUNC" in clauses:
        bad = [(s, p) for s, p in succ_paths if not s.get("trunc") or (s.get("trunc_failed") and not s.get("einval"))]
        inst = "TRUNC file_create: a successful create has emptied the file"
        if bad:
            res.fail(RULE, inst, "%s|file_create|no-truncate" % RULE, f.loc(),
                     "file_create can report success without having emptied the file (no O_TRUNC, no ftruncate on that path): a storage device that writes fewer "
                     "bytes than an earlier file at the same path held leaves that file's tail behind - the file is not exactly what the acquisition appended",
                     {"path_blocks": bad[0][1]})
        else:
            res.oblige(RULE, inst, True, "%d successful path(s)" % len(succ_paths), f.loc())
    if "LOCK-FIRST" in clauses:
        bad = [(s, p) for s, p in results if s.get("trunc_before_lock")]
        inst = "LOCK-FIRST file_create: the file is emptied only once the exclusive lock is held"
        if bad:
            res.fail(RULE, inst, "%s|file_create|truncate-before-lock" % RULE, f.loc(),
                     "file_create empties the file (O_TRUNC at open / ftruncate) before flock has succeeded: a create that is then refused because another "
                     "writer holds the file has already destroyed what that writer wrote; its later writes leave a hole of zeros",
                     {"path_blocks": bad[0][1]})
        else:
            res.oblige(RULE, inst, True, "%d path(s)" % len(results), f.loc())
    if "FD-ONCE" in clauses:
        probs = []
        for s, p in results:
            n = s.get("closes", 0)
            if s.get("opened") is False or not s.get("opened"):
                if n:
                    probs.append(("closes a descriptor although open() failed (lines %s)" % s.get("close_lines"), p))
            elif s.get("ret") == 0:
                if n == 0:
                    probs.append(("reports failure without closing the descriptor it opened: the descriptor (and its lock) leak", p))
                elif n > 1:
                    probs.append(("closes the descriptor %d times on one failing path (lines %s): the second close hits whatever file received that number in between" % (n, s.get("close_lines")), p))
            else:
                if n:
                    probs.append(("reports success after closing the descriptor it returns (lines %s)" % s.get("close_lines"), p))
        inst = "FD-ONCE file_create: an opened descriptor is closed exactly once on failure, never on success"
        if probs:
            seen = set()
            for m, p in probs:
                if m in seen:
                    continue
                seen.add(m)
                res.fail(RULE, inst, "%s|file_create|fd|%s" % (RULE, m.split(" ")[0] + "-" + ("twice" if "times" in m else "leak" if "leak" in m else "other")), f.loc(),
                         "file_create " + m, {"path_blocks": p})
        else:
            res.oblige(RULE, inst, True, "%d path(s): %d successful, %d failing" % (len(results), len(succ_paths), len(fail_paths)), f.loc())
    return len(results)


def rule_errno_fresh(prog, res, file_suffix="linux/platform.c", rule="R-ERRNO-FRESH"):
    """The pruning above ("a failed call comes with errno != 0") and every
    error branch that decides on errno is sound only if errno still is the
    failing call's: on every path backwards from a read of errno, the nearest
    call is an operating-system call, not a function of the repository - the
    logger calls a reporter supplied by the application, which may set errno
    to anything (0 included: the CHECK_POSIX(0) that follows then falls through
    its error branch with the descriptor already closed)."""
    fns = [g for v in prog.funcs.values() for g in v if g.file.endswith(file_suffix) and g.blocks]
    if not fns:
        raise AnalysisBroken("no function of %s was extracted" % file_suffix)
    n = 0
    for f in fns:
        preds = f.preds()
        for b, i, s in f.all_stmts():
            if not any(c.get("fn") == "__errno_location" for c in ir.calls_in(s)):
                continue
            res.touched(f)
            # calls of the reading statement itself that are evaluated before the read
            bad = None
            seen = set()
            st = [(b.id, i)]
            while st and bad is None:
                b_, i_ = st.pop()
                blk = f.blocks[b_]
                hit = False
                for j in range(min(i_, len(blk.stmts)) - 1, -1, -1):
                    cs = [c for c in ir.calls_in(blk.stmts[j]) if c.get("fn") != "__errno_location"]
                    if not cs:
                        continue
                    hit = True
                    for c in cs:
                        h = prog.resolve(c["fn"], f) if c.get("fn") else None
                        if c.get("fn") is None or (h is not None and h.blocks):
                            bad = (blk.stmts[j], c)
                    break
                if hit:
                    continue
                for p in preds.get(b_, []):
                    if p not in seen:
                        seen.add(p)
                        st.append((p, len(f.blocks[p].stmts)))
            inst = "%s: errno read at line %s still belongs to the failed system call" % (f.name, s.get("line"))
            if bad is None:
                res.oblige(rule, inst, True, "", f.loc(s))
            else:
                res.fail(rule, inst, "%s|%s|%s" % (rule, f.name, bad[1].get("fn")), f.loc(s),
                         "%s reads errno at line %s after calling %s (line %s): that function runs repository or application code (the log reporter) which may change errno, "
                         "so the error branch can see 0 and fall through with the failure unreported" % (f.name, s.get("line"), bad[1].get("fn"), bad[0].get("line")))
            n += 1
    return n


def rule_close_reaches(prog, res, rule="R-CLOSE-REACHES"):
    """file_close hands the descriptor to close() on every path; the only edge that may skip it is one on
    which the descriptor is negative (never opened).  0 is a valid descriptor: a process started with stdin
    closed gets it from the first open()."""
    cands = [f for f in prog.all_funcs() if f.name == "file_close" and f.blocks and f.file.endswith("linux/platform.c")]
    if not cands:
        raise AnalysisBroken("file_close (linux) not found")
    f = cands[0]
    res.touched(f)
    _FID_LOCALS.clear()

    def closes(s):
        return any(c.get("args") and _is_fid(c["args"][0]) for c in _calls(s, "close"))

    def never_opened(blk, succ):
        c = blk.cond_node()
        if c is None or succ.get("label") not in ("true", "false"):
            return False
        isneg, fl = _neg_test(c, _is_fid)
        return bool(isneg) and succ["label"] == fl
    ok, w = paths.all_paths_pass(f, "entry", "exit", closes, edge_ok=never_opened)
    inst = "file_close: close(file->fid) on every path, except for a negative descriptor"
    if ok:
        res.oblige(rule, inst, True, "", f.loc())
    else:
        res.fail(rule, inst, "%s|file_close" % rule, f.loc(),
                 "file_close can return without calling close() for a descriptor that is not negative: 0 is a valid descriptor (stdin closed at start-up), "
                 "a device that was given it never closes its file and keeps its lock - the next start on that path fails", {"path_blocks": w})
    return 1
