"""O-FREE-LIVE: no owner field is left pointing at freed memory.

For every function of the given file and every call that releases the block a
struct field points to -

    free(X->...F)                       directly,
    h(X)                                where the same-file helper h frees
                                        P->...F for its parameter P and can
                                        return without writing that field
                                        (summary, computed to a fixpoint),
    g(X->...F, ..)                      where the same-file g frees its
                                        pointer parameter on some path
                                        (checked_realloc, realloc itself)

- every path from that call to the function's exit either stores into the
same field (a fresh block, or null), or frees the owner X itself.  Otherwise
the object outlives the call with a field that still holds the address: the
next set/realloc/close frees it a second time, and the next frame call
renders into it.

What is decided is the shape 'released field is re-seated or its owner dies on
every path'.  It is a necessary condition of "no internal buffer is accessed
out of bounds across re-configuration": a path that violates it leaves a
dangling buffer pointer behind in a live camera.
"""
from . import ir, paths
from .build import AnalysisBroken

FREES = {"free": 0, "realloc": 0}


def _root_and_rest(a):
    """'self->im.frame_data' -> ('self', '->im.frame_data')"""
    if a is None:
        return None, None
    for k, ch in enumerate(a):
        if ch in "-.[":
            return a[:k], a[k:]
    return a, ""


def summaries(prog, fns):
    """name -> {'param': set(k), 'field': set((k, rest))}:
    param k itself is passed to free on some path / the field P_k<rest> is
    freed and some path to the exit does not store into it afterwards."""
    summ = {g.name: {"param": set(), "field": set()} for g in fns}
    by = {g.name: g for g in fns}
    changed = True
    rounds = 0
    while changed and rounds < 8:
        changed = False
        rounds += 1
        for g in fns:
            pnames = [p.get("n") for p in g.params]
            for (b, i, s, a, why) in released(prog, g, summ, by):
                root, rest = _root_and_rest(a)
                if root not in pnames:
                    continue
                k = pnames.index(root)
                if rest == "":
                    if k not in summ[g.name]["param"]:
                        summ[g.name]["param"].add(k)
                        changed = True
                elif rest.startswith("->"):
                    if not reseated(prog, g, (b, i), s, a, why)[0] and (k, rest) not in summ[g.name]["field"]:
                        summ[g.name]["field"].add((k, rest))
                        changed = True
    return summ


def released(prog, g, summ, by):
    """(block id, index, stmt, access path released, how) for each release in g"""
    for b, i, s in g.all_stmts():
        for c in ir.calls_in(s):
            fn = c.get("fn") or ""
            args = c.get("args", [])
            if fn in FREES and len(args) > FREES[fn]:
                a = ir.ap(ir.strip(args[FREES[fn]]))
                if a:
                    yield b.id, i, s, a, fn
            elif fn in summ and by[fn] is not g:
                for k in summ[fn]["param"]:
                    if k < len(args):
                        a = ir.ap(ir.strip(args[k]))
                        if a:
                            yield b.id, i, s, a, fn
                for k, rest in summ[fn]["field"]:
                    if k < len(args):
                        a = ir.ap(ir.strip(args[k]))
                        if a and not a.startswith("&"):
                            yield b.id, i, s, a + rest, fn
                        elif a and rest.startswith("->"):
                            yield b.id, i, s, a[1:] + "." + rest[2:], fn


def reseated(prog, g, pos, s, a, how=""):
    root, rest = _root_and_rest(a)

    def covers(pfx):
        """a store into pfx overwrites the field a"""
        return pfx is not None and (a == pfx or (a.startswith(pfx) and a[len(pfx):len(pfx) + 1] in (".", "-")))

    def fixes(ss):
        for lv, op, rhs, w in ir.writes_of(ss):
            if covers(ir.ap(lv)):
                return True
        for c in ir.calls_in(ss):
            # memset(&X->sub, 0, sizeof ..) over an enclosing aggregate
            if c.get("fn") in ("memset", "__builtin_memset") and len(c.get("args", [])) == 3 and ir.is_const(c["args"][1], 0):
                t = ir.ap(ir.strip(c["args"][0]))
                if t and t.startswith("&") and covers(t[1:]):
                    return True
                if t and not t.startswith("&") and a.startswith(t + "->"):
                    return True     # memset(P, 0, sizeof *P)
        for c in ir.calls_in(ss):
            if c.get("fn") == "free" and c.get("args"):
                o = ir.ap(ir.strip(c["args"][0]))
                # the owner itself, or the heap block the field lives in ( free(X->arr) for X->arr[i].f )
                if o == root or (o and o != a and (a.startswith(o + "->") or a.startswith(o + "["))):
                    return True
        return False
    if fixes(s):
        return True, []
    if root == "this" and "::~" in g.name:
        return True, []     # the owner's destructor: the object dies with the call
    # realloc(p, n) leaves p alone when it fails: the edge on which its result tests null carries no obligation
    held = set()
    for lv, op, rhs, w in ir.writes_of(s):
        if lv.get("k") == "var" and rhs is not None and any(c.get("fn") == "realloc" for c in ir.calls_in(rhs)) and how == "realloc":
            held.add(lv.get("id"))
    if s.get("k") == "decl" and how == "realloc" and any(c.get("fn") == "realloc" for c in ir.calls_in(s)):
        held.add(s.get("id"))

    def null_edge(blk, succ):
        c = blk.cond_node()
        if c is None or succ.get("label") not in ("true", "false") or not held:
            return False
        c = ir.strip(c)
        neg = False
        while isinstance(c, dict) and c.get("k") == "un" and c.get("op") == "!":
            neg = not neg
            c = ir.strip(c["e"])
        if isinstance(c, dict) and c.get("k") == "ref":
            t = g.resolve_ref(c)
            c = ir.strip(t) if t is not None else c
        if not (isinstance(c, dict) and c.get("k") == "var" and c.get("id") in held):
            return False
        return (succ["label"] == "true") == neg
    return paths.all_paths_pass(g, pos, "exit", fixes, edge_ok=null_edge)


def rule_free_live(prog, res, file_suffix, rule="O-FREE-LIVE"):
    fns = [g for v in prog.funcs.values() for g in v if g.file.endswith(file_suffix) and g.blocks]
    if not fns:
        raise AnalysisBroken("no function of %s was extracted" % file_suffix)
    by = {g.name: g for g in fns}
    summ = summaries(prog, fns)
    n = 0
    for g in fns:
        seen = set()
        for b, i, s, a, why in released(prog, g, summ, by):
            root, rest = _root_and_rest(a)
            if not rest.startswith(("->", ".", "[")) or "->" not in a and "." not in a:
                continue
            if (b, i, a) in seen:
                continue
            seen.add((b, i, a))
            res.touched(g)
            ok, w = reseated(prog, g, (b, i), s, a, why)
            inst = "%s: %s released at line %s (%s) is re-seated or its owner freed on every path" % (g.name, a, s.get("line"), why)
            pnames = [p.get("n") for p in g.params]
            # a helper whose only job is to release fields of its parameter is judged in its callers
            if not ok and root in pnames and any(h is not g and any(c.get("fn") == g.name for _, _, s2 in h.all_stmts() for c in ir.calls_in(s2)) for h in fns) \
                    and (pnames.index(root), rest) in summ[g.name]["field"]:
                res.oblige(rule, inst + " (judged at the callers of this helper)", True, "summary: frees %s%s without re-seating" % (root, rest), g.loc(s))
                n += 1
                continue
            if ok:
                res.oblige(rule, inst, True, "", g.loc(s))
            else:
                res.fail(rule, inst, "%s|%s|%s" % (rule, g.name, a), g.loc(s),
                         "%s releases the block %s points to (%s) and can return without storing a new value into that field or freeing %s: the object stays alive with a dangling "
                         "pointer, which the next re-configuration or close frees a second time and the next frame call writes through" % (g.name, a, "free" if why == "free" else "through " + why, root),
                         {"path_blocks": w})
            n += 1
    return n
