"""Typestate / property simulation (DESIGN.md 3.3).

An abstract interpreter over the extracted CFGs.  Values come from small
finite domains (concrete small integers / enumerators, function pointers,
pointers to abstract objects, NZ = some non-zero value, TOP = unknown), calls
to functions with bodies are inlined (call-string sensitive), externals are
nondeterministic stubs that update ghost variables and check assertions.
Because every domain is finite the set of reachable abstract states is finite;
exploration is exhaustive over the abstraction.
"""
from . import ir

TOP = ("top",)
NZ = ("nz",)
ZERO = ("int", 0)


def I(n):
    return ("int", int(n))


def is_int(v):
    return v[0] == "int"


def is_ptr(v):
    return v[0] == "ptr"


def _idx(c):
    """numeric index of a path component '[k]', '*' for '[*]', None otherwise"""
    if isinstance(c, str) and c.startswith("[") and c.endswith("]"):
        return "*" if c == "[*]" else int(c[1:-1])
    return None


def ptr_add(p, k):
    """pointer + k elements (k int or None for unknown)"""
    path = p[2]
    last = _idx(path[-1]) if path else None
    if last is not None:
        if last == "*" or k is None:
            return ("ptr", p[1], path[:-1] + ("[*]",))
        j = last + k
        return ("ptr", p[1], path[:-1] + ("[%d]" % j if 0 <= j <= 64 else "[*]",))
    if k == 0:
        return p
    return ("ptr", p[1], path + ("[%d]" % k if (k is not None and 0 <= k <= 64) else "[*]",))


class State:
    """Immutable-by-convention abstract state: location -> value."""
    __slots__ = ("m", "_h")

    def __init__(self, m=None):
        self.m = m if m is not None else {}
        self._h = None

    def key(self):
        if self._h is None:
            self._h = frozenset(self.m.items())
        return self._h

    def get(self, loc, default=None):
        return self.m.get(loc, default)

    def set(self, loc, val):
        if self.m.get(loc) == val:
            return self
        m = dict(self.m)
        m[loc] = val
        return State(m)

    def delete_where(self, pred):
        m = {k: v for k, v in self.m.items() if not pred(k)}
        if len(m) == len(self.m):
            return self
        return State(m)

    def update(self, d):
        m = dict(self.m)
        m.update(d)
        return State(m)


class Frame:
    __slots__ = ("fn", "depth", "this", "callsite")

    def __init__(self, fn, depth, callsite):
        self.fn, self.depth, self.callsite = fn, depth, callsite


class Truncated(Exception):
    pass


def untracked_fields(prog):
    """Integer (non-enum, non-pointer) fields that somewhere receive a value
    that is not a constant: counters, offsets, sizes.  They are kept at TOP so
    that the abstract state space stays small; flags and enum-typed fields
    (only ever assigned constants / enumerators / enum-returning calls) stay
    tracked."""
    out = set()
    for f in prog.all_funcs():
        for b, i, st in f.all_stmts():
            for x in ir.walk(st):
                if x.get("k") != "asg":
                    continue
                l = x["l"]
                if not (isinstance(l, dict) and l.get("k") == "mem"):
                    continue
                if l.get("pd") or l.get("r") or l.get("en"):
                    continue
                key = (l.get("rec"), l["f"])
                if x["op"] in ("|=", "&=", "^="):
                    continue  # bit masks of small constants stay tracked
                if x["op"] != "=":
                    out.add(key)
                    continue
                r = ir.strip(x.get("r"))
                if not isinstance(r, dict):
                    continue
                if r.get("k") == "int":
                    continue
                if r.get("k") == "call" and r.get("en"):
                    continue
                if r.get("k") == "cond" and all(ir.is_const(r.get(q)) for q in ("t", "f")):
                    continue
                out.add(key)
    return out


class Interp:
    MAX_DEPTH = 14
    FUEL = 20000000

    def __init__(self, prog, stubs=None):
        self.prog = prog
        self.stubs = stubs or {}
        self.reports = {}       # key -> dict
        self.stack = []         # list of (fn name)
        self.fuel = self.FUEL
        self.truncated = []
        self.alloc_seq = 0
        self.stats = {"calls": 0, "steps": 0, "forks": 0}
        self.on_read = None     # hook(interp, state, loc) -> None
        self.on_write = None    # hook(interp, state, loc, compound) -> state
        self.trace_calls = None
        self.fn_cache = {}
        self.untracked = untracked_fields(prog)
        self.counter_fns = set()   # functions whose small local loop counters stay concrete

    # ------------------------------------------------------------------
    def report(self, rule, key, message, where="", witness=None):
        if key not in self.reports:
            self.reports[key] = {"rule": rule, "key": key, "message": message,
                                 "where": where,
                                 "witness": witness or {"call_stack": list(self.stack)}}

    def callstring(self):
        return ">".join(self.stack)

    # ------------------------------------------------------------------
    # memory model
    @staticmethod
    def sub(loc, *path):
        return (loc[0], loc[1] + tuple(path))

    def read(self, st, loc):
        """Value at location; falls back to zero-fill markers of enclosing
        aggregates, else TOP."""
        obj, path = loc
        if st.get(("freed", obj)):
            self.report("MEM-UAF", "MEM-UAF|read|%s|%s" % (self.callstring(), obj),
                        "read of %s%s after the object was released (call chain %s)"
                        % (obj, "." + ".".join(map(str, path)) if path else "", self.callstring()))
        v = st.get(loc)
        if v is not None:
            return v
        for i in range(len(path), -1, -1):
            if st.get((obj, path[:i] + ("<z>",))):
                return ZERO
            t = st.get((obj, path[:i] + ("<t>",)))
            if t is not None:
                return TOP
        return TOP

    def write(self, st, loc, val, compound=False):
        obj, path = loc
        if st.get(("freed", obj)):
            self.report("MEM-UAF", "MEM-UAF|write|%s|%s" % (self.callstring(), obj),
                        "write to %s%s after the object was released (call chain %s)"
                        % (obj, "." + ".".join(map(str, path)) if path else "", self.callstring()))
        # a scalar write below an aggregate: drop sub-entries of the target
        st = self.clear_under(st, loc, keep_markers=False) if self.has_under(st, loc) else st
        st = st.set(loc, val)
        if self.on_write:
            self.last_written_value = val
            st = self.on_write(self, st, loc, compound)
        return st

    def has_under(self, st, loc):
        obj, path = loc
        n = len(path)
        for k in st.m:
            if k[0] == obj and isinstance(k[1], tuple) and len(k[1]) > n and k[1][:n] == path:
                return True
        return False

    def clear_under(self, st, loc, keep_markers=False):
        obj, path = loc
        n = len(path)
        return st.delete_where(lambda k: k[0] == obj and isinstance(k[1], tuple)
                               and len(k[1]) >= n and k[1][:n] == path and
                               not (len(k[1]) == n))

    def fill(self, st, loc, zero=True):
        """Aggregate at loc becomes all-zero (zero=True) or all-unknown."""
        st = self.clear_under(st, loc)
        st = st.delete_where(lambda k: k == loc)
        obj, path = loc
        if st.get(("freed", obj)):
            self.report("MEM-UAF", "MEM-UAF|write|%s|%s" % (self.callstring(), obj),
                        "write to %s after the object was released (call chain %s)" % (obj, self.callstring()))
        return st.set((obj, path + (("<z>",) if zero else ("<t>",))), 1)

    def copy_agg(self, st, dst, src):
        so, sp = src
        n = len(sp)
        items = [(k, v) for k, v in st.m.items()
                 if k[0] == so and isinstance(k[1], tuple) and k[1][:n] == sp]
        # inherited zero-fill from an enclosing aggregate
        inherited_zero = False
        for i in range(len(sp) - 1, -1, -1):
            if st.get((so, sp[:i] + ("<z>",))):
                inherited_zero = True
                break
        st = self.clear_under(st, dst)
        st = st.delete_where(lambda k: k == dst)
        do, dp = dst
        upd = {}
        if inherited_zero and not any(k[1] == sp + ("<z>",) for k, v in items):
            upd[(do, dp + ("<z>",))] = 1
        elif not items:
            upd[(do, dp + ("<t>",))] = 1
        for k, v in items:
            upd[(do, dp + k[1][n:])] = v
        if not any(k[1][n:] in (("<z>",), ("<t>",)) for k, v in items) and not inherited_zero and items:
            upd.setdefault((do, dp + ("<t>",)), 1)
        return st.update(upd)

    def new_object(self, st, label):
        obj = "obj:" + label
        # a fresh incarnation replaces the previous one of the same site
        st = st.delete_where(lambda k: k[0] == obj or k == ("freed", obj) or
                             (k[0] == "G" and len(k) > 2 and isinstance(k[2], tuple) and k[2] and k[2][0] == obj))
        st = st.set((obj, ("<t>",)), 1)
        return st, ("ptr", obj, ())

    def free_object(self, st, v, what="free"):
        if not is_ptr(v):
            return st
        obj = v[1]
        if st.get(("freed", obj)):
            self.report("MEM-DOUBLE-FREE", "MEM-DOUBLE-FREE|%s|%s" % (self.callstring(), obj),
                        "%s of %s which was already released (call chain %s)" % (what, obj, self.callstring()))
            return st
        if self.on_free:
            st = self.on_free(self, st, obj)
        return st.set(("freed", obj), 1)

    on_free = None

    # ------------------------------------------------------------------
    # lvalues
    def lval(self, n, st, fr):
        """Yield (loc or None, state)."""
        k = n.get("k")
        if k == "var":
            yield (("L%d" % fr.depth, (n["id"],)), st)
            return
        if k == "gvar":
            yield (("glob", (n["n"],)), st)
            return
        if k == "mem":
            if n.get("arrow"):
                for v, st2 in self.eval(n["b"], st, fr):
                    if is_ptr(v):
                        yield ((v[1], v[2] + (n["f"],)), st2)
                    else:
                        self.note_unknown_deref(n, v, st2)
                        yield (None, st2)
            else:
                for loc, st2 in self.lval(n["b"], st, fr):
                    yield ((loc[0], loc[1] + (n["f"],)) if loc else None, st2)
            return
        if k == "deref":
            for v, st2 in self.eval(n["e"], st, fr):
                if is_ptr(v):
                    yield ((v[1], v[2]), st2)
                else:
                    self.note_unknown_deref(n, v, st2)
                    yield (None, st2)
            return
        if k == "idx":
            for iv, st2 in self.eval(n["i"], st, fr):
                ix = "[%d]" % iv[1] if is_int(iv) else "[*]"
                b = n["b"]
                bt = str(b.get("t", "")) if isinstance(b, dict) else ""
                if isinstance(b, dict) and bt.endswith("]") and b.get("k") in ("var", "gvar", "mem", "idx"):
                    for loc, st3 in self.lval(b, st2, fr):
                        yield ((loc[0], loc[1] + (ix,)) if loc else None, st3)
                else:
                    for v, st3 in self.eval(b, st2, fr):
                        if is_ptr(v):
                            q = ptr_add(v, iv[1] if is_int(iv) else None)
                            yield ((q[1], q[2]), st3)
                        else:
                            yield (None, st3)
            return
        if k == "cast":
            yield from self.lval(n["e"], st, fr)
            return
        if k == "this":
            yield (("L%d" % fr.depth, ("this",)), st)
            return
        if k in ("init",) and n.get("clit"):
            # compound literal used as an lvalue: materialise a temporary
            loc = ("L%d" % fr.depth, ("tmp%d" % n.get("line", 0),))
            for st2 in self.assign_init(loc, n, st, fr):
                yield (loc, st2)
            return
        yield (None, st)

    def note_unknown_deref(self, n, v, st):
        if v == ZERO:
            self.report("MEM-NULL", "MEM-NULL|%s|%s" % (self.callstring(), ir.render(n)),
                        "null pointer dereference %s (call chain %s)" % (ir.render(n), self.callstring()))

    # ------------------------------------------------------------------
    # expressions
    def eval(self, n, st, fr):
        """Yield (value, state) for every outcome of evaluating n."""
        self.fuel -= 1
        if self.fuel < 0:
            raise Truncated("fuel exhausted")
        if not isinstance(n, dict):
            yield (TOP, st)
            return
        k = n.get("k")
        if k == "int":
            yield (I(n["v"]), st)
        elif k in ("str", "float"):
            yield (NZ if k == "str" else TOP, st)
        elif k == "fn":
            yield (("fn", n["n"]), st)
        elif k == "lambda":
            yield (("fn", n["fn"]), st)
        elif k == "this":
            yield (self.read(st, ("L%d" % fr.depth, ("this",))), st)
        elif k in ("var", "gvar", "mem", "deref", "idx"):
            t = str(n.get("t", ""))
            if t.endswith("]") and k != "deref":
                # array decays to a pointer to its first element
                for loc, st2 in self.lval(n, st, fr):
                    yield (("ptr", loc[0], loc[1] + ("[0]",)) if loc else TOP, st2)
                return
            if n.get("r") and not n.get("pd") and k != "deref":
                # aggregate rvalue: represented by its location
                for loc, st2 in self.lval(n, st, fr):
                    yield (("agg", loc[0], loc[1]) if loc else TOP, st2)
                return
            for loc, st2 in self.lval(n, st, fr):
                if loc is None:
                    yield (TOP, st2)
                else:
                    if n.get("r") and not n.get("pd"):
                        yield (("agg", loc[0], loc[1]), st2)
                        continue
                    if self.on_read:
                        self.on_read(self, st2, loc)
                    yield (self.read(st2, loc), st2)
        elif k == "addr":
            e = n["e"]
            if e.get("k") == "fn":
                yield (("fn", e["n"]), st)
                return
            for loc, st2 in self.lval(e, st, fr):
                yield (("ptr", loc[0], loc[1]) if loc else NZ, st2)
        elif k == "cast":
            for v, st2 in self.eval(n["e"], st, fr):
                if v[0] == "agg":
                    yield (v, st2)
                else:
                    yield (v, st2)
        elif k == "container":
            for v, st2 in self.eval(n["e"], st, fr):
                f = tuple(n["f"].split("."))
                if is_ptr(v) and v[2][-len(f):] == f:
                    yield (("ptr", v[1], v[2][:-len(f)]), st2)
                elif v == ZERO:
                    # containerof(NULL) is a wild non-null pointer in general;
                    # for a first member it is NULL again
                    rec = self.prog.record(n.get("rec") or "")
                    first = rec["fields"][0]["n"] if rec and rec["fields"] else None
                    yield (ZERO if first == f[0] and len(f) == 1 else NZ, st2)
                else:
                    yield (TOP if not is_ptr(v) else NZ, st2)
        elif k == "un":
            for v, st2 in self.eval(n["e"], st, fr):
                yield (v if v[0] == "throw" else self.unop(n["op"], v), st2)
        elif k == "bin":
            op = n["op"]
            for a, st2 in self.eval(n["l"], st, fr):
                if a[0] == "throw":
                    yield (a, st2)
                    continue
                for b, st3 in self.eval(n["r"], st2, fr):
                    yield (b if b[0] == "throw" else self.binop(op, a, b), st3)
        elif k == "cond":
            for c, st2 in self.eval(n["c"], st, fr):
                tv = self.truth(c)
                if tv is not False:
                    yield from self.eval(n["t"], st2, fr)
                if tv is not True:
                    yield from self.eval(n["f"], st2, fr)
        elif k == "ref":
            s = fr.fn.resolve_ref(n)
            v = st.get(("L%d" % fr.depth, ("ref", n["b"], n["i"])))
            yield (v if v is not None else TOP, st)
        elif k == "asg":
            yield from self.eval_assign(n, st, fr)
        elif k == "comma":
            for _, st2 in self.eval(n["l"], st, fr):
                yield from self.eval(n["r"], st2, fr)
        elif k == "call":
            yield from self.eval_call(n, st, fr)
        elif k == "construct":
            # value of a temporary: evaluate args for effects
            sts = [st]
            for a in n.get("args", []):
                nxt = []
                for s in sts:
                    for _, s2 in self.eval(a, s, fr):
                        nxt.append(s2)
                sts = nxt
            for s in sts:
                yield (TOP, s)
        elif k == "new":
            yield from self.eval_new(n, st, fr)
        elif k == "delete":
            yield from self.eval_delete(n, st, fr)
        elif k in ("init", "zero"):
            loc = ("L%d" % fr.depth, ("tmp%d_%d" % (n.get("line", 0), id(n) % 9973),))
            if k == "zero":
                yield (ZERO, st)
            else:
                for st2 in self.assign_init(loc, n, st, fr):
                    yield (("agg", loc[0], loc[1]), st2)
        elif k == "throw":
            yield (("throw",), st)
        else:
            # unknown node: evaluate children for effects, value unknown
            sts = [st]
            for _, c in ir.children(n):
                nxt = []
                for s in sts:
                    for _, s2 in self.eval(c, s, fr):
                        nxt.append(s2)
                sts = nxt
            for s in sts:
                yield (TOP, s)

    @staticmethod
    def truth(v):
        if is_int(v):
            return v[1] != 0
        if v[0] in ("ptr", "fn", "nz", "agg"):
            return True
        return None

    def unop(self, op, v):
        if op == "!":
            t = self.truth(v)
            return TOP if t is None else I(0 if t else 1)
        if is_int(v):
            if op == "-":
                return I(-v[1])
            if op == "~":
                return I(~v[1])
        return TOP

    def binop(self, op, a, b):
        if op in ("&&", "||"):
            ta, tb = self.truth(a), self.truth(b)
            if op == "&&":
                if ta is False or tb is False:
                    return I(0)
                if ta and tb:
                    return I(1)
            else:
                if ta or tb:
                    return I(1)
                if ta is False and tb is False:
                    return I(0)
            return TOP
        if op in ("==", "!="):
            eq = None
            if is_int(a) and is_int(b):
                eq = a[1] == b[1]
            elif a[0] in ("ptr", "fn") and b[0] in ("ptr", "fn"):
                eq = a == b
            elif (a[0] in ("ptr", "fn", "nz") and b == ZERO) or (b[0] in ("ptr", "fn", "nz") and a == ZERO):
                eq = False
            if eq is None:
                return TOP
            return I(1 if (eq == (op == "==")) else 0)
        if is_int(a) and is_int(b):
            x, y = a[1], b[1]
            try:
                if op == "<":
                    return I(x < y)
                if op == ">":
                    return I(x > y)
                if op == "<=":
                    return I(x <= y)
                if op == ">=":
                    return I(x >= y)
                if op == "+":
                    r = x + y
                elif op == "-":
                    r = x - y
                elif op == "*":
                    r = x * y
                elif op == "&":
                    r = x & y
                elif op == "|":
                    r = x | y
                elif op == ">>":
                    r = x >> y
                elif op == "<<":
                    r = x << y if y < 64 else None
                else:
                    r = None
                if r is not None and -4096 <= r <= 4096:
                    return I(r)
            except Exception:
                pass
            return TOP
        if is_ptr(a) and op in ("+", "-") and not is_ptr(b):
            # pointer arithmetic stays within the same abstract object
            if is_int(b):
                return ptr_add(a, b[1] if op == "+" else -b[1])
            return ptr_add(a, None)
        if op in ("<", ">", "<=", ">=") and is_ptr(a) and is_ptr(b):
            return TOP
        return TOP

    # ------------------------------------------------------------------
    def eval_assign(self, n, st, fr):
        op = n["op"]
        l = n["l"]
        if op in ("++", "--"):
            for loc, st2 in self.lval(l, st, fr):
                if loc is None:
                    yield (TOP, st2)
                    continue
                if self.on_read:
                    self.on_read(self, st2, loc)
                old = self.read(st2, loc)
                new = TOP
                if is_int(old) and loc[0].startswith("L") and loc[0][1:].isdigit() and 0 <= old[1] < 16 \
                        and fr.fn.name in self.counter_fns:
                    # a small local loop counter: keep it concrete (bounded)
                    new = I(old[1] + (1 if op == "++" else -1))
                rv = new if n.get("pre") else old
                yield (rv if new != TOP else TOP, self.write(st2, loc, new, compound=True))
            return
        if op != "=":
            for v, st2 in self.eval(n["r"], st, fr):
                for loc, st3 in self.lval(l, st2, fr):
                    if loc is None:
                        yield (TOP, st3)
                        continue
                    if self.on_read:
                        self.on_read(self, st3, loc)
                    old = self.read(st3, loc)
                    new = self.binop(op[:-1], old, v) if (is_int(old) and is_int(v) and op in ("|=", "&=")) else TOP
                    yield (new, self.write(st3, loc, new, compound=True))
            return
        r = n["r"]
        # aggregate initialisers are stored field-wise
        if isinstance(r, dict) and r.get("k") == "init":
            for loc, st2 in self.lval(l, st, fr):
                if loc is None:
                    for _, s3 in self.eval(r, st2, fr):
                        yield (TOP, s3)
                    continue
                for st3 in self.assign_init(loc, r, st2, fr):
                    yield (("agg", loc[0], loc[1]), st3)
            return
        wide = l.get("k") == "mem" and (l.get("rec"), l["f"]) in self.untracked
        for v, st2 in self.eval(r, st, fr):
            if v[0] == "throw":
                yield (v, st2)
                continue
            if wide and v[0] in ("int", "nz"):
                v = TOP
            for loc, st3 in self.lval(l, st2, fr):
                if loc is None:
                    yield (v, st3)
                    continue
                if v[0] == "agg":
                    yield (v, self.copy_agg(st3, loc, (v[1], v[2])))
                elif l.get("r") and not l.get("pd") and l.get("k") != "var" and v == TOP:
                    yield (v, self.fill(st3, loc, zero=False))
                elif l.get("r") and not l.get("pd") and v == TOP:
                    yield (v, self.fill(st3, loc, zero=False))
                else:
                    yield (v, self.write(st3, loc, v))

    def assign_init(self, loc, n, st, fr):
        """Store an initializer list field-wise at loc; yields states."""
        st = self.fill(st, loc, zero=True)
        sts = [st]
        for e in n.get("elts", []):
            v = e.get("v")
            if "f" in e:
                sub = (loc[0], loc[1] + (e["f"],))
            elif "base" in e:
                sub = loc
            else:
                sub = (loc[0], loc[1] + ("[%d]" % e["i"],))
            nxt = []
            for s in sts:
                if isinstance(v, dict) and v.get("k") == "init":
                    if "base" in e:
                        # base sub-object shares the derived object's paths
                        for s2 in self.assign_init_nofill(sub, v, s, fr):
                            nxt.append(s2)
                    else:
                        for s2 in self.assign_init(sub, v, s, fr):
                            nxt.append(s2)
                elif isinstance(v, dict) and v.get("k") == "zero":
                    nxt.append(s)
                else:
                    for val, s2 in self.eval(v, s, fr):
                        if val[0] == "agg":
                            nxt.append(self.copy_agg(s2, sub, (val[1], val[2])))
                        else:
                            nxt.append(s2.set(sub, val))
            sts = nxt
        return sts

    def assign_init_nofill(self, loc, n, st, fr):
        sts = [st]
        for e in n.get("elts", []):
            v = e.get("v")
            sub = (loc[0], loc[1] + (e["f"],)) if "f" in e else loc
            nxt = []
            for s in sts:
                if isinstance(v, dict) and v.get("k") == "init":
                    nxt += self.assign_init(sub, v, s, fr)
                elif isinstance(v, dict) and v.get("k") == "zero":
                    nxt.append(s.set(sub, ZERO) if "f" in e else s)
                else:
                    for val, s2 in self.eval(v, s, fr):
                        nxt.append(s2.set(sub, val))
            sts = nxt
        return sts

    # ------------------------------------------------------------------
    def eval_new(self, n, st, fr):
        label = "%s:new@%s" % (n.get("r") or n.get("t"), fr.fn.name)
        st, p = self.new_object(st, label)
        init = n.get("init")
        if isinstance(init, dict) and init.get("k") == "construct" and init.get("fn"):
            ctor = self.prog.resolve(init["fn"], fr.fn)
            if ctor is not None:
                for _, st2 in self.call_function(ctor, [p] + [TOP] * len(init.get("args", [])), st, fr, n):
                    yield (p, st2)
                return
        yield (p, st)

    def eval_delete(self, n, st, fr):
        for v, st2 in self.eval(n["e"], st, fr):
            if v == ZERO:
                yield (TOP, st2)
                continue
            if not is_ptr(v):
                yield (TOP, st2)
                continue
            dt = n.get("dtor")
            d = self.prog.resolve(dt, fr.fn) if dt else None
            if d is not None:
                for _, st3 in self.call_function(d, [v], st2, fr, n):
                    yield (TOP, self.free_object(st3, v, "delete"))
            else:
                yield (TOP, self.free_object(st2, v, "delete"))

    # ------------------------------------------------------------------
    def eval_args(self, args, st, fr):
        outs = [([], st)]
        for a in args:
            nxt = []
            for vals, s in outs:
                if vals and vals[-1][0] == "throw":
                    nxt.append((vals, s))
                    continue
                for v, s2 in self.eval(a, s, fr):
                    nxt.append((vals + [v], s2))
            outs = nxt
        return outs

    def eval_call(self, n, st, fr):
        name = n.get("fn")
        if name is None:
            # indirect
            for cv, st2 in self.eval(n["callee"], st, fr):
                for vals, st3 in self.eval_args(n.get("args", []), st2, fr):
                    if cv[0] == "fn":
                        yield from self.dispatch(cv[1], vals, st3, fr, n)
                    else:
                        cal = ir.strip(n["callee"])
                        yield from self.unknown_indirect(cal, cv, vals, st3, fr, n)
            return
        for vals, st2 in self.eval_args(n.get("args", []), st, fr):
            if vals and vals[-1][0] == "throw":
                yield (vals[-1], st2)
                continue
            yield from self.dispatch(name, vals, st2, fr, n)

    def unknown_indirect(self, cal, cv, vals, st, fr, n):
        if cv == ZERO:
            self.report("MEM-NULL-CALL", "MEM-NULL-CALL|%s|%s" % (self.callstring(), ir.render(cal)),
                        "call through a null function pointer %s (call chain %s)" % (ir.render(cal), self.callstring()))
            return
        h = self.stubs.get("@indirect")
        if h:
            yield from h(self, st, vals, fr, n)
        else:
            yield (TOP, st)

    def dispatch(self, name, vals, st, fr, n):
        self.stats["calls"] += 1
        stub = self.stubs.get(name)
        if stub is not None:
            self.stack.append(name.lstrip("@"))
            try:
                outs = list(stub(self, st, vals, fr, n))
            finally:
                self.stack.pop()
            for o in outs:
                yield o
            return
        g = self.prog.resolve(name, fr.fn) if fr is not None else self.prog.func(name, required=False)
        if g is None:
            # a static function of another unit reached through a pointer
            cands = self.prog.funcs.get(name) or []
            if len(cands) == 1:
                g = cands[0]
        if g is None:
            h = self.stubs.get("@external")
            if h:
                yield from h(self, name, st, vals, fr, n)
            else:
                yield (TOP, st)
            return
        if self.returns_record(g) and self.is_pure(g):
            # a side-effect-free helper that builds a record by value (TIFF
            # tags, headers): its result is an unknown aggregate
            yield (TOP, st)
            return
        yield from self.call_function(g, vals, st, fr, n)

    @staticmethod
    def returns_record(g):
        r = g.d.get("ret") or {}
        return bool(r.get("r")) and not r.get("pd")

    def is_pure(self, g, _stack=None):
        key = (g.tu, g.name)
        if key in self.fn_cache:
            return self.fn_cache[key]
        _stack = _stack or set()
        if key in _stack:
            return True
        _stack = _stack | {key}
        pure = True
        for b, i, s in g.all_stmts():
            for x in ir.walk(s):
                k = x.get("k")
                if k in ("new", "delete", "throw"):
                    pure = False
                elif k == "asg":
                    root, chain = ir.field_chain(x["l"])
                    l = x["l"]
                    bad = False
                    for y in ir.walk(l):
                        if y.get("k") in ("deref", "gvar", "this") or (y.get("k") == "mem" and y.get("arrow")):
                            bad = True
                        if y.get("k") == "idx" and not str(y["b"].get("t", "")).endswith("]"):
                            bad = True
                    if bad:
                        pure = False
                elif k in ("call", "construct"):
                    nm = x.get("fn")
                    h = self.prog.resolve(nm, g) if nm else None
                    if nm in self.stubs or h is None or not self.is_pure(h, _stack):
                        pure = False
                if not pure:
                    break
            if not pure:
                break
        self.fn_cache[key] = pure
        return pure

    # ------------------------------------------------------------------
    def call_function(self, g, vals, st, fr, callnode=None):
        """Inline g.  Yields (return value, state)."""
        depth = (fr.depth + 1) if fr is not None else 0
        if depth > self.MAX_DEPTH:
            self.truncated.append("depth bound at %s" % g.name)
            yield (TOP, st)
            return
        # recursion: same function already active with the same store
        heap = frozenset((k, v) for k, v in st.m.items()
                         if not (isinstance(k[0], str) and k[0].startswith("L") and k[0][1:].isdigit()))
        sig = (g.name, tuple(vals), heap)
        for (nm, s) in self.active:
            if nm == g.name and s == sig:
                self.report("REC-UNBOUNDED", "REC-UNBOUNDED|%s" % ">".join(self.stack + [g.short]),
                            "unbounded recursion: %s re-enters itself with an unchanged abstract state (cycle %s)"
                            % (g.name, " -> ".join(self.stack[self.stack.index(g.short):] + [g.short]) if g.short in self.stack else g.name))
                return
        self.active.append((g.name, sig))
        self.stack.append(g.short)
        if self.trace_calls is not None:
            self.trace_calls.append(self.callstring())
        nfr = Frame(g, depth, callnode)
        L = "L%d" % depth
        st = st.delete_where(lambda k: k[0] == L)
        upd = {}
        params = g.params
        off = 0
        if g.d.get("method") and not g.d.get("lambda"):
            upd[(L, ("this",))] = vals[0] if vals else TOP
            off = 1
        elif g.d.get("lambda"):
            off = 1 if len(vals) > len(params) else 0
        for i, p in enumerate(params):
            v = vals[i + off] if i + off < len(vals) else TOP
            if v[0] == "agg":
                # by-value aggregate parameter: copy
                st = self.copy_agg(st, (L, (p["id"],)), (v[1], v[2]))
            else:
                upd[(L, (p["id"],))] = v
        st = st.update(upd)
        try:
            outs = self.run_body(g, nfr, st)
        finally:
            self.stack.pop()
            self.active.pop()
        seen = set()
        for rv, s in outs:
            if self.on_return:
                s = self.on_return(self, g, nfr, rv, s)
            if rv[0] == "agg" and rv[1] == L:
                # returning a local aggregate by value: move it to a return slot
                tmp = ("L%d" % (depth - 1) if depth > 0 else "ret", ("ret%d" % depth,))
                s = self.copy_agg(s, tmp, (rv[1], rv[2]))
                rv = ("agg", tmp[0], tmp[1])
            s = s.delete_where(lambda k: k[0] == L)
            key = (rv, s.key())
            if key in seen:
                continue
            seen.add(key)
            yield (rv, s)

    on_return = None
    active = None

    def run_body(self, g, fr, st):
        """Worklist over (block, stmt index, state).  Returns list of
        (return value, state)."""
        outs = []
        seen = set()
        work = [(g.entry, 0, st, None)]
        L = "L%d" % fr.depth
        while work:
            bid, idx, s, lastv = work.pop()
            key = (bid, idx, s.key())
            if key in seen:
                continue
            seen.add(key)
            self.stats["steps"] += 1
            blk = g.blocks[bid]
            if idx < len(blk.stmts):
                stmt = blk.stmts[idx]
                for v, s2, ctl in self.exec_stmt(stmt, s, fr):
                    if ctl == "ret":
                        outs.append((v, s2))
                    elif ctl == "throw":
                        t = self.find_handler(g, bid, stmt)
                        if t is None:
                            outs.append((("throw",), s2))
                        else:
                            for hb in t:
                                work.append((hb, 0, s2, None))
                    else:
                        if "ci" in stmt:
                            s2 = s2.set((L, ("ref", bid, stmt["ci"])), v)
                        work.append((bid, idx + 1, s2, v if idx == blk.cond else lastv))
                continue
            # end of block: choose successors
            if bid == g.exit or not blk.succs:
                outs.append((TOP, s))
                continue
            if len(blk.succs) == 1:
                t = blk.succs[0].get("to")
                if t is not None:
                    work.append((t, 0, s, None))
                continue
            if blk.term == "try":
                # entering via a throw edge: all handlers are possible
                for sc in blk.succs:
                    if sc.get("to") is not None:
                        work.append((sc["to"], 0, s, None))
                continue
            cv = lastv
            if blk.cond is None:
                if blk.cond_expr is not None:
                    for v, s2 in self.eval(blk.cond_expr, s, fr):
                        self.branch(g, blk, v, s2, fr, work, None)
                    continue
                cv = TOP
            self.branch(g, blk, cv if cv is not None else TOP, s, fr, work,
                        blk.stmts[blk.cond] if blk.cond is not None else None)
        return outs

    def find_handler(self, g, bid, stmt=None):
        """Blocks a throw from bid can reach: the handlers of the innermost
        lexically enclosing try (stmt['eh'] = its dispatch block), or the
        'try' dispatch block the CFG links the throwing block to."""
        if stmt is not None and "eh" in stmt and stmt["eh"] in g.blocks:
            return [x["to"] for x in g.blocks[stmt["eh"]].succs if x.get("to") is not None]
        blk = g.blocks[bid]
        for sc in blk.succs:
            t = sc.get("to")
            if t is not None and g.blocks[t].term == "try":
                return [x["to"] for x in g.blocks[t].succs if x.get("to") is not None]
        return None

    def branch(self, g, blk, cv, s, fr, work, cond_node):
        if blk.term == "switch":
            taken = False
            default = None
            for sc in blk.succs:
                if sc.get("to") is None:
                    continue
                if "case" in sc:
                    cval = sc["case"].get("v")
                    if is_int(cv):
                        if cv[1] == cval:
                            work.append((sc["to"], 0, s, None))
                            taken = True
                    else:
                        s2 = self.refine_eq(s, cond_node, I(cval), fr) if cond_node is not None else s
                        work.append((sc["to"], 0, s2, None))
                else:
                    default = sc["to"]
            if default is not None and (not taken or not is_int(cv)):
                work.append((default, 0, s, None))
            return
        t = self.truth(cv)
        for sc in blk.succs:
            to = sc.get("to")
            if to is None:
                continue
            lab = sc.get("label")
            if lab == "true" and t is not False:
                s2 = self.refine(s, cond_node, True, fr) if (t is None and cond_node is not None) else s
                if s2 is not None:
                    work.append((to, 0, s2, None))
            elif lab == "false" and t is not True:
                s2 = self.refine(s, cond_node, False, fr) if (t is None and cond_node is not None) else s
                if s2 is not None:
                    work.append((to, 0, s2, None))
            elif lab not in ("true", "false"):
                work.append((to, 0, s, None))

    # ------------------------------------------------------------------
    # refinement of unknown values on branches
    def simple_loc(self, n, s, fr):
        """Location of a side-effect-free lvalue expression, or None."""
        n = ir.strip(n)
        if not isinstance(n, dict):
            return None
        if n.get("k") == "mem" and (n.get("rec"), n["f"]) in self.untracked:
            return None  # counters / sizes are never refined
        if n.get("k") == "asg" and n.get("op") == "=":
            return self.simple_loc(n["l"], s, fr)
        if n.get("k") not in ("var", "gvar", "mem", "deref", "idx"):
            return None
        for x in ir.walk(n):
            if x.get("k") in ("call", "asg", "new", "delete"):
                return None
        saved = self.on_read
        self.on_read = None
        try:
            res = list(self.lval(n, s, fr))
        finally:
            self.on_read = saved
        if len(res) == 1 and res[0][0] is not None:
            return res[0][0]
        return None

    def refine(self, s, cond, outcome, fr):
        """Refine state s knowing cond evaluated to outcome (bool)."""
        c = ir.strip(cond)
        if not isinstance(c, dict):
            return s
        k = c.get("k")
        if k == "un" and c.get("op") == "!":
            return self.refine(s, c["e"], not outcome, fr)
        if k == "bin" and c["op"] in ("==", "!="):
            eq = (c["op"] == "==") == outcome
            for a, b in ((c["l"], c["r"]), (c["r"], c["l"])):
                if ir.is_const(b):
                    loc = self.simple_loc(a, s, fr)
                    if loc is not None:
                        cur = self.read_quiet(s, loc)
                        val = I(ir.strip(b)["v"])
                        if eq:
                            if cur == TOP or (cur == NZ and val != ZERO):
                                return s.set(loc, val)
                        else:
                            if cur == TOP and val == ZERO:
                                return s.set(loc, NZ)
            return s
        if k in ("var", "gvar", "mem", "deref", "idx") or (k == "asg" and c.get("op") == "="):
            loc = self.simple_loc(c, s, fr)
            if loc is not None:
                cur = self.read_quiet(s, loc)
                if cur == TOP:
                    return s.set(loc, NZ if outcome else ZERO)
            return s
        if k == "bin" and c["op"] == "&&" and outcome:
            s = self.refine(s, c["l"], True, fr)
            return self.refine(s, c["r"], True, fr)
        if k == "bin" and c["op"] == "||" and not outcome:
            s = self.refine(s, c["l"], False, fr)
            return self.refine(s, c["r"], False, fr)
        return s

    def refine_eq(self, s, cond, val, fr):
        loc = self.simple_loc(cond, s, fr)
        if loc is not None and self.read_quiet(s, loc) == TOP:
            return s.set(loc, val)
        return s

    def read_quiet(self, s, loc):
        saved = dict(self.reports)
        v = self.read(s, loc)
        self.reports = saved
        return v

    # ------------------------------------------------------------------
    def exec_stmt(self, stmt, st, fr):
        """Yield (value, state, control) with control in None/'ret'/'throw'."""
        k = stmt.get("k")
        L = "L%d" % fr.depth
        if k == "decl":
            var = stmt["var"]
            loc = (L, (var["id"],))
            if var.get("static"):
                loc = ("glob", ("static:" + fr.fn.name + ":" + var["n"],))
            init = stmt.get("init")
            if init is None:
                if var.get("r") and not var.get("pd"):
                    yield (TOP, self.fill(st, loc, zero=False), None)
                else:
                    yield (TOP, st.set(loc, TOP), None)
                return
            if isinstance(init, dict) and init.get("k") == "init":
                if var.get("static") and st.get((loc[0], loc[1] + ("<z>",))):
                    yield (TOP, st, None)
                    return
                for s2 in self.assign_init(loc, init, st, fr):
                    yield (TOP, s2, None)
                return
            if isinstance(init, dict) and init.get("k") == "construct":
                for _, s2 in self.eval(init, st, fr):
                    yield (TOP, self.fill(s2, loc, zero=False), None)
                return
            for v, s2 in self.eval(init, st, fr):
                if v[0] == "throw":
                    yield (v, s2, "throw")
                elif v[0] == "agg":
                    yield (v, self.copy_agg(s2, loc, (v[1], v[2])), None)
                else:
                    yield (v, s2.set(loc, v), None)
            return
        if k == "ret":
            if "e" in stmt:
                for v, s2 in self.eval(stmt["e"], st, fr):
                    if v[0] == "throw":
                        yield (v, s2, "throw")
                    else:
                        yield (v, s2, "ret")
            else:
                yield (TOP, st, "ret")
            return
        if k == "cinit":
            this = self.read(st, (L, ("this",)))
            if not is_ptr(this):
                yield (TOP, st, None)
                return
            base = (this[1], this[2])
            v = stmt.get("v")
            if "f" in stmt:
                loc = (base[0], base[1] + (stmt["f"],))
                if isinstance(v, dict) and v.get("k") == "init":
                    for s2 in self.assign_init(loc, v, st, fr):
                        yield (TOP, s2, None)
                elif isinstance(v, dict) and v.get("k") in ("construct",):
                    for _, s2 in self.eval(v, st, fr):
                        yield (TOP, self.fill(s2, loc, zero=False), None)
                elif v is None:
                    yield (TOP, st, None)
                else:
                    wide = (fr.fn.d.get("record"), stmt["f"]) in self.untracked
                    for val, s2 in self.eval(v, st, fr):
                        if wide and val[0] in ("int", "nz"):
                            val = TOP
                        yield (val, s2.set(loc, val), None)
            else:
                if isinstance(v, dict) and v.get("k") == "init":
                    for s2 in self.assign_init_nofill(base, v, st, fr):
                        yield (TOP, s2, None)
                else:
                    yield (TOP, st, None)
            return
        if k in ("autodtor", "memberdtor", "basedtor"):
            yield (TOP, st, None)
            return
        for v, s2 in self.eval(stmt, st, fr):
            if v[0] == "throw":
                yield (v, s2, "throw")
            else:
                yield (v, s2, None)

    # ------------------------------------------------------------------
    def run(self, fname, vals, st):
        """Run a top-level function by name from state st."""
        g = self.prog.func(fname)
        self.active = []
        self.stack = []
        return list(self.call_function(g, vals, st, None, None))


# ---------------------------------------------------------------------------
# harness: exhaustive exploration of inter-call states

ARG_OBJS = ("obj:arg", "obj:arg2", "obj:frames")


def fresh_args(st):
    """The client's argument objects carry no information from one call to
    the next: reset them to unknown."""
    st = st.delete_where(lambda k: k[0] in ARG_OBJS)
    return st.update({(o, ("<t>",)): 1 for o in ARG_OBJS})


def canon(st):
    """Inter-call state: locals and temporaries of finished calls dropped."""
    st = st.delete_where(lambda k: isinstance(k[0], str) and
                         (k[0].startswith("L") and k[0][1:].isdigit() or k[0] == "ret"))
    return fresh_args(st)


class Explorer:
    """Drives an Interp with a nondeterministic automaton of entry calls.
    ops: list of (name, callable(interp, state) -> iterable of (label, state))
    where the callable performs the call(s) and returns the resulting
    inter-call states (or None to stop exploring that branch)."""

    def __init__(self, interp, ops, max_states=20000, bfs=False, on_bound="truncate"):
        self.interp = interp
        self.ops = ops
        self.max_states = max_states
        self.bfs = bfs                 # breadth first: all short histories first
        self.on_bound = on_bound       # "truncate" (analysis broken) | "stop" (bounded exploration)
        self.bounded = False
        self.states = {}
        self.transitions = 0
        self.witness = {}

    def explore(self, init_states):
        work = []
        for label, st in init_states:
            st = canon(st)
            k = st.key()
            if k not in self.states:
                self.states[k] = st
                self.witness[k] = [label]
                work.append(st)
        while work:
            st = work.pop(0) if self.bfs else work.pop()
            w = self.witness[st.key()]
            for name, op in self.ops:
                self.interp.cur_witness = w + [name]
                res = op(self.interp, st)
                for label, st2 in res or ():
                    self.transitions += 1
                    if st2 is None:
                        continue
                    st2 = canon(st2)
                    k = st2.key()
                    if k not in self.states:
                        if len(self.states) >= self.max_states:
                            self.bounded = True
                            if self.on_bound == "truncate":
                                self.interp.truncated.append("state bound")
                                return
                            continue   # keep applying ops to known states only
                        self.states[k] = st2
                        self.witness[k] = w + [label]
                        work.append(st2)
