/* Compile-time witnesses for C05 (DESIGN.md 3.7). Compiled -fsyntax-only with
 * the flags of runtime/source.c on every run; each failed assertion is a
 * violation naming the assertion. */
#include <stddef.h>
#include <stdint.h>
#include "device/props/components.h"
#include "runtime/channel.h"

_Static_assert(sizeof(struct VideoFrame) % 8 == 0, "W1: sizeof(struct VideoFrame) is a multiple of 8");
_Static_assert(offsetof(struct VideoFrame, data) == sizeof(struct VideoFrame), "W2: the pixel data starts directly after the header (no tail padding)");
_Static_assert(_Alignof(struct VideoFrame) == 8, "W3: struct VideoFrame is 8-byte aligned");
_Static_assert(offsetof(struct VideoFrame, data) % 8 == 0, "W4: pixel data starts on an 8-byte boundary");
_Static_assert(sizeof(((struct VideoFrame*)0)->bytes_of_frame) == sizeof(size_t), "W5: the size field has the width of size_t");
_Static_assert(sizeof(((struct channel*)0)->head) == sizeof(((struct VideoFrame*)0)->bytes_of_frame), "W6: ring cursors and the frame size field have the same width");
_Static_assert(offsetof(struct VideoFrame, bytes_of_frame) == 0, "W7: the size field is the first member of the header");
