// Finding 4 (C13): copying a source that has dimensions frees the source's array. Build with ASan.
#include "device/props/storage.h"
#include <stdio.h>
int main(){
  struct StorageProperties a={0}, b={0}; struct PixelScale ps={1,1};
  storage_properties_init(&a,0,"a.zarr",7,0,0,ps,2);
  storage_properties_set_dimension(&a,0,"x",2,DimensionType_Space,64,16,1);
  storage_properties_set_dimension(&a,1,"t",2,DimensionType_Time,0,1,1);
  storage_properties_init(&b,0,"b",2,0,0,ps,0);
  printf("copy=%d\n", storage_properties_copy(&b,&a));
  printf("src dim0 name after copy: %s\n", a.acquisition_dimensions.data[0].name.str);
  storage_properties_destroy(&a); storage_properties_destroy(&b); printf("ok\n"); return 0; }
