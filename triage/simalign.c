// Triage (C17): bin2 (AVX2) dereferences __m256i* (32-byte aligned loads/stores) on buffers that
// come from realloc(), which guarantees 16-byte alignment only. Sweep a few accepted configurations.
#include "device/kit/camera.h"
#include "simulated.camera.h"
#include <stdio.h>
#include <stdlib.h>
#include <signal.h>
#include <unistd.h>
static volatile int cur_w, cur_h, cur_b;
static void on_segv(int s){ char m[160]; int n=snprintf(m,sizeof m,"DEFECT: SIGSEGV in the streamer at binning=%d shape=%dx%d (misaligned 32-byte vector access on a realloc'ed buffer)\n",cur_b,cur_w,cur_h); write(1,m,n); _exit(1); }
int main(){
  signal(SIGSEGV,on_segv);
  int shapes[][2]={{64,48},{8192,8},{50,50},{1920,1080},{33,7},{4096,4}};
  for(int b=2;b<=8;b*=2) for(unsigned k=0;k<sizeof shapes/sizeof shapes[0];++k){
    struct Camera* cam = simcam_make_camera(BasicDevice_Camera_Random);
    struct CameraProperties p={0}; cam->get(cam,&p);
    p.binning=b; p.shape.x=shapes[k][0]; p.shape.y=shapes[k][1]; p.exposure_time_us=100;
    cur_b=b; cur_w=p.shape.x; cur_h=p.shape.y;
    if(cam->set(cam,&p)!=Device_Ok) continue;
    struct ImageShape sh; cam->get_shape(cam,&sh);
    cam->start(cam);
    size_t n=(size_t)sh.dims.width*sh.dims.height*4; void* buf=malloc(n); struct ImageInfo info;
    for(int i=0;i<3;++i){ size_t m=n; cam->get_frame(cam,buf,&m,&info); }
    cam->stop(cam); free(buf);
  }
  printf("ok: no crash\n"); return 0; }
