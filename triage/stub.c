struct Driver* device_manager_get_driver(const void*a,const void*b){return 0;}
