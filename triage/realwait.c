#include "platform.h"
void real_wait(struct condition_variable* cv, struct lock* l){ condition_variable_wait(cv,l); }
