// Replay: file_create() on a file locked by another descriptor, with a log
// reporter that (legitimately) resets errno, e.g. before a strtol of its own.
// The flock failure branch logs *before* saving errno, so CHECK_POSIX sees 0,
// falls through and ftruncates/closes the descriptor it has already closed.
// close() is interposed to count calls per descriptor.
#define _GNU_SOURCE
#include "platform.h"
#include "logger.h"
#include <errno.h>
#include <fcntl.h>
#include <stdio.h>
#include <string.h>
#include <sys/file.h>
#include <unistd.h>
#include <dlfcn.h>

static int closes[1024];
int
close(int fd)
{
    static int (*real)(int);
    if (!real)
        real = (int (*)(int))dlsym(RTLD_NEXT, "close");
    if (fd >= 0 && fd < 1024)
        ++closes[fd];
    return real(fd);
}

static void
reporter(int is_error, const char* file, int line, const char* function, const char* msg)
{
    errno = 0; // what a reporter that parses or formats numbers does
    (void)is_error; (void)file; (void)line; (void)function; (void)msg;
}

int
main(void)
{
    const char name[] = "errnoclobber.bin";
    logger_set_reporter(reporter);
    int held = open(name, O_RDWR | O_CREAT, 0666);
    flock(held, LOCK_EX | LOCK_NB);
    struct file f = { 0 };
    int ok = file_create(&f, name, sizeof(name));
    int worst = 0;
    for (int i = 0; i < 1024; ++i)
        if (closes[i] > worst)
            worst = closes[i];
    printf("file_create on a locked file returned %d; descriptor %d was closed %d time(s)\n",
           ok, f.fid, closes[f.fid]);
    printf(closes[f.fid] > 1 ? "DEFECT: descriptor closed twice (second close hits whatever reused the number)\n"
                             : "ok: closed once\n");
    unlink(name);
    return closes[f.fid] > 1;
}
