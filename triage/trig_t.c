// Finding 17 (C18): a software trigger left over from simcam_stop's wake-up
// releases a frame after the next start although no trigger was fired.
// Stop arrives while the streamer is mid-frame (it was just triggered): the
// fake trigger stop uses to wake a waiting streamer stays set, and start does
// not clear it.
#include "device/kit/camera.h"
#include "simulated.camera.h"
#include <pthread.h>
#include <stdio.h>
#include <stdlib.h>
#include <string.h>
#include <unistd.h>
static struct Camera* cam; static volatile int got = 0; static struct ImageInfo info;
static void* getter(void* a){ size_t n = 64*48; void* buf = malloc(n); if (cam->get_frame(cam, buf, &n, &info) == Device_Ok && n) got = 1; return 0; }
int main(){
  cam = simcam_make_camera(BasicDevice_Camera_Random);
  struct CameraProperties p = {0}; cam->get(cam, &p);
  p.shape.x = 64; p.shape.y = 48; p.exposure_time_us = 200000; p.input_triggers.frame_start.enable = 1;
  if (cam->set(cam, &p) != Device_Ok) { puts("set failed"); return 2; }
  cam->start(cam);
  cam->execute_trigger(cam);      // the streamer takes it and renders for 200 ms
  usleep(50000);                  // ... so it is mid-frame now
  cam->stop(cam);                 // fake trigger to wake a waiter: nobody waits
  cam->start(cam);                // second run, no trigger fired yet
  pthread_t t; pthread_create(&t, 0, getter, 0);
  sleep(1);
  if (got) { printf("VIOLATION: frame id %llu delivered in the second run before any trigger\n", (unsigned long long)info.hardware_frame_id); }
  else puts("ok: no frame before a trigger");
  cam->execute_trigger(cam); pthread_join(t, 0); cam->stop(cam);
  return got ? 1 : 0; }
