// Clean-tree observation (not the seed): acquire_abort() never returns when
// the averaging filter thread has died and the source sleeps on a full
// filter.in ring. Public API + simulated camera only.
#include "acquire.h"
#include "device/hal/device.manager.h"
#include "platform.h"
#include "logger.h"
#include <cstdio>
#include <cstdlib>
#include <unistd.h>

static void
reporter(int is_error, const char* file, int line, const char* function,
         const char* msg)
{
    if (is_error)
        fprintf(stderr, "ERROR %s(%d) - %s: %s\n", file, line, function, msg);
}
#define SIZED(str) str, sizeof(str)
#define CHECK(e) do { if (!(e)) { fprintf(stderr, "FAILED: %s\n", #e); exit(2); } } while (0)

static volatile int abort_returned = 0;
static void
do_abort(void* rt)
{
    acquire_abort((AcquireRuntime*)rt);
    abort_returned = 1;
}

int
main()
{
    auto runtime = acquire_init(reporter);
    auto dm = acquire_device_manager(runtime);
    CHECK(runtime && dm);
    AcquireProperties props = {};
    CHECK(AcquireStatus_Ok == acquire_get_configuration(runtime, &props));
    CHECK(Device_Ok == device_manager_select(dm, DeviceKind_Camera,
            SIZED("simulated.*empty.*") - 1, &props.video[0].camera.identifier));
    CHECK(Device_Ok == device_manager_select(dm, DeviceKind_Storage,
            SIZED("Trash") - 1, &props.video[0].storage.identifier));
    props.video[0].frame_average_count = 2;
    props.video[0].camera.settings.binning = 1;
    props.video[0].camera.settings.pixel_type = SampleType_f32; // advertised by the simcam
    props.video[0].camera.settings.shape = { .x = 4096, .y = 4096 }; // 64 MiB/frame
    props.video[0].camera.settings.exposure_time_us = 1e3;
    props.video[0].max_frame_count = 1000;
    CHECK(AcquireStatus_Ok == acquire_configure(runtime, &props));
    CHECK(AcquireStatus_Ok == acquire_start(runtime));

    sleep(8); // > 16 frames: filter.in (1 GiB) is full by now
    printf("state before abort: %d (Running=%d)\n", (int)acquire_get_state(runtime), (int)DeviceState_Running);

    struct thread t;
    thread_init(&t);
    thread_create(&t, do_abort, runtime);
    for (int i = 0; i < 200 && !abort_returned; ++i)
        usleep(100000);
    if (!abort_returned) {
        printf("OBSERVED: acquire_abort() has not returned after 20 s\n");
        fflush(stdout);
        _exit(1);
    }
    printf("abort returned\n");
    thread_join(&t);
    acquire_shutdown(runtime);
    return 0;
}
