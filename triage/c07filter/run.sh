#!/bin/bash
# usage: run.sh <repo-root-with-_build> [flush|abort]
# flush: component-level replay of the filter's single-pass final flush (O2) - compiles filter.c from the tree
# abort: public-API replay of abort with a dead averaging filter (O1) - links the tree's built static libs (needs _build)
set -u
T=$(realpath "${1:-/repo}"); M=${2:-flush}; H=$(cd "$(dirname "$0")" && pwd); W=$(mktemp -d /var/tmp/c07f.XXXXXX); trap 'rm -rf "$W"' EXIT
cd "$T"
if [ "$M" = flush ]; then
  cc -std=gnu11 -O1 -g -pthread -DNO_UNIT_TESTS -w -Iacquire-video-runtime/src/runtime -Iacquire-video-runtime/src \
    -Iacquire-core-libs/src/acquire-core-platform/linux -Iacquire-core-libs/src/acquire-core-logger \
    -Iacquire-core-libs/src/acquire-device-properties "$H/filter_flush_and_late_monitor.c" \
    acquire-video-runtime/src/runtime/{channel,frame_iterator,throttler}.c \
    acquire-core-libs/src/acquire-core-platform/linux/platform.c acquire-core-libs/src/acquire-core-logger/logger.c \
    acquire-core-libs/src/acquire-device-properties/device/props/components.c -ldl -o "$W/obs" && "$W/obs"; echo "rc=$?"
else
  B=_build
  c++ -O1 -g -Iacquire-video-runtime/src -Iacquire-core-libs/src/acquire-device-hal \
    -Iacquire-core-libs/src/acquire-device-properties -Iacquire-core-libs/src/acquire-core-platform/linux \
    -Iacquire-core-libs/src/acquire-core-logger "$H/abort_dead_filter.cpp" -o "$W/obs-abort-dead-filter" \
    $B/acquire-video-runtime/src/libacquire-video-runtime.a $B/acquire-core-libs/src/acquire-device-hal/libacquire-device-hal.a \
    $B/acquire-core-libs/src/acquire-device-properties/libacquire-device-properties.a \
    $B/acquire-core-libs/src/acquire-core-platform/linux/libacquire-core-platform.a \
    $B/acquire-core-libs/src/acquire-core-logger/libacquire-core-logger.a -pthread -ldl || exit 2
  cp "$(find $B -name 'libacquire-driver-common.so' | head -1)" "$W/" && (cd "$W" && ./obs-abort-dead-filter 2>&1 | tail -6); echo "rc=$?"
fi
