// Clean-tree observations (not the seed), component level:
//  (1) the filter's final flush is a single process_data() pass; when its
//      backlog spans a wrap of filter.in, the part after the wrap stays queued
//      and is processed by the NEXT acquisition.
//  (2) a monitor reader that maps for the first time in a later acquisition
//      starts at position 0 of the current lap and is handed the frames of
//      the earlier acquisitions again.
#include "filter.c" // reach video_filter_thread()
#include <stdio.h>
#include <stdlib.h>

static void
reporter(int is_error, const char* file, int line, const char* function,
         const char* msg)
{
    (void)is_error; (void)file; (void)line; (void)function; (void)msg;
}

#define W 8
#define F (sizeof(struct VideoFrame) + W * W) // u8 frame, already 8-aligned

static void
put(struct channel* c, uint64_t id, uint8_t v)
{
    struct VideoFrame* im = channel_write_map(c, F);
    if (!im) { printf("write_map failed\n"); exit(2); }
    *im = (struct VideoFrame){
        .bytes_of_frame = F, .frame_id = id,
        .shape = { .dims = { 1, W, W, 1 },
                   .strides = { 1, 1, W, W * W },
                   .type = SampleType_u8 } };
    memset(im->data, v, W * W);
    channel_write_unmap(c);
}

static void
stop_filter(struct video_filter_s* f) // what the filter does once is_stopping
{
    f->is_stopping = 1;
    video_filter_thread(f);
}

int
main(void)
{
    int observed = 0;
    logger_set_reporter(reporter);
    // ---- (1)
    struct channel out;
    channel_new(&out, 1 << 16);
    struct channel_reader rd = { 0 };
    { struct slice s = channel_read_map(&out, &rd); channel_read_unmap(&out, &rd, s.end - s.beg); }
    struct video_filter_s f;
    video_filter_init(&f, 0, 3 * F + 8, &out);
    video_filter_configure(&f, 2);
    stop_filter(&f);            // registers the filter's reader
    put(&f.in, 0, 10); put(&f.in, 1, 20);
    stop_filter(&f);            // acquisition 1: frames 0,1 -> one averaged frame
    put(&f.in, 100, 10);        // acquisition 2: lands at the end of the ring
    put(&f.in, 101, 20);        //                wraps to the start
    stop_filter(&f);            // final flush of acquisition 2
    {
        size_t pos = f.in.holds.pos[f.reader.id - 1], head = f.in.head;
        size_t cyc = f.in.holds.cycles[f.reader.id - 1];
        int left = !(pos == head && cyc == f.in.cycle);
        printf("(1) after the final flush of acquisition 2: filter.in %s\n",
               left ? "STILL HOLDS DATA" : "is empty");
        observed |= left;
    }
    stop_filter(&f);            // acquisition 3 with no camera frame at all
    {
        struct slice s = channel_read_map(&out, &rd);
        for (uint8_t* p = s.beg; p < s.end; p += ((struct VideoFrame*)p)->bytes_of_frame) {
            struct VideoFrame* v = (struct VideoFrame*)p;
            printf("    filter output: frame_id=%d px0=%g\n", (int)v->frame_id, ((float*)v->data)[0]);
        }
        channel_read_unmap(&out, &rd, s.end - s.beg);
    }
    // ---- (2)
    struct channel ring;
    channel_new(&ring, 1 << 16);
    struct channel_reader sink = { 0 }, monitor = { 0 };
    { struct slice s = channel_read_map(&ring, &sink); channel_read_unmap(&ring, &sink, s.end - s.beg); }
    put(&ring, 0, 1); put(&ring, 1, 1); put(&ring, 2, 1);       // acquisition 1
    { struct slice s = channel_read_map(&ring, &sink); channel_read_unmap(&ring, &sink, s.end - s.beg); }
    // acquire_stop(): monitor.reader.id == 0 -> nothing to flush
    put(&ring, 0, 2);                                           // acquisition 2
    {
        struct slice s = channel_read_map(&ring, &monitor);     // first acquire_map_read()
        int n = 0;
        for (uint8_t* p = s.beg; p < s.end; p += ((struct VideoFrame*)p)->bytes_of_frame) ++n;
        printf("(2) first map of the client in acquisition 2 returns %d frames (1 was written)\n", n);
        observed |= (n != 1);
    }
    return observed ? 1 : 0;
}
