// Triage (C06): a client that starts monitoring in a LATER acquisition. acquire_stop flushes the
// monitor reader only if it is already registered (reader.id != 0); an unregistered reader joins
// at (current lap, position 0), so its first map in acquisition 2 returns acquisition 1's frames.
#include "acquire.h"
#include "device/hal/device.manager.h"
#include "device/props/components.h"
#include <stdio.h>
#include <string.h>
#include <unistd.h>
static void rep(int e,const char*f,int l,const char*fn,const char*m){ if(e) printf("  LOG[%s:%d] %s\n",fn,l,m);}
int main(){ setvbuf(stdout,0,_IONBF,0);
  struct AcquireRuntime* rt=acquire_init(rep); const struct DeviceManager* dm=acquire_device_manager(rt);
  struct AcquireProperties p={0}; acquire_get_configuration(rt,&p);
  device_manager_select(dm,DeviceKind_Camera,"simulated: empty",16,&p.video[0].camera.identifier);
  device_manager_select(dm,DeviceKind_Storage,"trash",5,&p.video[0].storage.identifier);
  p.video[0].camera.settings.binning=1; p.video[0].camera.settings.shape.x=64; p.video[0].camera.settings.shape.y=48;
  p.video[0].camera.settings.exposure_time_us=1e3f; p.video[0].max_frame_count=5;
  // acquisition 1: the client does not monitor
  acquire_configure(rt,&p); acquire_start(rt); acquire_stop(rt);
  // acquisition 2: the client starts to monitor
  acquire_configure(rt,&p); acquire_start(rt);
  int seen=0, restarts=0; long last=-1; 
  for(int k=0;k<100;++k){ struct VideoFrame *b=0,*e=0; usleep(20000);
    if(acquire_map_read(rt,0,&b,&e)!=AcquireStatus_Ok){ printf("map failed\n"); break; }
    for(struct VideoFrame* c=b;c<e;c=(struct VideoFrame*)((char*)c+c->bytes_of_frame)){ if((long)c->frame_id<=last) ++restarts; last=(long)c->frame_id; ++seen; printf("frame id %ld\n",last);}
    acquire_unmap_read(rt,0,(char*)e-(char*)b);
    if(acquire_get_state(rt)!=DeviceState_Running && b==e) break; }
  acquire_stop(rt); acquire_shutdown(rt);
  if(seen>5||restarts){ printf("DEFECT: acquisition 2 produced 5 frames, the client that joined in acquisition 2 saw %d (id sequence restarted %d time(s)): frames of the stopped acquisition 1 were delivered\n",seen,restarts); return 1; }
  printf("ok: %d frames\n",seen); return 0; }
