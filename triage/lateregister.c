// Replay (C04): the sink's reader registers with its queue in its first
// channel_read_map(), i.e. whenever the sink thread first gets to run.  A queue
// without readers never makes its writer wait, so whatever the source commits
// beyond one ring capacity before that moment overwrites unread frames.
// Schedule: the sink thread is held off (here: simply not started yet) while the
// source commits six 1 KiB frames into a 4 KiB queue; then the sink reads.
#include "runtime/sink.h"
#include "runtime/channel.h"
#include "device/props/components.h"
#include <pthread.h>
#include <stdio.h>
#include <string.h>
#include <unistd.h>
static struct video_sink_s sink; static volatile int written;
static void nop(const struct video_sink_s* s){ (void)s; }
static void* source(void* a){
  for (int i = 0; i < 6; ++i) { struct VideoFrame* f = channel_write_map(&sink.in, 1024);
    if (!f) break; memset(f, 0, 1024); f->bytes_of_frame = 1024; f->frame_id = i; channel_write_unmap(&sink.in); written = i + 1; }
  return 0; }
int main(void){
  video_sink_init(&sink, 0, 4096, nop);
  pthread_t t; pthread_create(&t, 0, source, 0);
  usleep(300000);                                    // the sink thread has not run yet
  printf("source has committed %d frame(s) before the sink's first read%s\n", written, written < 6 ? " and now waits for the sink" : "");
  int seen = 0, first = -1;
  for (int k = 0; k < 200 && seen < 6; ++k) {        // the sink's loop
    struct slice s = channel_read_map(&sink.in, &sink.reader);
    for (uint8_t* p = s.beg; p < s.end; p += ((struct VideoFrame*)p)->bytes_of_frame) { if (first < 0) first = (int)((struct VideoFrame*)p)->frame_id; ++seen; }
    channel_read_unmap(&sink.in, &sink.reader, s.end - s.beg);
    usleep(5000); }
  channel_accept_writes(&sink.in, 0); pthread_join(t, 0);
  printf("sink saw %d of 6 frames, the first one has id %d\n", seen, first);
  if (seen != 6 || first != 0) { puts("DEFECT: frames committed before the sink's first read were overwritten unread"); return 1; }
  puts("ok: every frame reached the sink"); return 0; }
