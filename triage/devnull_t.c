// Replay: file_create on a path that is not a regular file (benchmarking a
// storage device against /dev/null).  Since the truncation moved from O_TRUNC
// to ftruncate() after flock(), ftruncate's EINVAL made the create fail.
#include "platform.h"
#include <stdio.h>
int main(void){ struct file f = {0}; const char n[] = "/dev/null";
  int ok = file_create(&f, n, sizeof(n)); printf("file_create(\"/dev/null\") -> %d\n", ok);
  if (ok) file_close(&f); puts(ok ? "ok" : "DEFECT: a storage device can no longer be pointed at /dev/null"); return !ok; }
