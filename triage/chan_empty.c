// Finding 2 (C01/C04/C06): channel_read_map returns an empty region although
// committed data is unread (caught-up reader at a wrap boundary).
#include "runtime/channel.h"
#include <stdio.h>
int main(){
  struct channel c; channel_new(&c,100);
  struct channel_reader r={0};
  struct slice s=channel_read_map(&c,&r); channel_read_unmap(&c,&r,0); // register
  for(int i=0;i<3;i++){ channel_write_map(&c,30); channel_write_unmap(&c);
    s=channel_read_map(&c,&r); printf("read %ld\n",(long)(s.end-s.beg)); channel_read_unmap(&c,&r,s.end-s.beg);}
  void*p=channel_write_map(&c,30); printf("write at off %ld\n",(long)((uint8_t*)p-c.data)); channel_write_unmap(&c);
  s=channel_read_map(&c,&r); printf("read after wrap: %ld bytes (30 committed, unread) status=%d\n",(long)(s.end-s.beg), r.status); channel_read_unmap(&c,&r,s.end-s.beg);
  s=channel_read_map(&c,&r); printf("read again: %ld bytes\n",(long)(s.end-s.beg));
  return 0;}
