// Triage (C15): Tiff::set stores the external metadata only when the new settings carry some;
// a later set WITHOUT metadata keeps the previous acquisition's, and the next file's first frame
// carries metadata the user did not give for it.
#include "device/kit/storage.h"
#include "device/props/storage.h"
#include <cstdio>
#include <cstdlib>
#include <cstring>
#include <string>
#include <unistd.h>
extern "C" struct Storage* tiff_init();
#include "logger.h"
static void rep(int e,const char*f,int l,const char*fn,const char*m){ if(e) printf("LOG[%s:%d] %s\n",fn,l,m);}
static std::string slurp(const char* p){ FILE* f=fopen(p,"rb"); std::string s; char b[4096]; size_t k; while((k=fread(b,1,sizeof b,f))>0) s.append(b,k); fclose(f); return s; }
int main(){ setvbuf(stdout,0,_IONBF,0); logger_set_reporter(rep);
  size_t n=sizeof(VideoFrame)+64; VideoFrame* f=(VideoFrame*)calloc(1,n); f->bytes_of_frame=n; f->shape.dims={1,8,8,1}; f->shape.strides={1,1,8,64}; f->shape.type=SampleType_u8;
  StorageProperties p{}; PixelScale ps{1,1};
  Storage* s=tiff_init();
  const char md[]="{\"secret-of-run-1\":42}";
  storage_properties_init(&p,0,"m1.tif",7,md,sizeof(md),ps,0);
  s->state=s->set(s,&p); s->state=s->start(s); { size_t nb=n; s->state=s->append(s,f,&nb);} s->state=s->stop(s);
  StorageProperties q{}; storage_properties_init(&q,0,"m2.tif",7,0,0,ps,0);   // run 2: no metadata
  s->state=s->set(s,&q); s->state=s->start(s); { size_t nb=n; s->state=s->append(s,f,&nb);} s->state=s->stop(s);
  bool stale = slurp("m2.tif").find("secret-of-run-1")!=std::string::npos;
  unlink("m1.tif"); unlink("m2.tif");
  if(stale){ printf("DEFECT: the file of run 2 (configured without metadata) carries run 1's metadata on its first frame\n"); return 1; }
  printf("ok\n"); return 0; }
