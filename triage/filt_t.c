#include "runtime/filter.h"
#include "runtime/channel.h"
#include "device/props/components.h"
#include <stdio.h>
#include <string.h>
#include <unistd.h>
int main(){ setvbuf(stdout,0,_IONBF,0);
  struct channel out; channel_new(&out, 4096);           // small sink ring so it is reused
  struct channel_reader rd={0};
  struct video_filter_s f; video_filter_init(&f,0,1<<16,&out); video_filter_configure(&f,2);
  { struct slice s=channel_read_map(&out,&rd); channel_read_unmap(&out,&rd,0);} // register reader
  video_filter_start(&f);
  const unsigned W=16,H=16; size_t nb=sizeof(struct VideoFrame)+W*H;
  int bad=0, seen=0;
  for(int i=0;i<40;i++){
    struct VideoFrame* im=channel_write_map(&f.in,nb); memset(im,0,nb);
    im->bytes_of_frame=nb; im->frame_id=i; im->shape.dims=(struct image_dims_s){1,W,H,1}; im->shape.strides=(struct image_strides_s){1,1,W,W*H}; im->shape.type=SampleType_u8;
    memset(im->data,1,W*H); channel_write_unmap(&f.in);
    usleep(30000);
    struct slice s=channel_read_map(&out,&rd);
    for(uint8_t* p=s.beg;p<s.end;){ struct VideoFrame* o=(struct VideoFrame*)p; float* x=(float*)o->data; seen++;
      if(x[0]!=1.0f||x[W*H-1]!=1.0f){ if(!bad) printf("output frame %d (id %llu): mean of two all-ones frames = %g (expected 1)\n",seen,(unsigned long long)o->frame_id,x[0]); bad++;}
      p+=o->bytes_of_frame; }
    channel_read_unmap(&out,&rd,s.end-s.beg);
  }
  printf("averaged frames seen %d, wrong %d\n",seen,bad); f.is_stopping=1; usleep(50000); return 0; }
